#include <stdio.h>
#include <stdlib.h>
#include <string.h>
#include <stdint.h>
#include <zlib.h>
#include "igzip_lib.h"
struct ev {int st0, st1, fl, eos; uint32_t ai, ao, ci, po; uint8_t hh0, hh1;};
int main(int argc, char **argv)
{
	FILE *f = fopen("case.bin", "rb"); int hdr[8]; fread(hdr, sizeof hdr, 1, f);
	int n = hdr[0], lvl = hdr[1], wrap = hdr[2], hb0 = hdr[3], lbsz = hdr[4], ctxfill = hdr[5], lbfill = hdr[6], nev = hdr[7];
	if (argc > 1) lbfill = atoi(argv[1]); if (argc > 2) ctxfill = atoi(argv[2]); if (argc > 3) lbsz = atoi(argv[3]);
	int ffl = argc > 4 ? atoi(argv[4]) : -1;
	uint8_t *in = malloc(n); fread(in, 1, n, f); struct ev *E = malloc(sizeof *E * nev); fread(E, sizeof *E, nev, f);
	struct isal_zstream s; memset(&s, ctxfill, sizeof s); isal_deflate_init(&s);
	s.level = lvl; s.level_buf_size = lbsz; s.level_buf = malloc(lbsz); memset(s.level_buf, lbfill, lbsz); s.gzip_flag = wrap; s.hist_bits = hb0;
	uint8_t *out = malloc(n * 2 + 70000); size_t op = 0; int ip = 0;
	for (int e = 0; e < nev; e++) {
		uint8_t ob[100001]; s.next_in = in + ip; s.avail_in = E[e].ai; s.next_out = ob; s.avail_out = E[e].ao; s.flush = (e == 0 && ffl >= 0) ? ffl : E[e].fl; s.end_of_stream = E[e].eos;
		int st0 = s.internal_state.state; int r = isal_deflate(&s);
		uint32_t ci = E[e].ai - s.avail_in, po = E[e].ao - s.avail_out; ip += ci; memcpy(out + op, ob, po); op += po;
		if (argc <= 5) printf("#%d r=%d st %d->%d fl=%d eos=%d ci=%u/%u po=%u/%u has_hist=%d b_valid=%u b_proc=%u blk_next=%u blk_end=%u tin=%u\n", e, r, st0, s.internal_state.state, s.flush, E[e].eos, ci, E[e].ai, po, E[e].ao, s.internal_state.has_hist, s.internal_state.b_bytes_valid, s.internal_state.b_bytes_processed, s.internal_state.block_next, s.internal_state.block_end, s.total_in);
		if (s.avail_in) { ip -= 0; printf("  (input left %u)\n", s.avail_in); }
	}
	uint8_t *back = malloc(n + 10); z_stream z = { 0 }; int wb = wrap == 0 ? -15 : (wrap == 1 ? 31 : (wrap == 3 ? 15 : -15));
	inflateInit2(&z, wb); z.next_in = out; z.avail_in = op; z.next_out = back; z.avail_out = n + 1; int zr = inflate(&z, Z_FINISH);
	size_t fm = 0; while (fm < (size_t) n && fm < z.total_out && back[fm] == in[fm]) fm++;
	printf("lbfill=%d ctxfill=%d lbsz=%d: zr=%d tout=%lu n=%d op=%zu firstmismatch=%zu state=%d\n", lbfill, ctxfill, lbsz, zr, z.total_out, n, op, fm, s.internal_state.state);
	return 0;
}
