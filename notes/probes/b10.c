#define _GNU_SOURCE
#include <stdio.h>
#include <stdlib.h>
#include <sys/mman.h>
#include "rinf.h"
#include <zlib.h>
#include "igzip_lib.h"
static uint64_t rs = 88172645463325252ull;
static uint32_t rnd(void) { rs ^= rs << 13; rs ^= rs >> 7; rs ^= rs << 17; return rs >> 11; }
int main(int argc, char **argv)
{
	int iters = argc > 1 ? atoi(argv[1]) : 300; if (argc > 2) rs = strtoull(argv[2], 0, 0);
	long bad = 0, ok_cnt = 0, ovf_cnt = 0, cases = 0;
	size_t RSZ = 64 << 20; uint8_t *reg = mmap(0, RSZ + 4096, PROT_READ | PROT_WRITE, MAP_PRIVATE | MAP_ANONYMOUS, -1, 0); mprotect(reg + RSZ, 4096, PROT_NONE);
	static const int sizes[] = { 0, 1, 2, 7, 8, 9, 100, 300, 65534, 65535, 65536, 65537, 131069, 131070, 131071, 200000 };
	for (int it = 0; it < iters; it++) {
		int n = (rnd() % 2) ? sizes[rnd() % 16] : (int) (rnd() % 70000); uint8_t *in = malloc(n + 8); int mode = rnd() % 4;
		for (int i = 0; i < n; i++) in[i] = mode == 0 ? rnd() : mode == 1 ? 0 : mode == 2 ? 0xff : "ab"[rnd() % 2];
		int lvl = rnd() % 4, wrap = rnd() % 5, fl = (rnd() % 4 == 0) ? FULL_FLUSH : NO_FLUSH;
		size_t hdr = wrap == 1 ? 10 : wrap == 3 ? 2 : 0, trl = (wrap == 1 || wrap == 2) ? 8 : (wrap == 3 || wrap == 4) ? 4 : 0;
		size_t nblk = n == 0 ? 1 : (n + 65534) / 65535; size_t bound = n + 5 * nblk + hdr + trl;
		int deltas[] = { -20, -9, -8, -7, -2, -1, 0, 1, 2, 7, 8, 9, 50, 1000 };
		for (unsigned di = 0; di < sizeof deltas / sizeof deltas[0]; di++) {
			long ao = (long) bound + deltas[di]; if (ao < 0) continue; cases++;
			struct isal_zstream s; isal_deflate_stateless_init(&s); s.level = lvl; uint32_t lbs = lvl == 0 ? 0 : lvl == 1 ? ISAL_DEF_LVL1_MIN : lvl == 2 ? ISAL_DEF_LVL2_MIN : ISAL_DEF_LVL3_MIN; uint8_t *lb = lvl ? malloc(lbs) : 0; s.level_buf = lb; s.level_buf_size = lbs;
			s.gzip_flag = wrap; s.flush = fl; uint8_t *out = reg + RSZ - ao; memset(out - 64, 0xA5, 64 + ao);
			s.next_in = in; s.avail_in = n; s.next_out = out; s.avail_out = ao; int eos = rnd() % 2; s.end_of_stream = eos; int term = (fl == NO_FLUSH) || eos;
			int r = isal_deflate_stateless(&s);
			for (int k = 1; k <= 64; k++) if (out[-k] != 0xA5) { printf("UNDERWRITE it=%d\n", it); bad++; break; }
			if (r == COMP_OK) { ok_cnt++;
				if (s.total_out > bound) { printf("EXCEEDS BOUND it=%d n=%d lvl=%d wrap=%d total_out=%u bound=%zu\n", it, n, lvl, wrap, s.total_out, bound); bad++; }
				if (s.total_out != ao - s.avail_out || s.next_out != out + s.total_out || s.avail_in != 0 || s.total_in != (uint32_t) n) { printf("ACCOUNTING it=%d\n", it); bad++; }
				/* bytes beyond total_out untouched? */
				for (size_t k = s.total_out; k < (size_t) ao; k++) if (out[k] != 0xA5) { /* allowed within avail_out */ break; }
				uint8_t *back = malloc(n + 1); rinf_t rr = { 0 }; rr.in = out + hdr; rr.inlen = s.total_out - hdr - (term ? trl : 0); rr.out = back; rr.outcap = n + 1; int d = rinflate(&rr);
				int want = term ? 0 : 1;
				if (d != want || rr.outlen != (size_t) n || memcmp(back, in, n)) { printf("DECODE it=%d n=%d lvl=%d wrap=%d fl=%d d=%d err=%d outlen=%zu ao=%ld bound=%zu\n", it, n, lvl, wrap, fl, d, rr.err, rr.outlen, ao, bound); bad++; }
				else if (term && (rr.end_bit + 7) / 8 != rr.inlen) { printf("TRAILING it=%d\n", it); bad++; }
				free(back);
			} else if (r == STATELESS_OVERFLOW) { ovf_cnt++; if ((size_t) ao >= bound) { printf("OVERFLOW AT/ABOVE BOUND it=%d n=%d lvl=%d wrap=%d fl=%d ao=%ld bound=%zu mode=%d\n", it, n, lvl, wrap, fl, ao, bound, mode); bad++; } }
			else { printf("RET %d it=%d\n", r, it); bad++; }
			free(lb);
		}
		free(in);
	}
	printf("iters=%d cases=%ld ok=%ld overflow=%ld bad=%ld\n", iters, cases, ok_cnt, ovf_cnt, bad);
	return 0;
}
