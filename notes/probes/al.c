#include <stdio.h>
#include <stdlib.h>
#include <string.h>
#include <stdint.h>
#include "igzip_lib.h"
static uint64_t rs;
static uint32_t rnd(void) { rs ^= rs << 13; rs ^= rs >> 7; rs ^= rs << 17; return rs >> 11; }
static size_t run(int lvl, int wrap, int flush, int hb, uint32_t lbsz, const uint8_t *in, int n, uint64_t ss, int actx, int alb, int aout, int ain, uint8_t *res)
{
	uint8_t *cm = malloc(sizeof(struct isal_zstream) + 128), *lm = malloc(lbsz + 128), *om = malloc(4 * n + 70000 + 128), *im = malloc(n + 128);
	struct isal_zstream *s = (void *) (cm + ((64 - ((uintptr_t) cm & 63)) & 63) + actx); uint8_t *lb = lm + ((64 - ((uintptr_t) lm & 63)) & 63) + alb, *out = om + ((64 - ((uintptr_t) om & 63)) & 63) + aout, *ip0 = im + ((64 - ((uintptr_t) im & 63)) & 63) + ain;
	memset(cm, 0, sizeof(struct isal_zstream) + 128); memset(lm, 0, lbsz + 128); memset(om, 0, 4 * n + 70000 + 128); memcpy(ip0, in, n);
	isal_deflate_init(s); s->level = lvl; s->level_buf = lvl ? lb : 0; s->level_buf_size = lvl ? lbsz : 0; s->gzip_flag = wrap; s->hist_bits = hb; s->flush = flush; rs = ss;
	int ip = 0; s->next_out = out; s->avail_out = 4 * n + 70000; while (s->internal_state.state != ZSTATE_END) { int c = 1 + rnd() % 30000; if (c > n - ip) c = n - ip; s->next_in = ip0 + ip; s->avail_in = c; ip += c; s->end_of_stream = ip == n; isal_deflate(s); }
	size_t l = s->total_out; memcpy(res, out, l); free(cm); free(lm); free(om); free(im); return l;
}
int main(void)
{
	FILE *f = fopen("precase.bin", "rb"); int hdr[12]; uint64_t ss; fread(hdr, sizeof hdr, 1, f); fread(&ss, 8, 1, f); int n = hdr[0]; uint8_t *in = malloc(n); fread(in, 1, n, f); fclose(f);
	uint8_t *r0 = malloc(4 * n + 70000), *r1 = malloc(4 * n + 70000); size_t l0 = run(hdr[2], hdr[3], hdr[4], hdr[5], hdr[6], in, n, ss, 0, 0, 0, 0, r0); printf("n=%d lvl=%d wrap=%d flush=%d hb=%d base len=%zu\n", n, hdr[2], hdr[3], hdr[4], hdr[5], l0);
	const char *nm[4] = { "ctx", "level_buf", "out", "in" };
	for (int which = 0; which < 4; which++) { int nd = 0; for (int a = 1; a < 64; a++) { size_t l1 = run(hdr[2], hdr[3], hdr[4], hdr[5], hdr[6], in, n, ss, which == 0 ? a : 0, which == 1 ? a : 0, which == 2 ? a : 0, which == 3 ? a : 0, r1); if (l1 != l0 || memcmp(r0, r1, l0)) { if (!nd) printf("  %s offset %d changes output (len %zu vs %zu)\n", nm[which], a, l1, l0); nd++; } } printf("%s: %d of 63 offsets change the output\n", nm[which], nd); }
	return 0;
}
