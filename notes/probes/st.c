#include <stdio.h>
#include <stdlib.h>
#include <string.h>
#include <stdint.h>
#include <zlib.h>
#include "igzip_lib.h"
static uint64_t rs = 88172645463325252ull;
static uint32_t rnd(void) { rs ^= rs << 13; rs ^= rs >> 7; rs ^= rs << 17; return rs >> 11; }
static int pick(const int *a, int n) { return a[rnd() % n]; }
int main(int argc, char **argv)
{
	int iters = argc > 1 ? atoi(argv[1]) : 2000; if (argc > 2) rs = strtoull(argv[2], 0, 0);
	static const int ins[] = { 0, 1, 2, 3, 7, 8, 9, 15, 16, 17, 31, 33, 255, 257, 288, 289, 1000, 32767, 32768, 32769, 65535, 65536, 100000 };
	static const int outs[] = { 1, 1, 2, 3, 7, 8, 9, 15, 16, 17, 64, 223, 224, 225, 327, 328, 329, 5000, 100000 };
	long bad = 0, calls = 0, stuck = 0; long hist[24] = { 0 };
	for (int it = 0; it < iters; it++) {
		int n = (rnd() % 4 == 0) ? rnd() % 300 : rnd() % 200000; uint8_t *in = malloc(n + 1);
		int mode = rnd() % 4; for (int i = 0; i < n; i++) in[i] = mode == 0 ? rnd() : mode == 1 ? "abcdefgh"[rnd() % 3] : mode == 2 ? (i % 977 < 300 ? in[i > 977 ? i - 977 : 0] + 0 : rnd() % 7) : 0;
		int lvl = rnd() % 4, wrap = rnd() % 5; size_t cap = n + n / 2 + 70000; uint8_t *out = malloc(cap); size_t op = 0;
		struct isal_zstream s; memset(&s, rnd(), sizeof s); isal_deflate_init(&s);
		static const int lbs[4][3] = { {0,0,0}, {ISAL_DEF_LVL1_MIN, ISAL_DEF_LVL1_DEFAULT, ISAL_DEF_LVL1_MIN + 13}, {ISAL_DEF_LVL2_MIN, ISAL_DEF_LVL2_DEFAULT, ISAL_DEF_LVL2_MIN + 13}, {ISAL_DEF_LVL3_MIN, ISAL_DEF_LVL3_DEFAULT, ISAL_DEF_LVL3_MIN + 13} };
		s.level = lvl; s.level_buf_size = lbs[lvl][rnd() % 3]; s.level_buf = lvl ? malloc(s.level_buf_size) : 0; if (lvl) memset(s.level_buf, rnd(), s.level_buf_size);
		s.gzip_flag = wrap; s.hist_bits = (rnd() % 3 == 0) ? 9 + rnd() % 7 : 0;
		int ip = 0, steps = 0, late_eos = rnd() % 3 == 0, disc = rnd() % 3; int fail = 0;
		uint8_t ibuf[100001], obuf[100001]; s.avail_in = 0; s.avail_out = 0; s.next_in = ibuf; s.next_out = obuf; int pend_out = 0;
		while (s.internal_state.state != ZSTATE_END) {
			if (++steps > 400000 + 4 * n) { printf("HANG it=%d lvl=%d wrap=%d n=%d state=%d\n", it, lvl, wrap, n, s.internal_state.state); fail = 1; break; }
			/* refill input */
			if (s.avail_in == 0 && (disc != 1 || s.avail_out > 0 || 1)) {
				int c = pick(ins, sizeof ins / sizeof ins[0]); if (c > n - ip) c = n - ip;
				memcpy(ibuf, in + ip, c); s.next_in = ibuf; s.avail_in = c; ip += c;
				s.end_of_stream = (ip == n) && !(late_eos && c > 0);
				if (ip == n && c == 0) s.end_of_stream = 1;
				s.flush = (rnd() % 4 == 0) ? rnd() % 3 : NO_FLUSH;
			}
			if (s.avail_out == 0) { int c = pick(outs, sizeof outs / sizeof outs[0]); s.next_out = obuf; s.avail_out = c; pend_out = c; }
			uint32_t ai = s.avail_in, ao = s.avail_out; int st0 = s.internal_state.state;
			int r = isal_deflate(&s); calls++;
			if (r != COMP_OK) { printf("ERR r=%d it=%d\n", r, it); fail = 1; break; }
			hist[st0 % 24]++;
			size_t prod = ao - s.avail_out; if (op + prod > cap) { printf("OUTGROW it=%d\n", it); fail = 1; break; }
			memcpy(out + op, obuf + (pend_out - ao), prod); op += prod;
			if (ai == s.avail_in && prod == 0 && st0 == (int) s.internal_state.state && ai > 0 && ao > 0) stuck++;
			if (s.avail_out > 0 && s.avail_out < ao) { /* keep partially filled */ }
			pend_out = pend_out; /* obuf offset tracking */
			if (s.avail_out > 0) { /* compact: move on with same buffer */ pend_out = pend_out; }
			/* reset obuf usage when drained */
			if (s.avail_out == 0) pend_out = 0; else { /* continue writing after produced bytes: next_out already advanced */ }
			if (s.avail_out != 0) { /* emulate drain sometimes */ if (rnd() % 2) { s.avail_out = 0; } }
		}
		if (!fail) {
			uint8_t *back = malloc(n + 1); z_stream z = { 0 }; int wb = wrap == 0 ? -15 : (wrap == 1 ? 31 : (wrap == 3 ? 15 : -15));
			inflateInit2(&z, wb); z.next_in = out; z.avail_in = op; z.next_out = back; z.avail_out = n + 1; int zr = inflate(&z, Z_FINISH);
			size_t trailer = (wrap == 2) ? 8 : (wrap == 4 ? 4 : 0);
			if (zr != Z_STREAM_END || z.total_out != (uLong) n || memcmp(back, in, n) || z.avail_in != trailer) { { uint32_t tc=0,tl=0; memcpy(&tc,out+op-8,4); memcpy(&tl,out+op-4,4); printf("trailer crc=%08x len=%u expect crc=%08lx len=%d msg=%s eos_calls\n", tc, tl, crc32(0,in,n), n, z.msg?z.msg:"-"); } { size_t fm=0; while (fm<(size_t)n && back[fm]==in[fm]) fm++; size_t lm=n; while (lm>fm && back[lm-1]==in[lm-1]) lm--; printf("first mismatch at %zu last at %zu (n=%d) mode=%d late_eos=%d\n", fm, lm, n, mode, late_eos); } printf("BAD it=%d lvl=%d wrap=%d n=%d zr=%d tout=%lu left=%u op=%zu hist_bits=%d\n", it, lvl, wrap, n, zr, z.total_out, z.avail_in, op, s.hist_bits); bad++; }
			inflateEnd(&z); free(back);
		} else bad++;
		free(in); free(out); free(s.level_buf);
	}
	printf("iters=%d calls=%ld bad=%ld stuckcalls=%ld\n", iters, calls, bad, stuck);
	return 0;
}
