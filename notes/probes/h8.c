#include <stdio.h>
#include <stdlib.h>
#include <string.h>
#include <zlib.h>
#include "igzip_lib.h"
int main(void) { int n = 100000; uint8_t *in = malloc(n), *out = malloc(2 * n), *back = malloc(n); for (int i = 0; i < n; i++) in[i] = "abcdefgh"[(i * 7 + i / 13) % 8];
	for (int lvl = 0; lvl < 2; lvl++) for (int api = 0; api < 2; api++) { struct isal_zstream s; isal_deflate_stateless_init(&s); s.level = lvl; s.level_buf = malloc(ISAL_DEF_LVL1_DEFAULT); s.level_buf_size = ISAL_DEF_LVL1_DEFAULT; s.next_in = in; s.avail_in = n; s.next_out = out; s.avail_out = 2 * n; int r = isal_deflate_stateless(&s);
		struct inflate_state st; isal_inflate_init(&st); st.next_in = out; st.avail_in = s.total_out; st.next_out = back; st.avail_out = n; int r2 = api ? isal_inflate(&st) : isal_inflate_stateless(&st);
		uLongf bl = n; z_stream z = { 0 }; inflateInit2(&z, -15); z.next_in = out; z.avail_in = s.total_out; z.next_out = back; z.avail_out = n; int zr = inflate(&z, Z_FINISH);
		printf("HIST=%d lvl=%d api=%s deflate r=%d out=%u | isal inflate ret=%d total_out=%u bs=%d | zlib zr=%d total=%lu\n", IGZIP_HIST_SIZE, lvl, api ? "stream" : "stateless", r, s.total_out, r2, st.total_out, st.block_state, zr, z.total_out); (void) bl; }
	return 0; }
