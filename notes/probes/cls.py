import re,sys,collections
ins={}; sym_of={}; cur=None; symrange=collections.OrderedDict()
for l in open('tr.dis'):
    m=re.match(r'^([0-9a-f]+) <(.*)>:$',l)
    if m: cur=m.group(2); continue
    m=re.match(r'^\s*([0-9a-f]+):\s+(\S+)\s*(.*)$',l)
    if m:
        a=int(m.group(1),16); ins[a]=(m.group(2),m.group(3)); sym_of[a]=cur
def classify(mn,ops):
    o=ops
    if mn in('tzcnt',): return 'base(tzcnt=rep bsf)'
    if re.search(r'\bzmm\d+|\bk[0-7]\b|\{k[0-7]\}',o) or mn.startswith('k') and mn[1:4] in('mov','and','not','xor','tes','shi','or','orq','xno','add','unp'):
        if 'gf2p8' in mn: return 'AVX512+GFNI'
        if 'vpclmul' in mn: return 'AVX512+VPCLMULQDQ'
        return 'AVX512'
    if 'gf2p8' in mn: return 'GFNI(VEX)' if mn.startswith('v') else 'GFNI(SSE)'
    if mn.startswith('vpclmul'): return 'VPCLMULQDQ/AVX' 
    if mn.startswith('pclmul'): return 'PCLMULQDQ'
    if mn in('shlx','shrx','sarx','bzhi','pext','pdep','mulx','rorx'): return 'BMI2'
    if mn in('andn','blsr','blsi','blsmsk','bextr'): return 'BMI1'
    if mn in('lzcnt',): return 'LZCNT'
    if mn=='popcnt': return 'POPCNT'
    if mn=='crc32' or mn=='pcmpgtq': return 'SSE4.2'
    if mn.startswith('v'):
        if re.search(r'\bymm\d+',o) and re.match(r'vp|vinserti|vextracti|vbroadcasti|vperm2i|vpgather',mn): return 'AVX2'
        if re.match(r'vpbroadcast|vperm[dq]|vpsllv|vpsrlv|vpblendd|vpgather',mn): return 'AVX2'
        return 'AVX'
    if mn in('pextrb','pextrd','pextrq','pinsrb','pinsrd','pinsrq','ptest','pblendvb','pblendw','pmovzxbd','pmovzxbw','pmovzxwd','pmulld','pminud','pmaxud','movntdqa','pcmpeqq','blendvpd','roundsd'): return 'SSE4.1'
    if mn in('pshufb','palignr','phaddd','pabsb','pmaddubsw','psignb','phaddw'): return 'SSSE3'
    if mn in('lddqu','movddup','haddps'): return 'SSE3'
    return 'base'
hits=[int(l,16) for l in open('hits.txt')]
cl=collections.Counter(); per=collections.defaultdict(set); unknown=0
for a in hits:
    if a not in ins: unknown+=1; continue
    c=classify(*ins[a]); cl[c]+=1; per[sym_of[a]].add(a)
print('classes executed:',dict(cl),'unsynced:',unknown)
tot=collections.Counter(sym_of.values())
for s,aset in sorted(per.items(), key=lambda x:-len(x[1]))[:6]:
    print('  %-40s executed %d of %d instructions'%(s,len(aset),tot[s]))
