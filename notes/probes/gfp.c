#include <stdio.h>
#include <stdlib.h>
#include <string.h>
#include <stdint.h>
#include "erasure_code.h"
#include "raid.h"
static uint64_t rs = 88172645463325252ull;
static uint32_t rnd(void) { rs ^= rs << 13; rs ^= rs >> 7; rs ^= rs << 17; return rs >> 11; }
static uint8_t gm(uint8_t a, uint8_t b) { uint8_t r = 0; while (b) { if (b & 1) r ^= a; a = (a << 1) ^ ((a & 0x80) ? 0x1d : 0); b >>= 1; } return r; }
extern const uint64_t gf_table_gfni[256];
extern void ec_init_tables_gfni(int, int, unsigned char *, unsigned char *);
extern int xor_gen_sse(int,int,void**), xor_gen_avx(int,int,void**), xor_gen_avx512(int,int,void**), pq_gen_sse(int,int,void**), pq_gen_avx(int,int,void**), pq_gen_avx2(int,int,void**), pq_gen_avx512(int,int,void**), xor_check_sse(int,int,void**), pq_check_sse(int,int,void**);
static int det_nonzero(uint8_t *m, int n) { /* gaussian elimination with refgf */ uint8_t inv[256]; for (int a = 1; a < 256; a++) for (int b = 1; b < 256; b++) if (gm(a, b) == 1) inv[a] = b; for (int c = 0; c < n; c++) { int p = -1; for (int r = c; r < n; r++) if (m[r * n + c]) { p = r; break; } if (p < 0) return 0; if (p != c) for (int k = 0; k < n; k++) { uint8_t t = m[p * n + k]; m[p * n + k] = m[c * n + k]; m[c * n + k] = t; } uint8_t iv = inv[m[c * n + c]]; for (int r = c + 1; r < n; r++) { uint8_t f = gm(m[r * n + c], iv); if (f) for (int k = c; k < n; k++) m[r * n + k] ^= gm(f, m[c * n + k]); } } return 1; }
int main(int argc, char **argv)
{
	if (argc > 1) rs = strtoull(argv[1], 0, 0); long bad = 0;
	/* C12 exhaustive */
	long n12 = 0; for (int a = 0; a < 256; a++) for (int b = 0; b < 256; b++) { n12++; if (gf_mul(a, b) != gm(a, b)) { if (bad++ < 5) printf("gf_mul(%d,%d)\n", a, b); } }
	for (int a = 1; a < 256; a++) { if (gm(a, gf_inv(a)) != 1) { bad++; printf("gf_inv(%d)\n", a); } } if (gf_inv(0) != 0) { bad++; printf("gf_inv(0)\n"); }
	for (int c = 0; c < 256; c++) { uint8_t t[32]; gf_vect_mul_init(c, t); for (int i = 0; i < 16; i++) { n12 += 2; if (t[i] != gm(c, i) || t[16 + i] != gm(c, i << 4)) { if (bad++ < 5) printf("vect_mul_init c=%d i=%d\n", c, i); } } }
	/* gfni affine matrix semantic emulation: byte y = A*x per SDM: for each bit i of result: parity(A.byte[7-i] & x) */
	for (int c = 0; c < 256; c++) { uint8_t t8[8]; uint8_t cc = c; ec_init_tables_gfni(1, 1, &cc, t8); uint64_t A; memcpy(&A, t8, 8); for (int x = 0; x < 256; x++) { uint8_t y = 0; for (int i = 0; i < 8; i++) { uint8_t row = A >> (8 * (7 - i)); if (__builtin_parity(row & x)) y |= 1 << i; } n12++; if (y != gm(c, x)) { if (bad++ < 5) printf("gfni table c=%d x=%d\n", c, x); } } }
	printf("C12: evaluations=%ld bad=%ld\n", n12, bad);
	/* C09 inversion */
	long ninv = 0, nsing = 0; for (int it = 0; it < 3000; it++) { int n = 1 + rnd() % (it < 2900 ? 24 : 128); uint8_t *m = malloc(n * n), *c1 = malloc(n * n), *c2 = malloc(n * n), *out = malloc(n * n); for (int i = 0; i < n * n; i++) m[i] = rnd(); int kind = rnd() % 4; if (kind == 1 && n > 1) { int r1 = rnd() % n, r2 = rnd() % n; if (r1 != r2) { uint8_t f = rnd(); for (int k = 0; k < n; k++) m[r1 * n + k] = gm(f, m[r2 * n + k]); } } if (kind == 2) { m[0] = 0; if (n > 1) m[n + 1] = 0; } if (kind == 3) { int col = rnd() % n; if (rnd() % 2) for (int r = 0; r < n; r++) m[r * n + col] = 0; }
		memcpy(c1, m, n * n); memcpy(c2, m, n * n); int nz = det_nonzero(c1, n); int r = gf_invert_matrix(c2, out, n); ninv++; if ((r == 0) != (nz != 0)) { printf("invert verdict n=%d kind=%d r=%d refnonsing=%d\n", n, kind, r, nz); bad++; } if (!nz) nsing++;
		if (r == 0) for (int i = 0; i < n && bad < 50; i++) for (int j = 0; j < n; j++) { uint8_t s = 0; for (int k = 0; k < n; k++) s ^= gm(m[i * n + k], out[k * n + j]); if (s != (i == j)) { printf("invert product n=%d\n", n); bad++; i = n; break; } }
		free(m); free(c1); free(c2); free(out); }
	printf("C09 inversion: matrices=%ld singular=%ld bad=%ld\n", ninv, nsing, bad);
	/* C09 recovery: exhaustive m<=9 cauchy + vandermonde safe pairs */
	long nrec = 0; for (int gen = 0; gen < 2; gen++) for (int m = 2; m <= 9; m++) for (int k = 1; k < m; k++) { if (gen == 1 && !(k <= 3 || (k == 4 && m <= 25) || (k == 5 && m <= 10) || (k <= 21 && m - k == 4) || m - k <= 3)) continue; uint8_t enc[9 * 9]; if (gen == 0) gf_gen_cauchy1_matrix(enc, m, k); else gf_gen_rs_matrix(enc, m, k);
		for (int i = 0; i < k; i++) for (int j = 0; j < k; j++) if (enc[i * k + j] != (i == j)) { printf("identity top gen=%d\n", gen); bad++; }
		int len = 1 + rnd() % 200; uint8_t data[9][256], *ptr[9]; for (int i = 0; i < m; i++) ptr[i] = data[i]; for (int i = 0; i < k; i++) for (int j = 0; j < len; j++) data[i][j] = rnd(); uint8_t tb[32 * 9 * 9]; ec_init_tables(k, m - k, &enc[k * k], tb); ec_encode_data(len, k, m - k, tb, ptr, &ptr[k]);
		for (uint32_t mask = 0; mask < (1u << m); mask++) { if (__builtin_popcount(mask) != k) continue; /* survivors = mask */ int surv[9], ns = 0; for (int i = 0; i < m; i++) if (mask >> i & 1) surv[ns++] = i; uint8_t b[81], inv[81]; for (int i = 0; i < k; i++) memcpy(&b[i * k], &enc[surv[i] * k], k); nrec++; if (gf_invert_matrix(b, inv, k)) { printf("decode matrix singular gen=%d m=%d k=%d mask=%x\n", gen, m, k, mask); bad++; continue; }
			uint8_t *sp[9]; for (int i = 0; i < k; i++) sp[i] = data[surv[i]]; uint8_t rec[9][256], *rp[9]; for (int i = 0; i < k; i++) rp[i] = rec[i]; ec_init_tables(k, k, inv, tb); ec_encode_data(len, k, k, tb, sp, rp); for (int i = 0; i < k; i++) if (memcmp(rec[i], data[i], len)) { printf("recovery mismatch gen=%d m=%d k=%d\n", gen, m, k); bad++; break; } } }
	printf("C09 recovery: patterns=%ld bad=%ld\n", nrec, bad);
	/* C08 */
	long nraid = 0; struct { const char *n; int (*f)(int, int, void **); } XG[] = { { "xor_gen_base", xor_gen_base }, { "xor_gen_sse", xor_gen_sse }, { "xor_gen_avx", xor_gen_avx }, { "xor_gen_avx512", xor_gen_avx512 }, { "xor_gen", xor_gen } }, PG[] = { { "pq_gen_base", pq_gen_base }, { "pq_gen_sse", pq_gen_sse }, { "pq_gen_avx", pq_gen_avx }, { "pq_gen_avx2", pq_gen_avx2 }, { "pq_gen_avx512", pq_gen_avx512 }, { "pq_gen", pq_gen } }, XC[] = { { "xor_check_base", xor_check_base }, { "xor_check_sse", xor_check_sse }, { "xor_check", xor_check } }, PC[] = { { "pq_check_base", pq_check_base }, { "pq_check_sse", pq_check_sse }, { "pq_check", pq_check } };
	void *arr[40]; for (int i = 0; i < 40; i++) posix_memalign(&arr[i], 64, 8192);
	for (int it = 0; it < 4000; it++) { int vects = 3 + rnd() % 30; int len = rnd() % 3 == 0 ? rnd() % 300 : 32 * (rnd() % 100); for (int i = 0; i < vects; i++) for (int j = 0; j < len; j++) ((uint8_t *) arr[i])[j] = rnd();
		uint8_t ep[8192]; for (int j = 0; j < len; j++) { uint8_t p = 0; for (int i = 0; i < vects - 1; i++) p ^= ((uint8_t *) arr[i])[j]; ep[j] = p; }
		for (unsigned g = 0; g < 5; g++) { nraid++; memset(arr[vects - 1], 0x77, len + 8); int r = XG[g].f(vects, len, arr); if (r != 0 || memcmp(arr[vects - 1], ep, len) || ((uint8_t *) arr[vects - 1])[len] != 0x77) { printf("%s vects=%d len=%d r=%d\n", XG[g].n, vects, len, r); bad++; } }
		for (unsigned g = 0; g < 3; g++) { nraid++; if (XC[g].f(vects, len, arr) != 0) { printf("%s false alarm vects=%d len=%d\n", XC[g].n, vects, len); bad++; } if (len) { int v = rnd() % vects, pos = rnd() % 4 == 0 ? len - 1 - (rnd() % (len < 9 ? len : 9)) : rnd() % len; ((uint8_t *) arr[v])[pos] ^= 1 << (rnd() % 8); if (XC[g].f(vects, len, arr) == 0) { printf("%s MISSED corruption vects=%d len=%d v=%d pos=%d\n", XC[g].n, vects, len, v, pos); bad++; } memcpy(arr[vects - 1], ep, len); if (v != vects - 1) { /* restore source */ uint8_t p = 0; for (int i = 0; i < vects; i++) if (i != v) p ^= ((uint8_t *) arr[i])[pos]; ((uint8_t *) arr[v])[pos] = p; } } }
		if (vects >= 4 && len % 32 == 0) { uint8_t eq[8192]; for (int j = 0; j < len; j++) { uint8_t p = 0, q = 0; for (int i = vects - 3; i >= 0; i--) { p ^= ((uint8_t *) arr[i])[j]; q = gm(q, 2) ^ ((uint8_t *) arr[i])[j]; } ep[j] = p; eq[j] = q; }
			for (unsigned g = 0; g < 6; g++) { nraid++; memset(arr[vects - 2], 0x11, len); memset(arr[vects - 1], 0x22, len); int r = PG[g].f(vects, len, arr); if (r != 0 || memcmp(arr[vects - 2], ep, len) || memcmp(arr[vects - 1], eq, len)) { printf("%s vects=%d len=%d r=%d\n", PG[g].n, vects, len, r); bad++; } }
			for (unsigned g = 0; g < 3; g++) { nraid++; if (PC[g].f(vects, len, arr) != 0) { printf("%s false alarm\n", PC[g].n); bad++; } if (len) { int v = rnd() % vects, pos = rnd() % len; uint8_t old = ((uint8_t *) arr[v])[pos]; ((uint8_t *) arr[v])[pos] ^= 1 << (rnd() % 8); if (PC[g].f(vects, len, arr) == 0) { printf("%s MISSED corruption v=%d pos=%d len=%d\n", PC[g].n, v, pos, len); bad++; } ((uint8_t *) arr[v])[pos] = old; } } }
		for (unsigned g = 0; g < 5; g++) if (XG[g].f(2, 64, arr) == 0) { printf("%s accepted vects=2\n", XG[g].n); bad++; } for (unsigned g = 0; g < 6; g++) if (PG[g].f(3, 64, arr) == 0) { printf("%s accepted vects=3\n", PG[g].n); bad++; }
	}
	printf("C08: raid calls=%ld bad=%ld\n", nraid, bad);
	return 0;
}
