#include <stdio.h>
#include <stdlib.h>
#include <string.h>
#include <stdint.h>
#include "igzip_lib.h"
static uint64_t rs = 88172645463325252ull;
static uint32_t rnd(void) { rs ^= rs << 13; rs ^= rs >> 7; rs ^= rs << 17; return rs >> 11; }
int main(int argc, char **argv)
{
	int iters = argc > 1 ? atoi(argv[1]) : 1000; if (argc > 2) rs = strtoull(argv[2], 0, 0); unsigned long acc = 0;
	for (int it = 0; it < iters; it++) {
		int n = rnd() % 400; uint8_t *in = malloc(n + 1); int mode = rnd() % 3; for (int i = 0; i < n; i++) in[i] = mode == 0 ? rnd() : mode == 1 ? "abcdefgh"[rnd() % 3] : (i >= 50 && i % 50 < 30 ? in[i - 50] : rnd() % 7);
		int lvl = rnd() % 4, wrap = rnd() % 5, flush = rnd() % 3, hb = rnd() % 2 ? 0 : 9 + rnd() % 7;
		static const int lbs[4][3] = { {0,0,0}, {ISAL_DEF_LVL1_MIN, ISAL_DEF_LVL1_DEFAULT, ISAL_DEF_LVL1_MIN + 13}, {ISAL_DEF_LVL2_MIN, ISAL_DEF_LVL2_DEFAULT, ISAL_DEF_LVL2_MIN + 13}, {ISAL_DEF_LVL3_MIN, ISAL_DEF_LVL3_DEFAULT, ISAL_DEF_LVL3_MIN + 13} }; uint32_t lbsz = lbs[lvl][rnd() % 3];
		struct isal_zstream *s = malloc(sizeof *s); uint8_t *lb = lvl ? malloc(lbsz) : 0; uint8_t *out = malloc(2000);
		isal_deflate_init(s); s->level = lvl; s->level_buf = lb; s->level_buf_size = lbsz; s->gzip_flag = wrap; s->hist_bits = hb; s->flush = flush;
		int ip = 0; s->next_out = out; s->avail_out = 2000; while (s->internal_state.state != ZSTATE_END) { int c = 1 + rnd() % (rnd() % 2 ? 50 : 30000); if (c > n - ip) c = n - ip; s->next_in = in + ip; s->avail_in = c; ip += c; s->end_of_stream = ip == n; if (isal_deflate(s)) break; }
		for (uint32_t k = 0; k < s->total_out; k++) acc = acc * 31 + out[k]; /* forces use of every output byte */
		if (acc == 42) printf("x");
		free(s); free(lb); free(out); free(in);
	}
	printf("done acc=%lx\n", acc); return 0;
}
