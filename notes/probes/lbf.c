#include <stdio.h>
#include <stdlib.h>
#include <string.h>
#include <stdint.h>
#include <zlib.h>
#include "igzip_lib.h"
static uint64_t rs = 88172645463325252ull;
static uint32_t rnd(void) { rs ^= rs << 13; rs ^= rs >> 7; rs ^= rs << 17; return rs >> 11; }
extern char e_enc[] __asm__("encode_deflate_icf"), t_encb[] __asm__("encode_deflate_icf_base"), t_enc4[] __asm__("encode_deflate_icf_04"), t_enc6[] __asm__("encode_deflate_icf_06");
static void setslot(char *stub, void *target) { int32_t d; memcpy(&d, stub + 6, 4); void **slot = (void **) (stub + 10 + d); *slot = target; }
static void fillp(uint8_t *p, size_t n, int pat) { if (pat < 3) memset(p, pat == 0 ? 0 : pat == 1 ? 0xff : 0xa5, n); else { uint64_t x = 0x9e3779b97f4a7c15ull * (pat + 1); for (size_t i = 0; i < n; i++) { x ^= x << 13; x ^= x >> 7; x ^= x << 17; p[i] = x; } } }
static void __attribute__((noinline)) poison_stack(int pat) { volatile uint8_t big[200 * 1024]; fillp((uint8_t *) big, sizeof big, pat); __asm__ volatile("" ::: "memory"); }
int main(int argc, char **argv)
{ int which = getenv("WHICH") ? atoi(getenv("WHICH")) : 1; /* 1 lb 2 ctx 4 out 8 stack */
	int iters = argc > 1 ? atoi(argv[1]) : 5000; if (argc > 2) rs = strtoull(argv[2], 0, 0); if (argc > 3) setslot(e_enc, atoi(argv[3]) == 0 ? t_encb : atoi(argv[3]) == 4 ? t_enc4 : t_enc6);
	long bad = 0, cases = 0; uint8_t *lb = malloc(ISAL_DEF_LVL3_DEFAULT);
	for (int it = 0; it < iters; it++) {
		int n = rnd() % 600; uint8_t in[600]; int mode = rnd() % 3; for (int i = 0; i < n; i++) in[i] = mode == 0 ? rnd() : mode == 1 ? "abcdefgh"[rnd() % 3] : (i >= 50 && i % 50 < 30 ? in[i - 50] : rnd() % 7);
		int lvl = 1 + rnd() % 3, wrap = rnd() % 5, hb = rnd() % 2 ? 0 : 9 + rnd() % 7, flush = rnd() % 3; uint32_t lbsz = lvl == 1 ? ISAL_DEF_LVL1_DEFAULT : lvl == 2 ? ISAL_DEF_LVL2_DEFAULT : ISAL_DEF_LVL3_DEFAULT; int c1 = n ? rnd() % (n + 1) : 0;
		uint8_t ref[4000]; size_t reflen = 0;
		for (int pat = 0; pat < 6; pat++) { cases++; fillp(lb, lbsz, (which & 1) ? pat : 0); static struct isal_zstream s; fillp((uint8_t *) &s, sizeof s, (which & 2) ? pat : 0); if (which & 8) poison_stack(pat); isal_deflate_init(&s); s.level = lvl; s.level_buf = lb; s.level_buf_size = lbsz; s.gzip_flag = wrap; s.hist_bits = hb; s.flush = flush; static uint8_t out[4000]; fillp(out, sizeof out, (which & 4) ? pat : 0); s.next_out = out; s.avail_out = sizeof out;
			s.next_in = in; s.avail_in = c1; s.end_of_stream = c1 == n; isal_deflate(&s); if (c1 != n) { s.next_in = in + c1; s.avail_in = n - c1; s.end_of_stream = 1; isal_deflate(&s); } while (s.internal_state.state != ZSTATE_END) isal_deflate(&s);
			if (pat == 0) { reflen = s.total_out; memcpy(ref, out, reflen); } else if (s.total_out != reflen || memcmp(ref, out, reflen)) { printf("LEVEL_BUF PREFILL DEPENDENCE it=%d pat=%d lvl=%d wrap=%d hb=%d flush=%d n=%d c1=%d len %u vs %zu\n", it, pat, lvl, wrap, hb, flush, n, c1, s.total_out, reflen); bad++; } }
	}
	printf("cases=%ld bad=%ld\n", cases, bad); return 0;
}
