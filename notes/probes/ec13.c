#include <stdio.h>
#include <stdlib.h>
#include <string.h>
#include <stdint.h>
#include "erasure_code.h"
static uint64_t rs = 88172645463325252ull;
static uint32_t rnd(void) { rs ^= rs << 13; rs ^= rs >> 7; rs ^= rs << 17; return rs >> 11; }
static uint8_t MT[256][256];
extern void ec_init_tables_gfni(int, int, unsigned char *, unsigned char *);
typedef void (*encf)(int, int, int, unsigned char *, unsigned char **, unsigned char **);
typedef void (*updf)(int, int, int, int, unsigned char *, unsigned char *, unsigned char **);
extern void ec_encode_data_avx512(int,int,int,unsigned char*,unsigned char**,unsigned char**), ec_encode_data_avx512_gfni(int,int,int,unsigned char*,unsigned char**,unsigned char**), ec_encode_data_avx2_gfni(int,int,int,unsigned char*,unsigned char**,unsigned char**);
extern void ec_encode_data_update_avx512(int,int,int,int,unsigned char*,unsigned char*,unsigned char**), ec_encode_data_update_avx512_gfni(int,int,int,int,unsigned char*,unsigned char*,unsigned char**), ec_encode_data_update_avx2_gfni(int,int,int,int,unsigned char*,unsigned char*,unsigned char**);
int main(int argc, char **argv)
{
	int iters = argc > 1 ? atoi(argv[1]) : 300; if (argc > 2) rs = strtoull(argv[2], 0, 0);
	for (int a = 0; a < 256; a++) for (int b = 0; b < 256; b++) { uint8_t r = 0, x = a, y = b; while (y) { if (y & 1) r ^= x; x = (x << 1) ^ ((x & 0x80) ? 0x1d : 0); y >>= 1; } MT[a][b] = r; }
	struct { const char *n; encf f; int g; } E[] = { {"base", ec_encode_data_base, 0}, {"sse", ec_encode_data_sse, 0}, {"avx", ec_encode_data_avx, 0}, {"avx2", ec_encode_data_avx2, 0}, {"avx512", ec_encode_data_avx512, 0}, {"avx512_gfni", ec_encode_data_avx512_gfni, 1}, {"avx2_gfni", ec_encode_data_avx2_gfni, 1}, {"dispatch", ec_encode_data, 2} };
	struct { const char *n; updf f; int g; } U[] = { {"base", ec_encode_data_update_base, 0}, {"sse", ec_encode_data_update_sse, 0}, {"avx", ec_encode_data_update_avx, 0}, {"avx2", ec_encode_data_update_avx2, 0}, {"avx512", ec_encode_data_update_avx512, 0}, {"avx512_gfni", ec_encode_data_update_avx512_gfni, 1}, {"avx2_gfni", ec_encode_data_update_avx2_gfni, 1}, {"dispatch", ec_encode_data_update, 2} };
	static const int ks[] = { 1, 2, 3, 5, 8, 16, 17, 32, 64, 127, 255 }; long bad = 0, nenc = 0, nupd = 0;
	uint8_t *srcm = malloc(255 * 700 + 64), *dstm = malloc(14 * 700 + 64), *exp = malloc(14 * 700), *tb = malloc(32 * 255 * 14), *coef = malloc(255 * 14), *src[255], *dst[14];
	for (int it = 0; it < iters; it++) {
		int k = ks[rnd() % 11], rows = 1 + rnd() % 14, len = rnd() % 3 == 0 ? rnd() % 130 : rnd() % 600; int so = rnd() % 64, dof = rnd() % 64;
		for (int i = 0; i < k; i++) { src[i] = srcm + so + i * 700 % (255 * 700 - 700); src[i] = srcm + so + (size_t) i * 600; } /* overlapping allowed? no: keep distinct */
		for (int i = 0; i < k; i++) src[i] = srcm + so + (size_t) i * 640; for (int i = 0; i < rows; i++) dst[i] = dstm + dof + (size_t) i * 640;
		for (int i = 0; i < k; i++) for (int j = 0; j < len; j++) src[i][j] = rnd(); int ck = rnd() % 4; for (int i = 0; i < k * rows; i++) coef[i] = ck == 0 ? rnd() : ck == 1 ? (rnd() % 8 == 0 ? rnd() : 0) : ck == 2 ? 1 : 0xff;
		for (int r = 0; r < rows; r++) for (int x = 0; x < len; x++) { uint8_t v = 0; for (int j = 0; j < k; j++) v ^= MT[coef[r * k + j]][src[j][x]]; exp[r * 700 + x] = v; }
		for (unsigned e = 0; e < 8; e++) { if (E[e].g == 1) ec_init_tables_gfni(k, rows, coef, tb); else if (E[e].g == 2) ec_init_tables(k, rows, coef, tb); else ec_init_tables_base(k, rows, coef, tb);
			for (int r = 0; r < rows; r++) memset(dst[r] - 8, 0x77, len + 16); nenc++; E[e].f(len, k, rows, tb, src, dst);
			for (int r = 0; r < rows; r++) if (memcmp(dst[r], exp + r * 700, len) || dst[r][-1] != 0x77 || dst[r][len] != 0x77) { printf("ENCODE %s k=%d rows=%d len=%d row=%d\n", E[e].n, k, rows, len, r); bad++; break; }
			/* update in random permutation with one duplicate pair (apply twice cancels) */
			int perm[257], np = 0; for (int i = 0; i < k; i++) perm[np++] = i; for (int i = k - 1; i > 0; i--) { int j = rnd() % (i + 1); int t = perm[i]; perm[i] = perm[j]; perm[j] = t; } int dup = perm[rnd() % k]; perm[np++] = dup; perm[np++] = dup; for (int i = np - 1; i > 0; i--) { int j = rnd() % (i + 1); int t = perm[i]; perm[i] = perm[j]; perm[j] = t; }
			for (int r = 0; r < rows; r++) { memset(dst[r] - 8, 0x77, len + 16); memset(dst[r], 0, len); }
			for (int i = 0; i < np; i++) { nupd++; U[e].f(len, k, rows, perm[i], tb, src[perm[i]], dst); }
			for (int r = 0; r < rows; r++) if (memcmp(dst[r], exp + r * 700, len) || dst[r][-1] != 0x77 || dst[r][len] != 0x77) { printf("UPDATE %s k=%d rows=%d len=%d row=%d\n", U[e].n, k, rows, len, r); bad++; break; } }
	}
	printf("iters=%d encode_calls=%ld update_calls=%ld bad=%ld\n", iters, nenc, nupd, bad); return 0;
}
