#define _GNU_SOURCE
#include <signal.h>
#include <stdio.h>
#include <stdint.h>
#include <string.h>
#include <ucontext.h>
#include <stdlib.h>
#include "entries.h"
static volatile int tracing, nsteps, ncpuid, nxgetbv, xgetbv_without_osxsave;
static struct { uint32_t l1_eax, l1_ecx, l1_edx, l7_ebx, l7_ecx, xcr0; } sim;
static void on_trap(int sig, siginfo_t *si, void *uc_)
{
	ucontext_t *uc = uc_; greg_t *g = uc->uc_mcontext.gregs; nsteps++;
	for (;;) { uint8_t *ip = (uint8_t *) g[REG_RIP];
		if (ip[0] == 0x0f && ip[1] == 0xa2) { uint32_t leaf = g[REG_RAX], sub = g[REG_RCX], a = 0, b = 0, c = 0, d = 0;
			if (leaf == 0) a = 7; else if (leaf == 1) { a = sim.l1_eax; c = sim.l1_ecx; d = sim.l1_edx; } else if (leaf == 7 && sub == 0) { b = sim.l7_ebx; c = sim.l7_ecx; }
			g[REG_RAX] = a; g[REG_RBX] = b; g[REG_RCX] = c; g[REG_RDX] = d; g[REG_RIP] += 2; ncpuid++; continue; }
		if (ip[0] == 0x0f && ip[1] == 0x01 && ip[2] == 0xd0) { if (!(sim.l1_ecx & (1u << 27))) xgetbv_without_osxsave++; g[REG_RAX] = sim.xcr0; g[REG_RDX] = 0; g[REG_RIP] += 3; nxgetbv++; continue; }
		break; }
	if (!tracing) g[REG_EFL] &= ~0x100;
}
static void run_traced(void (*fn)(void)) { tracing = 1; __asm__ volatile("pushfq; orq $0x100,(%%rsp); popfq" ::: "memory", "cc"); fn(); tracing = 0; __asm__ volatile("pushfq; andq $~0x100,(%%rsp); popfq" ::: "memory", "cc"); }
/* symbol table from nm on self (non-PIE build) */
static struct { uint64_t a; char n[64]; } SYM[8000]; static int nsym;
static const char *symname(uint64_t a) { for (int i = 0; i < nsym; i++) if (SYM[i].a == a) return SYM[i].n; return "?"; }
#define B(x) (1u << (x))
int main(void)
{
	struct sigaction sa; memset(&sa, 0, sizeof sa); sa.sa_sigaction = on_trap; sa.sa_flags = SA_SIGINFO; sigaction(SIGTRAP, &sa, 0);
	FILE *p = popen("nm /tmp/probe2/disp", "r"); char line[256]; while (fgets(line, sizeof line, p)) { unsigned long a; char t; char n[128]; if (sscanf(line, "%lx %c %127s", &a, &t, n) == 3 && (t == 'T' || t == 't') && nsym < 8000 && !strstr(n, "_mbinit") && !strstr(n, "dispatch_init") && n[0] != '.' && n[0] != '_') { SYM[nsym].a = a; strncpy(SYM[nsym].n, n, 63); nsym++; } } pclose(p);
	uint32_t SSE = B(0) | B(9) | B(19) | B(20) | B(23), CLMUL = B(1), OSX = B(27), AVX = B(28);
	uint32_t AVX2 = B(5), G1 = B(16) | B(17) | B(28) | B(30) | B(31), G2 = B(6) | B(8) | B(9) | B(10) | B(11) | B(12) | B(14), A2G2 = B(8) | B(9) | B(10);
	struct { const char *n; uint32_t c1, b7, c7, x; uint32_t eax; } L[] = {
		{ "base", 0, 0, 0, 0, 0x306a9 }, { "sse", SSE, 0, 0, 0, 0x306a9 }, { "sse+clmul", SSE | CLMUL, 0, 0, 0, 0x306a9 }, { "avoton", SSE | CLMUL, 0, 0, 0, 0x406d8 },
		{ "avx", SSE | CLMUL | OSX | AVX, 0, 0, 7, 0x306a9 }, { "avx-os-off", SSE | CLMUL | OSX | AVX, 0, 0, 3, 0x306a9 }, { "avx-noosxsave", SSE | CLMUL | AVX, 0, 0, 7, 0x306a9 },
		{ "avx2", SSE | CLMUL | OSX | AVX, AVX2, 0, 7, 0x306a9 }, { "avx2+gfni", SSE | CLMUL | OSX | AVX, AVX2, A2G2, 7, 0x306a9 },
		{ "avx512", SSE | CLMUL | OSX | AVX, AVX2 | G1, 0, 0xe7, 0x306a9 }, { "avx512-os-off", SSE | CLMUL | OSX | AVX, AVX2 | G1, G2, 7, 0x306a9 }, { "avx512-noBW", SSE | CLMUL | OSX | AVX, AVX2 | (G1 & ~B(30)), G2, 0xe7, 0x306a9 },
		{ "avx512+g2", SSE | CLMUL | OSX | AVX, AVX2 | G1, G2, 0xe7, 0x306a9 }, { "avx512+g2-nogfni", SSE | CLMUL | OSX | AVX, AVX2 | G1, G2 & ~B(8), 0xe7, 0x306a9 } };
	int nent = sizeof ENT / sizeof ENT[0], nl = sizeof L / sizeof L[0];
	printf("%-34s", "entry"); for (int l = 0; l < nl; l++) printf(" | %s", L[l].n); printf("\n");
	long total_steps = 0;
	for (int e = 0; e < nent; e++) {
		uint8_t *st = (uint8_t *) ENT[e].f; if (memcmp(st, "\xf3\x0f\x1e\xfa\xff\x25", 6)) { printf("%s: unexpected stub\n", ENT[e].n); continue; }
		int32_t disp; memcpy(&disp, st + 6, 4); void **slot = (void **) (st + 10 + disp); uint8_t *mbinit = *slot;
		if (memcmp(mbinit, "\xf3\x0f\x1e\xfa\xe8", 5)) { printf("%s: unexpected mbinit\n", ENT[e].n); continue; }
		int32_t rel; memcpy(&rel, mbinit + 5, 4); void (*dinit)(void) = (void (*)(void)) (mbinit + 9 + rel);
		printf("%-34s", ENT[e].n);
		for (int l = 0; l < nl; l++) { sim.l1_eax = L[l].eax; sim.l1_ecx = L[l].c1; sim.l1_edx = B(25) | B(26); sim.l7_ebx = L[l].b7; sim.l7_ecx = L[l].c7; sim.xcr0 = L[l].x; *slot = mbinit; nsteps = 0; run_traced(dinit); total_steps += nsteps;
			const char *sn = symname((uint64_t) *slot); size_t el = strlen(ENT[e].n); printf(" | %s", strncmp(sn, ENT[e].n, el) == 0 ? sn + el : sn); }
		printf("\n");
	}
	printf("steps=%ld xgetbv_without_osxsave=%d\n", total_steps, xgetbv_without_osxsave);
	return 0;
}
