#include <stdio.h>
#include <unistd.h>
#include <stdlib.h>
#include <string.h>
#include <stdint.h>
#include "igzip_lib.h"
#include "erasure_code.h"
static uint64_t rs = 88172645463325252ull;
static uint32_t rnd(void) { rs ^= rs << 13; rs ^= rs >> 7; rs ^= rs << 17; return rs >> 11; }
static void fill(void *p, size_t n, int pat) { if (pat < 3) memset(p, pat == 0 ? 0 : pat == 1 ? 0xff : 0xa5, n); else { uint8_t *b = p; uint64_t x = 0x9e3779b97f4a7c15ull * (pat + 1); for (size_t i = 0; i < n; i++) { x ^= x << 13; x ^= x >> 7; x ^= x << 17; b[i] = x; } } }
typedef struct { int ret; size_t outlen; uint8_t *out; int state; uint32_t tin, tout; } res_t;
static int rnd_reset = 1;
static void __attribute__((noinline)) poison_stack(int pat) { volatile uint8_t big[256 * 1024]; uint8_t v = pat == 0 ? 0 : pat == 1 ? 0xff : pat == 2 ? 0xa5 : (uint8_t) (pat * 37 + 11); for (size_t i = 0; i < sizeof big; i++) big[i] = (pat >= 3) ? (uint8_t) (v + i * 131) : v; __asm__ volatile("" ::: "memory"); }

static res_t run_deflate(int pat, int stateless, int lvl, int wrap, int flush, int hb, uint32_t lbsz, const uint8_t *in, int n, uint64_t sched_seed, int reuse)
{
	res_t r = { 0 }; size_t cap = 3 * (size_t) n + 70000; r.out = malloc(cap); int sel = getenv("SEL") ? atoi(getenv("SEL")) : 7; fill(r.out, cap, (sel & 4) ? pat : 0);
	struct isal_zstream *s = malloc(sizeof *s); fill(s, sizeof *s, (sel & 1) ? pat : 0); uint8_t *lb = lvl ? malloc(lbsz) : 0; if (lb) fill(lb, lbsz, (sel & 2) ? pat : 0);
	uint64_t save = rs; rs = sched_seed; poison_stack(pat);
	for (int round = 0; round <= reuse; round++) {
		if (round == reuse) rs = sched_seed; if (round == 0) { if (stateless) isal_deflate_stateless_init(s); else isal_deflate_init(s); } else { if (stateless) isal_deflate_stateless_init(s); else if (rnd_reset) isal_deflate_reset(s); else isal_deflate_init(s); }
		s->level = lvl; s->level_buf = lb; s->level_buf_size = lbsz; s->gzip_flag = wrap; s->hist_bits = hb; s->flush = flush; s->end_of_stream = 0;
		const uint8_t *src = in; int len = n; uint8_t *tmpin = 0; if (round < reuse) { len = n / 2 + 17; tmpin = malloc(len); for (int i = 0; i < len; i++) tmpin[i] = (i * 31 + round) ^ (i >> 3); src = tmpin; }
		if (stateless) { s->next_in = (uint8_t *) src; s->avail_in = len; s->next_out = r.out; s->avail_out = cap; r.ret = isal_deflate_stateless(s); r.outlen = s->total_out; }
		else { int ip = 0; s->next_out = r.out; s->avail_out = cap; r.ret = 0; while (s->internal_state.state != ZSTATE_END && !r.ret) { int c = 1 + rnd() % 30000; if (c > len - ip) c = len - ip; s->next_in = (uint8_t *) src + ip; s->avail_in = c; ip += c; s->end_of_stream = ip == len; r.ret = isal_deflate(s); } r.outlen = s->total_out; }
		free(tmpin);
	}
	r.state = s->internal_state.state; r.tin = s->total_in; r.tout = s->total_out; rs = save; free(s); free(lb); return r;
}
int main(int argc, char **argv)
{
	if (getenv("REPLAY")) { FILE *f = fopen("precase.bin", "rb"); int hdr[12]; uint64_t ss; fread(hdr, sizeof hdr, 1, f); fread(&ss, 8, 1, f); int n = hdr[0]; uint8_t *in = malloc(n + 64); memset(in, 0xEE, n + 64); fread(in, 1, n, f); fclose(f); rnd_reset = hdr[9]; printf("replay n=%d stateless=%d lvl=%d wrap=%d flush=%d hb=%d lbsz=%d pat=%d reuse=%d\n", n, hdr[1], hdr[2], hdr[3], hdr[4], hdr[5], hdr[6], hdr[7], hdr[8]); for (int tail = 0; tail < 2; tail++) { memset(in + n, tail ? 0x11 : 0xEE, 64); for (int sel = 0; sel < 8; sel++) { char b[8]; sprintf(b, "%d", sel); setenv("SEL", b, 1); res_t base = run_deflate(0, hdr[1], hdr[2], hdr[3], hdr[4], hdr[5], hdr[6], in, n, ss, 0); int diff = 0; for (int pat = 1; pat < 5; pat++) { res_t r = run_deflate(pat, hdr[1], hdr[2], hdr[3], hdr[4], hdr[5], hdr[6], in, n, ss, pat == 4 ? hdr[8] : 0); if (r.outlen != base.outlen || memcmp(r.out, base.out, base.outlen)) diff |= 1 << pat; free(r.out); } printf(" tailfill=%d SEL=%d (1=ctx 2=lb 4=out; stack always poisoned): differing patterns mask=%x baselen=%zu\n", tail, sel, diff, base.outlen); free(base.out); } } return 0; }
	int iters = argc > 1 ? atoi(argv[1]) : 300; int only = getenv("ONLY") ? atoi(getenv("ONLY")) : -1; if (argc > 2) rs = strtoull(argv[2], 0, 0); long bad = 0, cases = 0;
	for (int it = 0; it < iters; it++) {
		int n = rnd() % 3 == 0 ? rnd() % 400 : rnd() % 120000; uint8_t *in = malloc(n + 1); int mode = rnd() % 3; for (int i = 0; i < n; i++) in[i] = mode == 0 ? rnd() : mode == 1 ? "abcdefgh"[rnd() % 3] : (i % 977 < 300 ? in[i > 977 ? i - 977 : 0] : rnd() % 7);
		int lvl = rnd() % 4, wrap = rnd() % 5, stateless = rnd() % 2, flush = stateless ? (rnd() % 2 ? FULL_FLUSH : NO_FLUSH) : rnd() % 3, hb = rnd() % 3 ? 0 : 9 + rnd() % 7, reuse = rnd() % 3 == 0;
		static const int lbs[4][3] = { {0,0,0}, {ISAL_DEF_LVL1_MIN, ISAL_DEF_LVL1_DEFAULT, ISAL_DEF_LVL1_MIN + 13}, {ISAL_DEF_LVL2_MIN, ISAL_DEF_LVL2_DEFAULT, ISAL_DEF_LVL2_MIN + 13}, {ISAL_DEF_LVL3_MIN, ISAL_DEF_LVL3_DEFAULT, ISAL_DEF_LVL3_MIN + 13} }; uint32_t lbsz = lbs[lvl][rnd() % 3]; uint64_t ss = rnd() * 1000003ull + 7;
		if (only >= 0 && it != only) { free(in); continue; } res_t base = run_deflate(0, stateless, lvl, wrap, flush, hb, lbsz, in, n, ss, 0); cases++;
		for (int pat = 1; pat < 6; pat++) { rnd_reset = it & 1; res_t r = run_deflate(pat, stateless, lvl, wrap, flush, hb, lbsz, in, n, ss, pat == 5 ? reuse : 0); cases++;
			if (r.ret != base.ret || r.outlen != base.outlen || memcmp(r.out, base.out, base.outlen) || r.state != base.state || r.tin != base.tin || r.tout != base.tout) { { printf("base:"); for (size_t k = 0; k < base.outlen; k++) printf(" %02x", base.out[k]); printf("\npat%d:", pat); for (size_t k = 0; k < r.outlen; k++) printf(" %02x", r.out[k]); printf("\nin:"); for (int k = 0; k < n; k++) printf(" %02x", in[k]); printf("\n"); } if (access("precase.bin", 0)) { FILE *f = fopen("precase.bin", "wb"); int hdr[12] = { n, stateless, lvl, wrap, flush, hb, (int) lbsz, pat, pat == 5 ? reuse : 0, rnd_reset, 0, 0 }; fwrite(hdr, sizeof hdr, 1, f); fwrite(&ss, 8, 1, f); fwrite(in, 1, n, f); fclose(f); } printf("DEFLATE prefill/reuse dependence it=%d pat=%d stateless=%d lvl=%d wrap=%d flush=%d hb=%d lbsz=%u n=%d reuse=%d ret %d/%d len %zu/%zu\n", it, pat, stateless, lvl, wrap, flush, hb, lbsz, n, pat == 5 ? reuse : 0, r.ret, base.ret, r.outlen, base.outlen); bad++; } free(r.out); }
		/* inflate prefill */
		{ struct inflate_state *a = malloc(sizeof *a), *b = malloc(sizeof *b); uint8_t *oa = malloc(n + 1), *ob = malloc(n + 1); fill(a, sizeof *a, 0); fill(b, sizeof *b, 4); fill(oa, n + 1, 0); fill(ob, n + 1, 1); int flag = wrap == 0 ? 0 : wrap == 1 ? ISAL_GZIP : wrap == 2 ? ISAL_GZIP_NO_HDR_VER : wrap == 3 ? ISAL_ZLIB : ISAL_ZLIB_NO_HDR_VER; int ra = 0, rb = 0;
			if (base.ret == 0 && (flush == NO_FLUSH || !stateless)) { for (int k = 0; k < 2; k++) { struct inflate_state *st = k ? b : a; uint8_t *o = k ? ob : oa; isal_inflate_init(st); st->crc_flag = flag; st->next_in = base.out; st->avail_in = base.outlen; st->next_out = o; st->avail_out = n + 1; int r = isal_inflate(st); if (k) rb = r; else ra = r; }
				cases++; if (ra != rb || a->total_out != b->total_out || memcmp(oa, ob, a->total_out) || a->block_state != b->block_state || a->crc != b->crc || ra != 0 || a->total_out != (uint32_t) n || memcmp(oa, in, n)) { printf("INFLATE prefill dependence / bad it=%d ra=%d rb=%d\n", it, ra, rb); bad++; } }
			free(a); free(b); free(oa); free(ob); }
		free(base.out); free(in);
	}
	/* hufftables + gf tables + dict prefill */
	for (int it = 0; it < 200; it++) { struct isal_huff_histogram *h = calloc(1, sizeof *h); for (int i = 0; i < 286; i++) h->lit_len_histogram[i] = rnd() % 1000; for (int i = 0; i < 30; i++) h->dist_histogram[i] = rnd() % 100; struct isal_hufftables *t1 = malloc(sizeof *t1), *t2 = malloc(sizeof *t2); fill(t1, sizeof *t1, 1); fill(t2, sizeof *t2, 4); cases++; for (int v = 0; v < 2; v++) { if (v) { isal_create_hufftables_subset(t1, h); isal_create_hufftables_subset(t2, h); } else { isal_create_hufftables(t1, h); isal_create_hufftables(t2, h); } if (memcmp(t1, t2, sizeof *t1)) { printf("HUFFTABLES prefill dependence v=%d\n", v); bad++; } }
		uint8_t coef[40], g1[32 * 40], g2[32 * 40]; for (int i = 0; i < 40; i++) coef[i] = rnd(); fill(g1, sizeof g1, 1); fill(g2, sizeof g2, 3); ec_init_tables(8, 5, coef, g1); ec_init_tables(8, 5, coef, g2); /* GFNI form fills only 8 bytes per coef: compare the used part via encode result */ uint8_t d[8][64], *dp[8], p1[5][64], p2[5][64], *pp1[5], *pp2[5]; for (int i = 0; i < 8; i++) { dp[i] = d[i]; for (int j = 0; j < 64; j++) d[i][j] = rnd(); } for (int i = 0; i < 5; i++) { pp1[i] = p1[i]; pp2[i] = p2[i]; } ec_encode_data(64, 8, 5, g1, dp, pp1); ec_encode_data(64, 8, 5, g2, dp, pp2); if (memcmp(p1, p2, sizeof p1)) { printf("EC tables prefill dependence\n"); bad++; }
		struct isal_zstream s; isal_deflate_init(&s); s.level = rnd() % 4; struct isal_dict *d1 = malloc(sizeof *d1), *d2 = malloc(sizeof *d2); fill(d1, sizeof *d1, 0); fill(d2, sizeof *d2, 1); uint8_t dd[5000]; for (int i = 0; i < 5000; i++) dd[i] = rnd() % 9; int r1 = isal_deflate_process_dict(&s, d1, dd, 5000), r2 = isal_deflate_process_dict(&s, d2, dd, 5000); cases++; if (r1 != r2) { static int once; if (!once++) printf("PROCESS_DICT prefill dependence r1=%d r2=%d (first of many)\n", r1, r2); bad++; } free(d1); free(d2); free(t1); free(t2); free(h); }
	printf("cases=%ld bad=%ld\n", cases, bad);
	return 0;
}
