#include <stdio.h>
#include <stdlib.h>
#include <string.h>
#include <stdint.h>
#include <zlib.h>
#include "igzip_lib.h"
static uint64_t rs = 88172645463325252ull;
static uint32_t rnd(void) { rs ^= rs << 13; rs ^= rs >> 7; rs ^= rs << 17; return rs >> 11; }
static const int ins[] = { 1, 1, 2, 3, 7, 8, 9, 15, 16, 17, 31, 33, 255, 257, 327, 328, 329, 1000, 32768, 65536, 1000000 };
static const int outs[] = { 0, 1, 1, 2, 3, 7, 8, 9, 15, 16, 17, 64, 258, 259, 1000, 32767, 32768, 32769, 65536, 1000000 };
int main(int argc, char **argv)
{
	int iters = argc > 1 ? atoi(argv[1]) : 2000; if (argc > 2) rs = strtoull(argv[2], 0, 0);
	long bad = 0, calls = 0, trunc_ok = 0, stuck = 0; long bs_hist[16] = { 0 };
	for (int it = 0; it < iters; it++) {
		int n = (rnd() % 4 == 0) ? rnd() % 300 : rnd() % 300000; uint8_t *in = malloc(n + 1);
		int mode = rnd() % 4; for (int i = 0; i < n; i++) in[i] = mode == 0 ? rnd() : mode == 1 ? "abcdefgh"[rnd() % 3] : mode == 2 ? (i % 977 < 300 ? in[i > 977 ? i - 977 : 0] : rnd() % 7) : (i > 40000 && (i % 32768) < 200 ? in[i - 32768 + (rnd() % 2)] : rnd() % 50);
		/* produce with zlib */
		int wrap = rnd() % 3; /* 0 raw 1 gzip 2 zlib */
		z_stream z = { 0 }; int lvl = rnd() % 10, strat = rnd() % 5, memlvl = 1 + rnd() % 9, wb = 9 + rnd() % 7;
		deflateInit2(&z, lvl, Z_DEFLATED, wrap == 0 ? -wb : wrap == 1 ? wb + 16 : wb, memlvl, strat);
		size_t cap = deflateBound(&z, n) + 1000; uint8_t *cmp = malloc(cap); z.next_out = cmp; z.avail_out = cap;
		/* feed in pieces with random flushes to create multiple blocks */
		int ip = 0; while (ip < n) { int c = 1 + rnd() % 70000; if (c > n - ip) c = n - ip; z.next_in = in + ip; z.avail_in = c; ip += c; int fl = (rnd() % 3 == 0) ? (rnd() % 2 ? Z_SYNC_FLUSH : Z_FULL_FLUSH) : (rnd() % 5 == 0 ? Z_BLOCK : Z_NO_FLUSH); deflate(&z, fl); }
		z.next_in = in; z.avail_in = 0; deflate(&z, Z_FINISH); size_t clen = z.total_out; deflateEnd(&z);
		size_t trunc = (rnd() % 5 == 0 && clen > 0) ? rnd() % clen : clen; /* truncated variant */
		/* decode with isal streaming, random schedule */
		struct inflate_state *st = malloc(sizeof *st); memset(st, rnd(), sizeof *st); isal_inflate_init(st);
		int flagsel = rnd() % 2; st->crc_flag = wrap == 0 ? ISAL_DEFLATE : wrap == 1 ? ISAL_GZIP : ISAL_ZLIB;
		size_t skip = 0; if (flagsel && wrap == 1) { st->crc_flag = (rnd() % 2) ? ISAL_GZIP_NO_HDR_VER : ISAL_GZIP_NO_HDR; skip = 10; } else if (flagsel && wrap == 2) { st->crc_flag = (rnd() % 2) ? ISAL_ZLIB_NO_HDR_VER : ISAL_ZLIB_NO_HDR; skip = 2; }
		if (skip > trunc) skip = 0, st->crc_flag = wrap == 0 ? ISAL_DEFLATE : wrap == 1 ? ISAL_GZIP : ISAL_ZLIB;
		uint8_t *back = malloc(n + 2); size_t bp = 0, cp = skip; int ret = 0, steps = 0, fail = 0;
		st->avail_in = 0; st->avail_out = 0; uint8_t *obuf = malloc(1000001); size_t ochunk = 0;
		while (st->block_state != ISAL_BLOCK_FINISH) {
			if (++steps > 2000000) { printf("HANG it=%d\n", it); fail = 1; break; }
			if (st->avail_in == 0) { int c = ins[rnd() % (sizeof ins / sizeof ins[0])]; if ((size_t) c > trunc - cp) c = trunc - cp; st->next_in = cmp + cp; st->avail_in = c; cp += c; }
			if (st->avail_out == 0) { int c = outs[rnd() % (sizeof outs / sizeof outs[0])]; st->next_out = obuf; st->avail_out = c; ochunk = c; }
			uint32_t ai = st->avail_in, ao = st->avail_out; int bs0 = st->block_state; uint32_t to0 = st->total_out;
			ret = isal_inflate(st); calls++; bs_hist[bs0 & 15]++;
			size_t prod = ao - st->avail_out;
			if (st->total_out - to0 != prod) { printf("TOTAL_OUT mismatch it=%d prod=%zu dto=%u\n", it, prod, st->total_out - to0); fail = 1; break; }
			if (bp + prod > (size_t) n) { printf("OVERPRODUCE it=%d bp=%zu prod=%zu n=%d\n", it, bp, prod, n); fail = 1; break; }
			memcpy(back + bp, obuf + (ochunk - ao), prod); bp += prod;
			if (ret < 0) break;
			if (ret != 0) { printf("RET %d it=%d\n", ret, it); if (ret == ISAL_NEED_DICT) { fail = 1; break; } }
			if (ai == st->avail_in && prod == 0 && bs0 == (int) st->block_state) { if (ai > 0 && ao > 0) { stuck++; printf("STUCK it=%d bs=%d ai=%u ao=%u\n", it, bs0, ai, ao); fail = 1; break; } if (ai == 0 && cp >= trunc && ao > 0) break; /* starved: input exhausted */ }
			if (st->avail_out > 0 && rnd() % 3 == 0) st->avail_out = 0;
		}
		int finished = st->block_state == ISAL_BLOCK_FINISH && ret == 0;
		if (trunc < clen) { if (finished) { printf("FALSE-FINISH on truncated it=%d trunc=%zu/%zu wrap=%d flag=%d\n", it, trunc, clen, wrap, st->crc_flag); bad++; } else trunc_ok++; if (memcmp(back, in, bp)) { printf("PREFIX-MISMATCH it=%d\n", it); bad++; } }
		else {
			size_t endpos = cp - st->avail_in - st->read_in_length / 8; int ver = st->crc_flag == ISAL_GZIP || st->crc_flag == ISAL_ZLIB || st->crc_flag == ISAL_GZIP_NO_HDR_VER || st->crc_flag == ISAL_ZLIB_NO_HDR_VER;
			size_t expect_end = ver ? clen : clen - (wrap == 1 ? 8 : wrap == 2 ? 4 : 0);
			uint32_t expcrc = wrap == 1 ? crc32(0, in, n) : wrap == 2 ? adler32(1, in, n) : 0;
			if (fail || !finished || bp != (size_t) n || memcmp(back, in, n) || endpos != expect_end || (wrap && st->crc != expcrc)) { printf("BAD it=%d wrap=%d flag=%d n=%d ret=%d bs=%d bp=%zu endpos=%zu expect=%zu clen=%zu crc=%08x exp=%08x zl=%d st=%d wb=%d\n", it, wrap, st->crc_flag, n, ret, st->block_state, bp, endpos, expect_end, clen, st->crc, expcrc, lvl, strat, wb); bad++; }
		}
		free(in); free(cmp); free(back); free(obuf); free(st);
	}
	printf("iters=%d calls=%ld bad=%ld trunc_ok=%ld stuck=%ld  states:", iters, calls, bad, trunc_ok, stuck); for (int i = 0; i < 13; i++) printf(" %ld", bs_hist[i]); printf("\n");
	return 0;
}
