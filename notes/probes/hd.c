#include <stdio.h>
#include <stdlib.h>
#include <string.h>
#include <stdint.h>
#include <zlib.h>
#include "igzip_lib.h"
static uint64_t rs = 88172645463325252ull;
static uint32_t rnd(void) { rs ^= rs << 13; rs ^= rs >> 7; rs ^= rs << 17; return rs >> 11; }
typedef struct { int text, hcrc, has_extra, has_name, has_comment; uint32_t time; uint8_t xfl, os; uint8_t extra[70000]; uint32_t xlen; char name[5000], comment[5000]; } gh_t;
static size_t ref_build(const gh_t *g, uint8_t *o) { size_t p = 0; o[p++] = 0x1f; o[p++] = 0x8b; o[p++] = 8; o[p++] = (g->text ? 1 : 0) | (g->hcrc ? 2 : 0) | (g->has_extra ? 4 : 0) | (g->has_name ? 8 : 0) | (g->has_comment ? 16 : 0); o[p++] = g->time; o[p++] = g->time >> 8; o[p++] = g->time >> 16; o[p++] = g->time >> 24; o[p++] = g->xfl; o[p++] = g->os; if (g->has_extra) { o[p++] = g->xlen; o[p++] = g->xlen >> 8; memcpy(o + p, g->extra, g->xlen); p += g->xlen; } if (g->has_name) { size_t l = strlen(g->name) + 1; memcpy(o + p, g->name, l); p += l; } if (g->has_comment) { size_t l = strlen(g->comment) + 1; memcpy(o + p, g->comment, l); p += l; } if (g->hcrc) { uint32_t c = crc32(0, o, p); o[p++] = c; o[p++] = c >> 8; } return p; }
int main(int argc, char **argv)
{
	int iters = argc > 1 ? atoi(argv[1]) : 2000; if (argc > 2) rs = strtoull(argv[2], 0, 0); long bad = 0, wcases = 0, rcases = 0, ovf = 0;
	gh_t *g = malloc(sizeof *g); uint8_t *refb = malloc(100000), *ib = malloc(100000);
	for (int it = 0; it < iters; it++) {
		memset(g, 0, sizeof *g); g->text = rnd() & 1; g->hcrc = rnd() & 1; g->has_extra = rnd() & 1; g->has_name = rnd() & 1; g->has_comment = rnd() & 1; g->time = rnd() % 4 == 0 ? 0x01020304 : rnd() * 77u; g->xfl = rnd(); g->os = rnd();
		static const int xl[] = { 0, 1, 2, 255, 256, 1000, 65535 }; g->xlen = xl[rnd() % 7]; for (uint32_t i = 0; i < g->xlen; i++) g->extra[i] = rnd(); int nl = (int[]){ 0, 1, 7, 255, 4000 }[rnd() % 5], cl = (int[]){ 0, 1, 9, 300, 4500 }[rnd() % 5]; for (int i = 0; i < nl; i++) g->name[i] = 1 + rnd() % 255; g->name[nl] = 0; for (int i = 0; i < cl; i++) g->comment[i] = 1 + rnd() % 255; g->comment[cl] = 0;
		size_t rl = ref_build(g, refb);
		/* writer */
		struct isal_gzip_header h; isal_gzip_header_init(&h); h.text = g->text; h.time = g->time; h.xflags = g->xfl; h.os = g->os; h.hcrc = g->hcrc; if (g->has_extra) { h.extra = g->extra; h.extra_len = g->xlen; h.extra_buf_len = g->xlen; } if (g->has_name) { h.name = g->name; h.name_buf_len = nl + 1; } if (g->has_comment) { h.comment = g->comment; h.comment_buf_len = cl + 1; }
		for (int d = -2; d <= 1; d++) { long ao = (long) rl + d; if (ao < 0) continue; wcases++; struct isal_zstream s; isal_deflate_init(&s); memset(ib, 0xA5, rl + 16); s.next_out = ib; s.avail_out = ao; struct isal_zstream s0 = s; uint32_t r = isal_write_gzip_header(&s, &h);
			if (d < 0) { if (r != rl) { printf("WRITE size ret=%u expect=%zu it=%d\n", r, rl, it); bad++; } if (memcmp(&s, &s0, sizeof s)) { printf("WRITE modified stream on failure it=%d\n", it); bad++; } for (size_t k = 0; k < rl + 16; k++) if (ib[k] != 0xA5) { printf("WRITE touched output on failure it=%d k=%zu\n", it, k); bad++; break; } }
			else { if (r != 0 || s.total_out != rl || s.avail_out != ao - rl || s.next_out != ib + rl) { printf("WRITE ret=%u accounting it=%d\n", r, it); bad++; } if (memcmp(ib, refb, rl)) { size_t k = 0; while (ib[k] == refb[k]) k++; printf("WRITE bytes differ at %zu it=%d (flags %d%d%d%d%d)\n", k, it, g->text, g->hcrc, g->has_extra, g->has_name, g->has_comment); bad++; } for (size_t k = rl; k < rl + 16; k++) if (ib[k] != 0xA5) { printf("WRITE beyond it=%d\n", it); bad++; break; } } }
		/* reader: on reference bytes followed by 3 deflate bytes, with chunking and buffer sizes */
		refb[rl] = 0x03; refb[rl + 1] = 0x00; size_t tot = rl + 2;
		for (int rep = 0; rep < 6; rep++) { rcases++; struct inflate_state *st = malloc(sizeof *st); memset(st, rnd(), sizeof *st); isal_inflate_init(st); struct isal_gzip_header rh; memset(&rh, rnd(), sizeof rh); isal_gzip_header_init(&rh);
			uint32_t eb = rep % 3 == 0 ? 70000 : rnd() % (g->xlen + 2), nb = rep % 3 == 0 ? 5001 : rnd() % (nl + 3), cb = rep % 3 == 0 ? 5001 : rnd() % (cl + 3); uint8_t *ebuf = malloc(70001); char *nbuf = malloc(5002), *cbuf = malloc(5002); rh.extra = ebuf; rh.extra_buf_len = eb; rh.name = nbuf; rh.name_buf_len = nb; rh.comment = cbuf; rh.comment_buf_len = cb; if (rep == 5) { rh.extra = 0; rh.name = 0; rh.comment = 0; }
			size_t cp = 0; int ret; int guard = 0; st->avail_in = 0; st->next_in = refb;
			for (;;) { if (++guard > 300000) { printf("READ HANG it=%d\n", it); bad++; break; } if (st->avail_in == 0) { size_t c = rep < 2 ? tot : 1 + rnd() % (rnd() % 2 ? 3 : 3000); if (c > tot - cp) c = tot - cp; st->next_in = refb + cp; st->avail_in = c; cp += c; }
				ret = isal_read_gzip_header(st, &rh);
				if (ret == ISAL_END_INPUT) { if (cp >= tot && st->avail_in == 0) { printf("READ wants more than exists it=%d\n", it); bad++; break; } continue; }
				if (ret == ISAL_EXTRA_OVERFLOW) { ovf++; uint32_t old = rh.extra_buf_len; rh.extra_buf_len = old + 1 + rnd() % 70000; if (rh.extra_buf_len > 70000) rh.extra_buf_len = 70000; if (old >= 70000) { printf("EXTRA OVF with full buffer\n"); bad++; break; } continue; }
				if (ret == ISAL_NAME_OVERFLOW) { ovf++; if (rh.name_buf_len >= 5001) { printf("NAME OVF with full buffer it=%d\n", it); bad++; break; } rh.name_buf_len += 1 + rnd() % 5000; if (rh.name_buf_len > 5001) rh.name_buf_len = 5001; continue; }
				if (ret == ISAL_COMMENT_OVERFLOW) { ovf++; if (rh.comment_buf_len >= 5001) { printf("COMMENT OVF with full buffer it=%d\n", it); bad++; break; } rh.comment_buf_len += 1 + rnd() % 5000; if (rh.comment_buf_len > 5001) rh.comment_buf_len = 5001; continue; }
				break; }
			if (ret != ISAL_DECOMP_OK) { printf("READ ret=%d it=%d rep=%d\n", ret, it, rep); bad++; }
			else { size_t pos = cp - st->avail_in; if (pos != rl) { printf("READ stop pos=%zu expect=%zu it=%d rep=%d\n", pos, rl, it, rep); bad++; }
				if (rh.text != (uint32_t) g->text || rh.time != g->time || rh.xflags != g->xfl || rh.os != g->os) { printf("READ fixed fields differ it=%d\n", it); bad++; }
				if (rep != 5) { if (g->has_extra && (rh.extra_len != g->xlen || memcmp(ebuf, g->extra, g->xlen))) { printf("READ extra differs it=%d rep=%d len=%u/%u\n", it, rep, rh.extra_len, g->xlen); bad++; } if (g->has_name && strcmp(nbuf, g->name)) { printf("READ name differs it=%d rep=%d\n", it, rep); bad++; } if (g->has_comment && strcmp(cbuf, g->comment)) { printf("READ comment differs it=%d rep=%d\n", it, rep); bad++; } } }
			free(ebuf); free(nbuf); free(cbuf); free(st); }
	}
	printf("iters=%d write_cases=%ld read_cases=%ld overflow_resumes=%ld bad=%ld\n", iters, wcases, rcases, ovf, bad);
	return 0;
}
