#define _GNU_SOURCE
#include <link.h>
#include <stdio.h>
#include <stdlib.h>
#include <string.h>
#include <signal.h>
#include <sys/mman.h>
#include <pthread.h>
#include "igzip_lib.h"
#include "crc.h"
#include "crc64.h"
#include "erasure_code.h"
#include "raid.h"
#include "mem_routines.h"
static int nprot;
static int cb(struct dl_phdr_info *info, size_t sz, void *d)
{
	if (!strstr(info->dlpi_name, "libisal")) return 0;
	for (int i = 0; i < info->dlpi_phnum; i++) {
		const ElfW(Phdr) *p = &info->dlpi_phdr[i];
		if (p->p_type == PT_LOAD && (p->p_flags & PF_W)) {
			uintptr_t s = (info->dlpi_addr + p->p_vaddr) & ~4095ul;
			uintptr_t e = (info->dlpi_addr + p->p_vaddr + p->p_memsz + 4095) & ~4095ul;
			int r = mprotect((void *) s, e - s, PROT_READ);
			printf("protect %lx-%lx r=%d\n", s, e, r); nprot += (e - s) / 4096;
		}
	}
	return 0;
}
static void segv(int s, siginfo_t *si, void *u) { Dl_info di; dladdr(si->si_addr, &di); fprintf(stderr, "FAULT at %p (%s+?)\n", si->si_addr, di.dli_sname ? di.dli_sname : "?"); _exit(3); }
static void work(long seed, int verbose)
{
	int n = 100000; uint8_t *in = malloc(n), *out = malloc(2 * n), *back = malloc(n);
	for (int i = 0; i < n; i++) in[i] = ((i * i) >> 7) % 23 + (i % 9000 < 50 ? i : 0) + seed;
	for (int lvl = 0; lvl <= 3; lvl++) for (int g = 0; g <= 4; g++) {
		struct isal_zstream s; isal_deflate_init(&s);
		s.level = lvl; s.level_buf = malloc(ISAL_DEF_LVL3_DEFAULT); s.level_buf_size = ISAL_DEF_LVL3_DEFAULT;
		s.next_in = in; s.avail_in = n; s.next_out = out; s.avail_out = 2 * n; s.gzip_flag = g; s.end_of_stream = 1;
		int r = isal_deflate(&s);
		struct inflate_state st; isal_inflate_init(&st); st.crc_flag = g;
		st.next_in = out; st.avail_in = s.total_out; st.next_out = back; st.avail_out = n;
		int r2 = isal_inflate(&st);
		if (r || r2 || st.total_out != n || memcmp(in, back, n)) printf("MISMATCH lvl%d g%d r=%d r2=%d\n", lvl, g, r, r2);
		free(s.level_buf);
	}
	struct isal_huff_histogram h; memset(&h, 0, sizeof h); isal_update_histogram(in, n, &h);
	struct isal_hufftables ht; isal_create_hufftables(&ht, &h);
	uint8_t tb[32 * 10 * 4], mat[14 * 10], *frag[14];
	gf_gen_cauchy1_matrix(mat, 14, 10); ec_init_tables(10, 4, &mat[100], tb);
	for (int i = 0; i < 14; i++) frag[i] = in + i * 4096;
	uint8_t *par[4]; for (int i = 0; i < 4; i++) posix_memalign((void **) &par[i], 64, 4096);
	ec_encode_data(4096, 10, 4, tb, frag, par);
	for (int i = 0; i < 10; i++) ec_encode_data_update(4096, 10, 4, i, tb, frag[i], par);
	uint64_t acc = crc32_ieee(0, in, n) + crc32_gzip_refl(0, in, n) + crc32_iscsi(in, n, 0) + crc16_t10dif(0, in, n) + crc64_ecma_refl(0, in, n) + crc64_rocksoft_norm(0, in, n) + isal_adler32(1, in, n) + isal_zero_detect(in, n);
	void *arr[6]; for (int i = 0; i < 6; i++) posix_memalign(&arr[i], 64, 4096);
	for (int i = 0; i < 4; i++) memcpy(arr[i], in + i * 4096, 4096);
	acc += xor_gen(5, 4096, arr) + pq_gen(6, 4096, arr) + pq_check(6, 4096, arr) + xor_check(5, 4096, arr);
	if (verbose) printf("acc=%lx\n", acc);
}
static void *thr(void *a) { work((long) a, 0); return 0; }
int main(void)
{ setvbuf(stdout,0,_IONBF,0);
	work(0, 1);
	struct sigaction sa = { 0 }; sa.sa_sigaction = segv; sa.sa_flags = SA_SIGINFO; sigaction(SIGSEGV, &sa, 0);
	dl_iterate_phdr(cb, 0);
	printf("pages=%d\n", nprot);
	work(0, 1);
	pthread_t t[16]; for (long i = 0; i < 16; i++) pthread_create(&t[i], 0, thr, (void *) i);
	for (int i = 0; i < 16; i++) pthread_join(t[i], 0);
	printf("threads done, no write fault\n");
	return 0;
}
