#include <stdio.h>
#include <stdlib.h>
#include "rinf.h"
#include <zlib.h>
#include "igzip_lib.h"
static uint64_t rs = 88172645463325252ull;
static uint32_t rnd(void) { rs ^= rs << 13; rs ^= rs >> 7; rs ^= rs << 17; return rs >> 11; }
int main(int argc, char **argv)
{
	int iters = argc > 1 ? atoi(argv[1]) : 500; if (argc > 2) rs = strtoull(argv[2], 0, 0);
	long bad = 0; long hist[17][4] = { { 0 } }; uint32_t maxseen[17][4] = { { 0 } };
	for (int it = 0; it < iters; it++) {
		int w = (rnd() % 8 == 0) ? 0 : 9 + rnd() % 7, W = w ? 1 << w : 32768; int lvl = rnd() % 4;
		int n = 3 * W + rnd() % (2 * W) + 70000 * (rnd() % 2); uint8_t *in = malloc(n);
		/* phrase repeated at distance around W and 32768 and 65536 */
		int plen = 8 + rnd() % 200; int dlist[6] = { W - 2 + (int) (rnd() % 5), W + 1 + (int) (rnd() % 3), 32766 + (int) (rnd() % 5), 65534 + (int) (rnd() % 5), W / 2 + (int) (rnd() % 7), W - (int) (rnd() % 3) };
		for (int i = 0; i < n; i++) in[i] = rnd();
		for (int pos = 70000 > n / 2 ? n / 3 : 70000; pos + plen < n; pos += plen + rnd() % 3000) { int d = dlist[rnd() % 6]; if (pos - d < 0) continue; memcpy(in + pos, in + pos - d, plen); }
		struct isal_zstream s; isal_deflate_init(&s); s.level = lvl; s.level_buf_size = lvl == 0 ? 0 : lvl == 1 ? ISAL_DEF_LVL1_DEFAULT : lvl == 2 ? ISAL_DEF_LVL2_DEFAULT : ISAL_DEF_LVL3_DEFAULT; s.level_buf = lvl ? malloc(s.level_buf_size) : 0; s.hist_bits = w;
		size_t cap = 2 * (size_t) n + 100000; uint8_t *out = malloc(cap); int oneshot = rnd() % 2; size_t op = 0;
		uint8_t *lb = s.level_buf; uint32_t lbs = s.level_buf_size; if (oneshot) { isal_deflate_stateless_init(&s); s.level = lvl; s.level_buf = lb; s.level_buf_size = lbs; s.hist_bits = w; s.next_in = in; s.avail_in = n; s.next_out = out; s.avail_out = cap; if (isal_deflate_stateless(&s)) { printf("stateless fail\n"); bad++; } op = s.total_out; }
		else { int ip = 0; s.next_out = out; s.avail_out = cap; while (s.internal_state.state != ZSTATE_END) { int c = 1 + rnd() % 50000; if (c > n - ip) c = n - ip; s.next_in = in + ip; s.avail_in = c; ip += c; s.end_of_stream = ip == n; s.flush = rnd() % 5 == 0 ? SYNC_FLUSH : NO_FLUSH; isal_deflate(&s); if (s.avail_in) { printf("input left?\n"); break; } } op = s.total_out; }
		uint8_t *back = malloc(n + 1); rinf_t r = { 0 }; r.in = out; r.inlen = op; r.out = back; r.outcap = n + 1; int rr = rinflate(&r);
		if (rr != 0 || r.outlen != (size_t) n || memcmp(back, in, n) || (r.end_bit + 7) / 8 != op) { printf("DECODE BAD it=%d rr=%d err=%d %s outlen=%zu n=%d\n", it, rr, r.err, r.msg ? r.msg : "", r.outlen, n); bad++; }
		if (r.maxdist > (uint32_t) W) { printf("WINDOW VIOLATION it=%d w=%d lvl=%d oneshot=%d maxdist=%u\n", it, w, lvl, oneshot, r.maxdist); bad++; }
		int wi = w ? w : 16; hist[wi][lvl]++; if (r.maxdist > maxseen[wi][lvl]) maxseen[wi][lvl] = r.maxdist;
		free(in); free(out); free(back); free(lb);
	}
	printf("iters=%d bad=%ld\n", iters, bad); for (int w = 9; w <= 16; w++) { printf(" w=%2d:", w == 16 ? 0 : w); for (int l = 0; l < 4; l++) printf(" L%d n=%ld max=%u", l, hist[w][l], maxseen[w][l]); printf("\n"); }
	return 0;
}
