#include <stdio.h>
#include <stdlib.h>
#include "rinf.h"
#include <zlib.h>
#include "igzip_lib.h"
static uint64_t rs = 88172645463325252ull;
static uint64_t rnd(void) { rs ^= rs << 13; rs ^= rs >> 7; rs ^= rs << 17; return rs >> 11; }
/* parse the stored header with the reference decoder: build a stream = hdr + EOB code... simpler: decode "compress empty/with data" output */
int main(int argc, char **argv)
{
	int iters = argc > 1 ? atoi(argv[1]) : 300; if (argc > 2) rs = strtoull(argv[2], 0, 0);
	long bad = 0, cases = 0;
	for (int it = 0; it < iters; it++) {
		struct isal_huff_histogram *h = calloc(1, sizeof *h); int kind = it % 10;
		uint64_t *ll = h->lit_len_histogram, *dd = h->dist_histogram;
		switch (kind) {
		case 0: break; /* all zero */
		case 1: ll[rnd() % 286] = 1 + rnd() % 1000; break;
		case 2: ll[rnd() % 286] = 5; ll[rnd() % 286] = 7; dd[rnd() % 30] = 3; break;
		case 3: for (int i = 0; i < 286; i++) ll[i] = 100; for (int i = 0; i < 30; i++) dd[i] = 100; break;
		case 4: { uint64_t a = 1, b = 1; for (int i = 0; i < 286 && a < (1ull << 43); i++) { ll[(i * 7) % 286] = a; uint64_t t = a + b; a = b; b = t; } a = b = 1; for (int i = 0; i < 30; i++) { dd[i] = a; uint64_t t = a + b; a = b; b = t; } } break;
		case 5: for (int i = 0; i < 286; i++) ll[i] = 1ull << (i % 44); for (int i = 0; i < 30; i++) dd[i] = 1ull << (i % 44); break;
		case 6: for (int i = 0; i < 286; i++) ll[i] = (1ull << 44) - 1 - (rnd() % 3); for (int i = 0; i < 30; i++) dd[i] = (1ull << 44) - 1; break;
		case 7: for (int i = 0; i < 286; i++) if (rnd() % 8 == 0) ll[i] = rnd() % 100000; for (int i = 0; i < 30; i++) if (rnd() % 4 == 0) dd[i] = rnd() % 1000; break;
		case 8: { uint64_t a = 1; for (int i = 0; i < 60; i++) { ll[rnd() % 286] = a; a = a * 2 + 1; if (a > (1ull << 43)) a = 1; } for (int i = 0; i < 30; i++) dd[i] = 1ull << i; } break;
		default: for (int i = 0; i < 286; i++) ll[i] = rnd() % (1ull << (rnd() % 44)); for (int i = 0; i < 30; i++) dd[i] = rnd() % (1ull << (rnd() % 44)); break;
		}
		for (int variant = 0; variant < 2; variant++) {
			struct isal_hufftables *ht = malloc(sizeof *ht); memset(ht, 0xEE, sizeof *ht);
			int r = variant ? isal_create_hufftables_subset(ht, h) : isal_create_hufftables(ht, h);
			if (r) { printf("CREATE FAIL it=%d kind=%d variant=%d r=%d\n", it, kind, variant, r); bad++; continue; }
			/* data: for subset use only literals with nonzero count (or all if full) */
			int n = 1 + rnd() % 60000; uint8_t *in = malloc(n); uint8_t allowed[256]; int na = 0; for (int i = 0; i < 256; i++) if (!variant || ll[i]) allowed[na++] = i; if (na == 0) { free(in); free(ht); continue; }
			int mode = rnd() % 3; for (int i = 0; i < n; i++) in[i] = allowed[mode == 0 ? rnd() % na : mode == 1 ? (i / 7) % na : (i > 500 && (i % 300) < 200 ? 0 : rnd() % na)]; if (mode == 2) for (int i = 500; i < n; i++) if ((i % 300) < 200) in[i] = in[i - 300];
			for (int stream_mode = 0; stream_mode < 2; stream_mode++) {
				cases++; struct isal_zstream s; isal_deflate_init(&s); if (isal_deflate_set_hufftables(&s, ht, IGZIP_HUFFTABLE_CUSTOM)) { printf("SET FAIL\n"); bad++; }
				size_t cap = 3 * (size_t) n + 100000; uint8_t *out = malloc(cap); size_t op = 0;
				if (stream_mode == 0) { isal_deflate_stateless_init(&s); s.hufftables = ht; s.next_in = in; s.avail_in = n; s.next_out = out; s.avail_out = cap; int rc = isal_deflate_stateless(&s); if (rc) { printf("STATELESS rc=%d\n", rc); bad++; } op = s.total_out; }
				else { int ip = 0; s.next_out = out; s.avail_out = cap; while (s.internal_state.state != ZSTATE_END) { int c = 1 + rnd() % 20000; if (c > n - ip) c = n - ip; s.next_in = in + ip; s.avail_in = c; ip += c; s.end_of_stream = ip == n; s.flush = rnd() % 3; isal_deflate(&s); if (s.avail_out == 0) { printf("out of space\n"); break; } } op = s.total_out; }
				uint8_t *back = malloc(n + 1); rinf_t rr = { 0 }; rr.in = out; rr.inlen = op; rr.out = back; rr.outcap = n + 1; int d = rinflate(&rr);
				uLongf bl = n + 1; z_stream z = { 0 }; inflateInit2(&z, -15); z.next_in = out; z.avail_in = op; uint8_t *back2 = malloc(n + 1); z.next_out = back2; z.avail_out = n + 1; int zr = inflate(&z, Z_FINISH); (void) bl;
				if (d != 0 || rr.outlen != (size_t) n || memcmp(back, in, n) || zr != Z_STREAM_END || z.total_out != (uLong) n || memcmp(back2, in, n)) { printf("ROUNDTRIP BAD it=%d kind=%d variant=%d stream=%d n=%d d=%d err=%d %s zr=%d %s\n", it, kind, variant, stream_mode, n, d, rr.err, rr.msg ? rr.msg : "", zr, z.msg ? z.msg : ""); bad++; }
				inflateEnd(&z); free(back); free(back2); free(out);
			}
			free(in); free(ht);
		}
		free(h);
	}
	printf("iters=%d cases=%ld bad=%ld\n", iters, cases, bad);
	return 0;
}
