#define _GNU_SOURCE
#include <signal.h>
#include <stdio.h>
#include <stdint.h>
#include <string.h>
#include <ucontext.h>
#include <stdlib.h>
static volatile int tracing; static uint64_t lo, hi; static uint8_t *hit; static long nsteps;
static void on_trap(int sig, siginfo_t *si, void *uc_) { ucontext_t *uc = uc_; greg_t *g = uc->uc_mcontext.gregs; uint64_t ip = g[REG_RIP]; nsteps++; if (ip >= lo && ip < hi) hit[ip - lo] = 1; if (!tracing) g[REG_EFL] &= ~0x100; }
#define TF_ON() do { tracing = 1; __asm__ volatile("pushfq; orq $0x100,(%%rsp); popfq" ::: "memory", "cc"); } while (0)
#define TF_OFF() do { tracing = 0; __asm__ volatile("pushfq; andq $~0x100,(%%rsp); popfq" ::: "memory", "cc"); } while (0)
extern uint64_t crc64_ecma_refl_by8(uint64_t, const uint8_t *, uint64_t), crc64_ecma_refl_by16_10(uint64_t, const uint8_t *, uint64_t), crc64_ecma_refl_base(uint64_t, const uint8_t *, uint64_t);
extern void gf_5vect_dot_prod_avx2(int, int, unsigned char *, unsigned char **, unsigned char **);
extern void ec_init_tables_base(int, int, unsigned char *, unsigned char *);
extern char __executable_start, etext;
int main(int argc, char **argv)
{
	struct sigaction sa; memset(&sa, 0, sizeof sa); sa.sa_sigaction = on_trap; sa.sa_flags = SA_SIGINFO; sigaction(SIGTRAP, &sa, 0);
	lo = (uint64_t) &__executable_start; hi = (uint64_t) &etext; hit = calloc(1, hi - lo);
	static uint8_t buf[4096 + 64]; for (int i = 0; i < 4160; i++) buf[i] = i * 7;
	int which = argc > 1 ? atoi(argv[1]) : 0; static const int lens[] = { 0, 1, 2, 3, 4, 7, 8, 9, 15, 16, 17, 31, 32, 33, 47, 48, 63, 64, 65, 127, 128, 129, 255, 256, 257, 300, 511, 512, 1000, 4096 };
	volatile uint64_t sink = 0;
	if (which < 3) { uint64_t (*f)(uint64_t, const uint8_t *, uint64_t) = which == 0 ? crc64_ecma_refl_by8 : which == 1 ? crc64_ecma_refl_by16_10 : crc64_ecma_refl_base; for (unsigned i = 0; i < sizeof lens / sizeof lens[0]; i++) { TF_ON(); sink += f(0, buf + 3, lens[i]); TF_OFF(); } }
	else { uint8_t coef[5 * 3], tb[32 * 15], *src[3] = { buf, buf + 1400, buf + 2800 }, d[5][600], *dst[5]; for (int i = 0; i < 15; i++) coef[i] = i * 11 + 1; for (int i = 0; i < 5; i++) dst[i] = d[i]; ec_init_tables_base(3, 5, coef, tb); for (unsigned i = 0; i < 24; i++) { if (lens[i] < 32) continue; TF_ON(); gf_5vect_dot_prod_avx2(lens[i], 3, tb, src, dst); TF_OFF(); } }
	FILE *o = fopen("hits.txt", "w"); long nh = 0; for (uint64_t a = 0; a < hi - lo; a++) if (hit[a]) { fprintf(o, "%lx\n", lo + a); nh++; } fclose(o); fprintf(stderr, "steps=%ld distinct_rips=%ld sink=%lx\n", nsteps, nh, (unsigned long) sink); return 0;
}
