#define _GNU_SOURCE
#include <signal.h>
#include <stdio.h>
#include <stdint.h>
#include <string.h>
#include <ucontext.h>
#include <stdlib.h>
#include <zlib.h>
#include "igzip_lib.h"
#include "entries.h"
static volatile int tracing;
static struct { uint32_t l1_eax, l1_ecx, l1_edx, l7_ebx, l7_ecx, xcr0; } sim;
static void on_trap(int sig, siginfo_t *si, void *uc_)
{
	ucontext_t *uc = uc_; greg_t *g = uc->uc_mcontext.gregs;
	for (;;) { uint8_t *ip = (uint8_t *) g[REG_RIP];
		if (ip[0] == 0x0f && ip[1] == 0xa2) { uint32_t leaf = g[REG_RAX], sub = g[REG_RCX], a = 0, b = 0, c = 0, d = 0; if (leaf == 0) a = 7; else if (leaf == 1) { a = sim.l1_eax; c = sim.l1_ecx; d = sim.l1_edx; } else if (leaf == 7 && sub == 0) { b = sim.l7_ebx; c = sim.l7_ecx; } g[REG_RAX] = a; g[REG_RBX] = b; g[REG_RCX] = c; g[REG_RDX] = d; g[REG_RIP] += 2; continue; }
		if (ip[0] == 0x0f && ip[1] == 0x01 && ip[2] == 0xd0) { g[REG_RAX] = sim.xcr0; g[REG_RDX] = 0; g[REG_RIP] += 3; continue; }
		break; }
	if (!tracing) g[REG_EFL] &= ~0x100;
}
static void run_traced(void (*fn)(void)) { tracing = 1; __asm__ volatile("pushfq; orq $0x100,(%%rsp); popfq" ::: "memory", "cc"); fn(); tracing = 0; __asm__ volatile("pushfq; andq $~0x100,(%%rsp); popfq" ::: "memory", "cc"); }
static void **slots[64]; static void *mbinits[64];
static void apply(void) { int nent = sizeof ENT / sizeof ENT[0]; for (int e = 0; e < nent; e++) { if (!slots[e]) { uint8_t *st = (uint8_t *) ENT[e].f; int32_t disp; memcpy(&disp, st + 6, 4); slots[e] = (void **) (st + 10 + disp); mbinits[e] = *slots[e]; } *slots[e] = mbinits[e]; uint8_t *mb = mbinits[e]; int32_t rel; memcpy(&rel, mb + 5, 4); run_traced((void (*)(void)) (mb + 9 + rel)); } }
#define B(x) (1u << (x))
static uint64_t rs = 88172645463325252ull;
static uint32_t rnd(void) { rs ^= rs << 13; rs ^= rs >> 7; rs ^= rs << 17; return rs >> 11; }
static const int ins[] = { 1, 2, 3, 7, 8, 9, 15, 16, 17, 31, 33, 255, 257, 288, 289, 1000, 32767, 32768, 32769, 65535, 65536, 100000 };
static const int outs[] = { 1, 1, 2, 3, 7, 8, 9, 15, 16, 17, 64, 223, 224, 225, 327, 328, 329, 5000, 100000 };
int main(int argc, char **argv)
{
	struct sigaction sa; memset(&sa, 0, sizeof sa); sa.sa_sigaction = on_trap; sa.sa_flags = SA_SIGINFO; sigaction(SIGTRAP, &sa, 0);
	int iters = argc > 1 ? atoi(argv[1]) : 300; if (argc > 2) rs = strtoull(argv[2], 0, 0);
	uint32_t SSE = B(0) | B(9) | B(19) | B(20) | B(23), CLMUL = B(1), OSX = B(27), AVX = B(28), AVX2 = B(5), G1 = B(16) | B(17) | B(28) | B(30) | B(31), G2 = B(6) | B(8) | B(9) | B(10) | B(11) | B(12) | B(14);
	struct { const char *n; uint32_t c1, b7, c7, x; } L[] = { { "base", 0, 0, 0, 0 }, { "sse", SSE | CLMUL, 0, 0, 0 }, { "avx", SSE | CLMUL | OSX | AVX, 0, 0, 7 }, { "avx2", SSE | CLMUL | OSX | AVX, AVX2, 0, 7 }, { "avx512", SSE | CLMUL | OSX | AVX, AVX2 | G1, 0, 0xe7 }, { "avx512+g2", SSE | CLMUL | OSX | AVX, AVX2 | G1, G2, 0xe7 } };
	for (unsigned l = 0; l < sizeof L / sizeof L[0]; l++) {
		sim.l1_eax = 0x306a9; sim.l1_ecx = L[l].c1; sim.l1_edx = B(25) | B(26); sim.l7_ebx = L[l].b7; sim.l7_ecx = L[l].c7; sim.xcr0 = L[l].x; apply();
		long bad = 0, calls = 0, streams = 0;
		for (int it = 0; it < iters; it++) {
			int n = (rnd() % 4 == 0) ? rnd() % 300 : rnd() % 200000; uint8_t *in = malloc(n + 1);
			int mode = rnd() % 4; for (int i = 0; i < n; i++) in[i] = mode == 0 ? rnd() : mode == 1 ? "abcdefgh"[rnd() % 3] : mode == 2 ? (i % 977 < 300 ? in[i > 977 ? i - 977 : 0] : rnd() % 7) : 0;
			int lvl = rnd() % 4, wrap = rnd() % 5; size_t cap = 3 * (size_t) n + 70000; uint8_t *out = malloc(cap); size_t op = 0;
			struct isal_zstream s; memset(&s, rnd(), sizeof s); isal_deflate_init(&s);
			static const int lbs[4][3] = { {0,0,0}, {ISAL_DEF_LVL1_MIN, ISAL_DEF_LVL1_DEFAULT, ISAL_DEF_LVL1_MIN + 13}, {ISAL_DEF_LVL2_MIN, ISAL_DEF_LVL2_DEFAULT, ISAL_DEF_LVL2_MIN + 13}, {ISAL_DEF_LVL3_MIN, ISAL_DEF_LVL3_DEFAULT, ISAL_DEF_LVL3_MIN + 13} };
			uint32_t lbsz = lbs[lvl][rnd() % 3]; uint8_t *lb = lvl ? malloc(lbsz) : 0; if (lvl) memset(lb, rnd(), lbsz);
			int oneshot = rnd() % 3 == 0; int fail = 0; int hb = (rnd() % 3 == 0) ? 9 + rnd() % 7 : 0;
			if (oneshot) { isal_deflate_stateless_init(&s); s.level = lvl; s.level_buf = lb; s.level_buf_size = lbsz; s.gzip_flag = wrap; s.hist_bits = hb; s.next_in = in; s.avail_in = n; s.next_out = out; s.avail_out = cap; int r = isal_deflate_stateless(&s); if (r) { printf("stateless r=%d\n", r); fail = 1; } op = s.total_out; }
			else { s.level = lvl; s.level_buf = lb; s.level_buf_size = lbsz; s.gzip_flag = wrap; s.hist_bits = hb; int ip = 0, steps = 0; int flushing = 0; uint8_t obuf[100001]; s.avail_in = 0; s.avail_out = 0; int pend = 0;
				while (s.internal_state.state != ZSTATE_END) { if (++steps > 400000 + 4 * n) { printf("HANG\n"); fail = 1; break; }
					if (s.avail_in == 0 && !flushing) { int c = ins[rnd() % (sizeof ins / sizeof ins[0])]; if (c > n - ip) c = n - ip; s.next_in = in + ip; s.avail_in = c; ip += c; s.end_of_stream = (ip == n); s.flush = (rnd() % 4 == 0) ? rnd() % 3 : NO_FLUSH; if (s.flush != NO_FLUSH) flushing = 1; }
					if (s.avail_out == 0) { int c = outs[rnd() % (sizeof outs / sizeof outs[0])]; s.next_out = obuf; s.avail_out = c; pend = c; }
					uint32_t ao = s.avail_out; int r = isal_deflate(&s); calls++; if (r) { printf("ERR %d\n", r); fail = 1; break; }
					size_t prod = ao - s.avail_out; memcpy(out + op, obuf + (pend - ao), prod); op += prod;
					if (flushing && s.avail_in == 0 && s.avail_out > 0) flushing = 0; /* flush completed */
					if (s.avail_out > 0 && rnd() % 2) s.avail_out = 0; }
			}
			streams++;
			if (!fail) { uint8_t *back = malloc(n + 1); z_stream z = { 0 }; int wb = wrap == 0 ? -15 : (wrap == 1 ? 31 : (wrap == 3 ? 15 : -15)); inflateInit2(&z, wb); z.next_in = out; z.avail_in = op; z.next_out = back; z.avail_out = n + 1; int zr = inflate(&z, Z_FINISH); size_t trailer = (wrap == 2) ? 8 : (wrap == 4 ? 4 : 0);
				if (zr != Z_STREAM_END || z.total_out != (uLong) n || memcmp(back, in, n) || z.avail_in != trailer) { printf("BAD level=%s it=%d lvl=%d wrap=%d n=%d oneshot=%d zr=%d %s\n", L[l].n, it, lvl, wrap, n, oneshot, zr, z.msg ? z.msg : ""); bad++; }
				else if (trailer == 8) { uint32_t c, len; memcpy(&c, out + op - 8, 4); memcpy(&len, out + op - 4, 4); if (c != crc32(0, in, n) || len != (uint32_t) n) { printf("TRAILER BAD\n"); bad++; } } else if (trailer == 4) { uint32_t a = (uint32_t) out[op - 4] << 24 | out[op - 3] << 16 | out[op - 2] << 8 | out[op - 1]; if (a != adler32(1, in, n)) { printf("ADLER TRAILER BAD\n"); bad++; } }
				inflateEnd(&z); free(back); } else bad++;
			free(in); free(out); free(lb);
		}
		uint8_t *stb = (uint8_t *) ent_isal_deflate_body; int32_t dd; memcpy(&dd, stb + 6, 4); void **sl = (void **) (stb + 10 + dd);
		printf("level %-10s streams=%ld calls=%ld bad=%ld (deflate_body slot=%p)\n", L[l].n, streams, calls, bad, *sl);
	}
	return 0;
}
