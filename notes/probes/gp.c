#define _GNU_SOURCE
#include <stdio.h>
#include <stdlib.h>
#include <string.h>
#include <stdint.h>
#include <signal.h>
#include <setjmp.h>
#include <sys/mman.h>
#include "crc.h"
#include "crc64.h"
#include "erasure_code.h"
#include "raid.h"
#include "mem_routines.h"
#include "igzip_lib.h"
#define PG 4096
static sigjmp_buf jb; static volatile void *fault_addr;
static void segv(int s, siginfo_t *si, void *u) { fault_addr = si->si_addr; siglongjmp(jb, 1); }
/* region: [guard][npages data][guard] */
typedef struct { uint8_t *base; size_t np; } reg_t;
static reg_t mk(size_t np) { reg_t r; r.np = np; r.base = mmap(0, (np + 2) * PG, PROT_NONE, MAP_PRIVATE | MAP_ANONYMOUS, -1, 0); mprotect(r.base + PG, np * PG, PROT_READ | PROT_WRITE); memset(r.base + PG, 0x5a, np * PG); return r; }
static uint8_t *end_place(reg_t r, size_t len) { return r.base + PG + r.np * PG - len; }
static uint8_t *start_place(reg_t r) { return r.base + PG; }
static long nviol, ncalls;
#define TRY(name, len, place, call) do { ncalls++; fault_addr = 0; if (sigsetjmp(jb, 1) == 0) { call; } else { nviol++; if (nviol < 40) printf("FAULT %s len=%d place=%s addr=%p\n", name, (int)(len), place, (void*)fault_addr); } } while (0)

typedef uint32_t (*crc32f)(uint32_t, const unsigned char *, uint64_t);
typedef uint16_t (*crc16f)(uint16_t, const unsigned char *, uint64_t);
typedef uint64_t (*crc64f)(uint64_t, const unsigned char *, uint64_t);
#define D32(n) extern uint32_t n(uint32_t, const unsigned char *, uint64_t);
#define D16(n) extern uint16_t n(uint16_t, const unsigned char *, uint64_t);
#define D64(n) extern uint64_t n(uint64_t, const unsigned char *, uint64_t);
D32(crc32_ieee_01) D32(crc32_ieee_02) D32(crc32_ieee_by4) D32(crc32_ieee_by16_10) D32(crc32_gzip_refl_by8) D32(crc32_gzip_refl_by8_02) D32(crc32_gzip_refl_by16_10)
D16(crc16_t10dif_01) D16(crc16_t10dif_02) D16(crc16_t10dif_by4) D16(crc16_t10dif_by16_10)
D32(adler32_sse) D32(adler32_avx2_4) D32(adler32_base)
extern unsigned int crc32_iscsi_00(unsigned char *, int, unsigned int), crc32_iscsi_01(unsigned char *, int, unsigned int), crc32_iscsi_by16_10(unsigned char *, int, unsigned int);
#define C64(p) D64(crc64_##p##_refl_by8) D64(crc64_##p##_norm_by8) D64(crc64_##p##_refl_by16_10) D64(crc64_##p##_norm_by16_10)
C64(ecma) C64(iso) C64(jones) C64(rocksoft)
extern int mem_zero_detect_sse(void *, size_t), mem_zero_detect_avx(void *, size_t), mem_zero_detect_avx2(void *, size_t), mem_zero_detect_avx512(void *, size_t), mem_zero_detect_base(void *, size_t);
extern uint16_t crc16_t10dif_copy_by4(uint16_t, uint8_t *, uint8_t *, uint64_t), crc16_t10dif_copy_by4_02(uint16_t, uint8_t *, uint8_t *, uint64_t);

int main(void)
{
	struct sigaction sa = { 0 }; sa.sa_sigaction = segv; sa.sa_flags = SA_SIGINFO | SA_NODEFER; sigaction(SIGSEGV, &sa, 0); sigaction(SIGBUS, &sa, 0);
	reg_t r = mk(4), r2 = mk(4);
	struct { const char *n; crc32f f; } c32[] = { {"crc32_ieee_01", crc32_ieee_01}, {"crc32_ieee_02", crc32_ieee_02}, {"crc32_ieee_by4", crc32_ieee_by4}, {"crc32_ieee_by16_10", crc32_ieee_by16_10}, {"crc32_gzip_refl_by8", crc32_gzip_refl_by8}, {"crc32_gzip_refl_by8_02", crc32_gzip_refl_by8_02}, {"crc32_gzip_refl_by16_10", crc32_gzip_refl_by16_10}, {"adler32_sse", adler32_sse}, {"adler32_avx2_4", adler32_avx2_4}, {"adler32_base", adler32_base} };
	struct { const char *n; crc16f f; } c16[] = { {"crc16_t10dif_01", crc16_t10dif_01}, {"crc16_t10dif_02", crc16_t10dif_02}, {"crc16_t10dif_by4", crc16_t10dif_by4}, {"crc16_t10dif_by16_10", crc16_t10dif_by16_10} };
#define E64(p) {"crc64_" #p "_refl_by8", crc64_##p##_refl_by8}, {"crc64_" #p "_norm_by8", crc64_##p##_norm_by8}, {"crc64_" #p "_refl_by16_10", crc64_##p##_refl_by16_10}, {"crc64_" #p "_norm_by16_10", crc64_##p##_norm_by16_10}
	struct { const char *n; crc64f f; } c64[] = { E64(ecma), E64(iso), E64(jones), E64(rocksoft) };
	struct { const char *n; int (*f)(void *, size_t); } zd[] = { {"mem_zero_detect_base", mem_zero_detect_base}, {"mem_zero_detect_sse", mem_zero_detect_sse}, {"mem_zero_detect_avx", mem_zero_detect_avx}, {"mem_zero_detect_avx2", mem_zero_detect_avx2}, {"mem_zero_detect_avx512", mem_zero_detect_avx512} };
	volatile uint64_t sink = 0;
	for (int len = 0; len <= 1100; len++) {
		uint8_t *pe = end_place(r, len), *ps = start_place(r);
		for (unsigned i = 0; i < sizeof c32 / sizeof c32[0]; i++) { TRY(c32[i].n, len, "END", sink += c32[i].f(1, pe, len)); TRY(c32[i].n, len, "START", sink += c32[i].f(1, ps, len)); }
		for (unsigned i = 0; i < sizeof c16 / sizeof c16[0]; i++) { TRY(c16[i].n, len, "END", sink += c16[i].f(1, pe, len)); TRY(c16[i].n, len, "START", sink += c16[i].f(1, ps, len)); }
		for (unsigned i = 0; i < sizeof c64 / sizeof c64[0]; i++) { TRY(c64[i].n, len, "END", sink += c64[i].f(1, pe, len)); TRY(c64[i].n, len, "START", sink += c64[i].f(1, ps, len)); }
		TRY("crc32_iscsi_00", len, "END", sink += crc32_iscsi_00(pe, len, 1)); TRY("crc32_iscsi_00", len, "START", sink += crc32_iscsi_00(ps, len, 1));
		TRY("crc32_iscsi_01", len, "END", sink += crc32_iscsi_01(pe, len, 1)); TRY("crc32_iscsi_01", len, "START", sink += crc32_iscsi_01(ps, len, 1));
		TRY("crc32_iscsi_by16_10", len, "END", sink += crc32_iscsi_by16_10(pe, len, 1)); TRY("crc32_iscsi_by16_10", len, "START", sink += crc32_iscsi_by16_10(ps, len, 1));
		memset(r.base + PG, 0, 4 * PG);
		for (unsigned i = 0; i < sizeof zd / sizeof zd[0]; i++) { TRY(zd[i].n, len, "END", sink += zd[i].f(pe, len)); TRY(zd[i].n, len, "START", sink += zd[i].f(ps, len)); }
		memset(r.base + PG, 0x5a, 4 * PG);
		TRY("crc16_t10dif_copy_by4", len, "END/END", sink += crc16_t10dif_copy_by4(1, end_place(r2, len), pe, len));
		TRY("crc16_t10dif_copy_by4", len, "START/START", sink += crc16_t10dif_copy_by4(1, start_place(r2), ps, len));
		TRY("crc16_t10dif_copy_by4_02", len, "END/END", sink += crc16_t10dif_copy_by4_02(1, end_place(r2, len), pe, len));
		TRY("crc16_t10dif_copy_by4_02", len, "START/START", sink += crc16_t10dif_copy_by4_02(1, start_place(r2), ps, len));
	}
	printf("calls=%ld faults=%ld\n", ncalls, nviol);
	return 0;
}
