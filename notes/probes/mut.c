#define _GNU_SOURCE
#include <stdio.h>
#include <stdlib.h>
#include <signal.h>
#include <setjmp.h>
#include <sys/mman.h>
#include "rinf.h"
#include <zlib.h>
#include "igzip_lib.h"
static uint64_t rs = 88172645463325252ull;
static uint32_t rnd(void) { rs ^= rs << 13; rs ^= rs >> 7; rs ^= rs << 17; return rs >> 11; }
static sigjmp_buf jb; static void segv(int s, siginfo_t *si, void *u) { siglongjmp(jb, 1); }
/* reference wrapper decode: returns 0 ok (complete incl trailer per mode), else nonzero. mode: isal crc_flag */
static int ref_decode(int flag, const uint8_t *in, size_t len, uint8_t *out, size_t cap, size_t *outlen, size_t *consumed)
{
	size_t p = 0; int gz = (flag == ISAL_GZIP), zl = (flag == ISAL_ZLIB);
	if (gz) { if (len < 10 || in[0] != 0x1f || in[1] != 0x8b || in[2] != 8) return 100; int f = in[3]; p = 10; if (f & 4) { if (p + 2 > len) return 101; size_t xl = in[p] | in[p + 1] << 8; p += 2 + xl; if (p > len) return 101; } if (f & 8) { while (p < len && in[p]) p++; if (p >= len) return 101; p++; } if (f & 16) { while (p < len && in[p]) p++; if (p >= len) return 101; p++; } if (f & 2) { if (p + 2 > len) return 101; uint32_t c = crc32(0, in, p); if ((c & 0xffff) != (uint32_t) (in[p] | in[p + 1] << 8)) return 102; p += 2; } }
	if (zl) { if (len < 2) return 101; if ((in[0] & 15) != 8) return 103; if ((in[0] * 256 + in[1]) % 31) return 104; if (in[1] & 32) return 105; p = 2; }
	rinf_t r = { 0 }; r.in = in + p; r.inlen = len - p; r.out = out; r.outcap = cap; int d = rinflate(&r); *outlen = r.outlen; if (d != 0) return 200 + r.err;
	p += (r.end_bit + 7) / 8;
	int ver_gz = flag == ISAL_GZIP || flag == ISAL_GZIP_NO_HDR_VER, ver_zl = flag == ISAL_ZLIB || flag == ISAL_ZLIB_NO_HDR_VER;
	if (ver_gz) { if (p + 8 > len) return 300; uint32_t c = in[p] | in[p + 1] << 8 | in[p + 2] << 16 | (uint32_t) in[p + 3] << 24, l = in[p + 4] | in[p + 5] << 8 | in[p + 6] << 16 | (uint32_t) in[p + 7] << 24; if (c != crc32(0, out, r.outlen) || l != (uint32_t) r.outlen) return 301; p += 8; }
	if (ver_zl) { if (p + 4 > len) return 300; uint32_t a = (uint32_t) in[p] << 24 | in[p + 1] << 16 | in[p + 2] << 8 | in[p + 3]; if (a != adler32(1, out, r.outlen)) return 301; p += 4; }
	*consumed = p; return 0;
}
int main(int argc, char **argv)
{
	int iters = argc > 1 ? atoi(argv[1]) : 200; if (argc > 2) rs = strtoull(argv[2], 0, 0);
	struct sigaction sa = { 0 }; sa.sa_sigaction = segv; sa.sa_flags = SA_SIGINFO | SA_NODEFER; sigaction(SIGSEGV, &sa, 0);
	long cases = 0, bad = 0, succ = 0, rej = 0, crash = 0; long codes[16] = { 0 };
	size_t RSZ = 4 << 20; uint8_t *ireg = mmap(0, RSZ + 4096, PROT_READ | PROT_WRITE, MAP_PRIVATE | MAP_ANONYMOUS, -1, 0); mprotect(ireg + RSZ, 4096, PROT_NONE);
	uint8_t *oreg = mmap(0, RSZ + 4096, PROT_READ | PROT_WRITE, MAP_PRIVATE | MAP_ANONYMOUS, -1, 0); mprotect(oreg + RSZ, 4096, PROT_NONE);
	for (int it = 0; it < iters; it++) {
		int n = rnd() % 3000; uint8_t in[3000]; int mode = rnd() % 3; for (int i = 0; i < n; i++) in[i] = mode == 0 ? rnd() : mode == 1 ? "abcd"[rnd() % 4] : (i > 100 && i % 50 < 30 ? in[i - 50] : rnd() % 9);
		int wrap = rnd() % 3; z_stream z = { 0 }; deflateInit2(&z, rnd() % 10, Z_DEFLATED, wrap == 0 ? -15 : wrap == 1 ? 31 : 15, 8, rnd() % 5);
		uint8_t cmp[8000]; z.next_out = cmp; z.avail_out = sizeof cmp; int ip = 0; while (ip < n) { int c = 1 + rnd() % 1500; if (c > n - ip) c = n - ip; z.next_in = in + ip; z.avail_in = c; ip += c; deflate(&z, rnd() % 3 == 0 ? Z_FULL_FLUSH : Z_NO_FLUSH); } deflate(&z, Z_FINISH); size_t clen = z.total_out; deflateEnd(&z);
		int flags[3]; int nf = 0; if (wrap == 0) flags[nf++] = ISAL_DEFLATE; if (wrap == 1) { flags[nf++] = ISAL_GZIP; } if (wrap == 2) { flags[nf++] = ISAL_ZLIB; }
		/* also NO_HDR(_VER) on the deflate+trailer part */
		for (int m = 0; m < 40; m++) {
			uint8_t mc[8000]; memcpy(mc, cmp, clen); size_t mlen = clen; int kind = rnd() % 4;
			if (kind == 0) { size_t bit = rnd() % (clen * 8); mc[bit / 8] ^= 1 << (bit % 8); } else if (kind == 1) { mc[rnd() % clen] = rnd(); } else if (kind == 2) { mlen = rnd() % clen; } else { size_t bit = rnd() % (clen * 8); mc[bit / 8] ^= 1 << (bit % 8); bit = rnd() % (clen * 8); mc[bit / 8] ^= 1 << (bit % 8); }
			int flag = flags[0]; size_t skip = 0; if (wrap == 1 && rnd() % 2) { flag = rnd() % 2 ? ISAL_GZIP_NO_HDR_VER : ISAL_GZIP_NO_HDR; skip = 10; } if (wrap == 2 && rnd() % 2) { flag = rnd() % 2 ? ISAL_ZLIB_NO_HDR_VER : ISAL_ZLIB_NO_HDR; skip = 2; } if (skip > mlen) continue;
			uint8_t refout[70000]; size_t reflen = 0, refcons = 0; int rd = ref_decode(flag, mc + skip, mlen - skip, refout, sizeof refout, &reflen, &refcons);
			for (int api = 0; api < 2; api++) {
				cases++; size_t il = mlen - skip; uint8_t *ip2 = ireg + RSZ - il; memcpy(ip2, mc + skip, il);
				size_t ocap = (rnd() % 4 == 0) ? rnd() % 4000 : 66000; uint8_t *op = oreg + RSZ - ocap;
				struct inflate_state st; memset(&st, rnd(), sizeof st); isal_inflate_init(&st); st.crc_flag = flag; st.next_in = ip2; st.avail_in = il; st.next_out = op; st.avail_out = ocap; int ret = 0; size_t got = 0;
				if (sigsetjmp(jb, 1)) { printf("CRASH it=%d m=%d api=%d flag=%d\n", it, m, api, flag); crash++; bad++; continue; }
				if (api == 0) { ret = isal_inflate_stateless(&st); got = st.total_out; }
				else { int steps = 0; while (st.block_state != ISAL_BLOCK_FINISH) { uint32_t ai = st.avail_in, ao = st.avail_out; int b0 = st.block_state; ret = isal_inflate(&st); if (ret) break; if (++steps > 100000) { printf("HANG\n"); bad++; break; } if (ai == st.avail_in && ao == st.avail_out && b0 == (int) st.block_state) break; } got = st.total_out; }
				if (ret < -6 || ret > 6) { printf("UNDOC RET %d\n", ret); bad++; }
				codes[ret + 6]++;
				int fin = (st.block_state == ISAL_BLOCK_FINISH && ret == 0);
				if (fin) { succ++; if (rd != 0) { printf("FALSE SUCCESS it=%d m=%d kind=%d api=%d flag=%d refcode=%d got=%zu\n", it, m, kind, api, flag, rd, got); bad++; } else if (got != reflen || memcmp(op, refout, got)) { printf("OUTPUT DIFF it=%d m=%d api=%d got=%zu ref=%zu\n", it, m, api, got, reflen); bad++; } }
				else { rej++; if (rd == 0 && ocap >= reflen && ret != ISAL_OUT_OVERFLOW) { /* reference accepts: ISA-L must too (valid stream) unless output too small */ printf("REJECTED VALID it=%d m=%d kind=%d api=%d flag=%d ret=%d bs=%d ocap=%zu reflen=%zu\n", it, m, kind, api, flag, ret, st.block_state, ocap, reflen); bad++; } }
			}
		}
	}
	printf("iters=%d cases=%ld success=%ld rejected=%ld crash=%ld bad=%ld codes(-6..6):", iters, cases, succ, rej, crash, bad); for (int i = 0; i < 13; i++) printf(" %ld", codes[i]); printf("\n");
	return 0;
}
