#define _GNU_SOURCE
#include <stdio.h>
#include <stdlib.h>
#include <string.h>
#include <stdint.h>
#include <signal.h>
#include <setjmp.h>
#include <sys/mman.h>
#include <zlib.h>
#include "igzip_lib.h"
static uint64_t rs = 88172645463325252ull;
static uint32_t rnd(void) { rs ^= rs << 13; rs ^= rs >> 7; rs ^= rs << 17; return rs >> 11; }
static sigjmp_buf jb; static volatile void *fa; static void segv(int s, siginfo_t *si, void *u) { fa = si->si_addr; siglongjmp(jb, 1); }
#define PG 4096
static uint8_t *region(size_t len, int start, uint8_t **base, size_t *maplen) { size_t np = (len + PG - 1) / PG + 1; *maplen = (np + 2) * PG; uint8_t *m = mmap(0, *maplen, PROT_NONE, MAP_PRIVATE | MAP_ANONYMOUS, -1, 0); mprotect(m + PG, np * PG, PROT_READ | PROT_WRITE); *base = m; return start ? m + PG : m + PG + np * PG - len; }
int main(int argc, char **argv)
{
	int iters = argc > 1 ? atoi(argv[1]) : 2000; if (argc > 2) rs = strtoull(argv[2], 0, 0); int force_lvl = argc > 3 ? atoi(argv[3]) : -1;
	struct sigaction sa = { 0 }; sa.sa_sigaction = segv; sa.sa_flags = SA_SIGINFO | SA_NODEFER; sigaction(SIGSEGV, &sa, 0); long faults = 0, bad = 0, calls = 0; long perlvl[4] = { 0 };
	for (int it = 0; it < iters; it++) {
		int n = rnd() % 3 ? rnd() % 2000 : rnd() % 200000; uint8_t *in = malloc(n + 1); int mode = rnd() % 3; for (int i = 0; i < n; i++) in[i] = mode == 0 ? rnd() : mode == 1 ? "abcdefgh"[rnd() % 3] : (i >= 977 && i % 977 < 300 ? in[i - 977] : rnd() % 7);
		int lvl = force_lvl >= 0 ? force_lvl : rnd() % 4, wrap = rnd() % 5, hb = rnd() % 2 ? 0 : 9 + rnd() % 7; uint32_t lbsz = lvl == 0 ? 0 : lvl == 1 ? ISAL_DEF_LVL1_MIN : lvl == 2 ? ISAL_DEF_LVL2_MIN : ISAL_DEF_LVL3_MIN; if (lvl && rnd() % 2) lbsz += rnd() % 70000;
		uint8_t *cb, *lbb = 0; size_t cl, ll = 0; int cstart = rnd() % 2, lstart = rnd() % 2; struct isal_zstream *s = (void *) region(sizeof *s, cstart, &cb, &cl); if (!cstart) s = (void *) ((uintptr_t) s & ~7ul); uint8_t *lb = lvl ? region(lbsz, lstart, &lbb, &ll) : 0;
		int pat = rnd(); memset(s, pat, sizeof *s); if (lb) { for (uint32_t i = 0; i < lbsz; i++) lb[i] = (pat & 1) ? rnd() : pat; }
		size_t cap = 3 * (size_t) n + 70000; uint8_t *out = malloc(cap); int fail = 0;
		if (sigsetjmp(jb, 1)) { printf("FAULT it=%d lvl=%d wrap=%d n=%d ctx=%s lb=%s addr=%p ctx=[%p,%p) lb=[%p,%p)\n", it, lvl, wrap, n, cstart ? "START" : "END", lstart ? "START" : "END", (void *) fa, (void *) s, (void *) (s + 1), (void *) lb, (void *) (lb + lbsz)); faults++; perlvl[lvl]++; fail = 1; }
		else { isal_deflate_init(s); s->level = lvl; s->level_buf = lb; s->level_buf_size = lbsz; s->gzip_flag = wrap; s->hist_bits = hb; int ip = 0; s->next_out = out; s->avail_out = cap; int fixedflush = rnd() % 3;
			while (s->internal_state.state != ZSTATE_END) { int c = 1 + rnd() % (rnd() % 2 ? 300 : 70000); if (c > n - ip) c = n - ip; s->next_in = in + ip; s->avail_in = c; ip += c; s->end_of_stream = ip == n; s->flush = rnd() % 4 ? NO_FLUSH : fixedflush; calls++; if (isal_deflate(s)) { fail = 1; break; } if (s->avail_in) { printf("leftover?\n"); fail = 1; break; } } }
		if (!fail) { uint8_t *back = malloc(n + 1); z_stream z = { 0 }; int wb = wrap == 0 ? -15 : (wrap == 1 ? 31 : (wrap == 3 ? 15 : -15)); inflateInit2(&z, wb); z.next_in = out; z.avail_in = s->total_out; z.next_out = back; z.avail_out = n + 1; int zr = inflate(&z, Z_FINISH); if (zr != Z_STREAM_END || z.total_out != (uLong) n || memcmp(back, in, n)) { printf("BAD it=%d lvl=%d zr=%d\n", it, lvl, zr); bad++; } inflateEnd(&z); free(back); }
		munmap(cb, cl); if (lbb) munmap(lbb, ll); free(out); free(in);
	}
	printf("iters=%d calls=%ld faults=%ld (per level %ld %ld %ld %ld) bad=%ld\n", iters, calls, faults, perlvl[0], perlvl[1], perlvl[2], perlvl[3], bad);
	return 0;
}
