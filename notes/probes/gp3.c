#define _GNU_SOURCE
#include <stdio.h>
#include <stdlib.h>
#include <string.h>
#include <stdint.h>
#include <signal.h>
#include <setjmp.h>
#include <sys/mman.h>
#include "erasure_code.h"
#include "raid.h"
#define PG 4096
static sigjmp_buf jb; static volatile void *fault_addr;
static void segv(int s, siginfo_t *si, void *u) { fault_addr = si->si_addr; siglongjmp(jb, 1); }
typedef struct { uint8_t *base; size_t np; } reg_t;
static reg_t mk(size_t np) { reg_t r; r.np = np; r.base = mmap(0, (np + 2) * PG, PROT_NONE, MAP_PRIVATE | MAP_ANONYMOUS, -1, 0); mprotect(r.base + PG, np * PG, PROT_READ | PROT_WRITE); memset(r.base + PG, 0x5a, np * PG); return r; }
static uint8_t *endp(reg_t r, size_t len) { return r.base + PG + r.np * PG - len; }
static uint8_t *startp(reg_t r) { return r.base + PG; }
static long nviol, ncalls, nmis;
static uint8_t gmul(uint8_t a, uint8_t b){ uint8_t r=0; while(b){ if(b&1) r^=a; a=(a<<1)^((a&0x80)?0x1d:0); b>>=1;} return r; }
extern void ec_init_tables_gfni(int,int,unsigned char*,unsigned char*);
typedef void (*encf)(int,int,int,unsigned char*,unsigned char**,unsigned char**);
typedef void (*updf)(int,int,int,int,unsigned char*,unsigned char*,unsigned char**);
extern void ec_encode_data_avx512(int,int,int,unsigned char*,unsigned char**,unsigned char**), ec_encode_data_avx512_gfni(int,int,int,unsigned char*,unsigned char**,unsigned char**), ec_encode_data_avx2_gfni(int,int,int,unsigned char*,unsigned char**,unsigned char**);
extern void ec_encode_data_update_avx512(int,int,int,int,unsigned char*,unsigned char*,unsigned char**), ec_encode_data_update_avx512_gfni(int,int,int,int,unsigned char*,unsigned char*,unsigned char**), ec_encode_data_update_avx2_gfni(int,int,int,int,unsigned char*,unsigned char*,unsigned char**);
extern int xor_gen_sse(int,int,void**), xor_gen_avx(int,int,void**), xor_gen_avx512(int,int,void**), pq_gen_sse(int,int,void**), pq_gen_avx(int,int,void**), pq_gen_avx2(int,int,void**), pq_gen_avx512(int,int,void**), xor_check_sse(int,int,void**), pq_check_sse(int,int,void**);
extern int gf_vect_mul_sse(int, unsigned char*, void*, void*), gf_vect_mul_avx(int, unsigned char*, void*, void*);
int main(void)
{
	struct sigaction sa = { 0 }; sa.sa_sigaction = segv; sa.sa_flags = SA_SIGINFO | SA_NODEFER; sigaction(SIGSEGV, &sa, 0);
	enum { K = 4, R = 9 };
	reg_t src[K], dst[R], tb = mk(4); for (int i = 0; i < K; i++) src[i] = mk(2); for (int i = 0; i < R; i++) dst[i] = mk(2);
	uint8_t coef[R * K]; srand(9); for (int i = 0; i < R * K; i++) coef[i] = rand();
	struct { const char *n; encf f; int gfni; } E[] = { {"ec_encode_data_base", ec_encode_data_base, 0}, {"ec_encode_data_sse", ec_encode_data_sse, 0}, {"ec_encode_data_avx", ec_encode_data_avx, 0}, {"ec_encode_data_avx2", ec_encode_data_avx2, 0}, {"ec_encode_data_avx512", ec_encode_data_avx512, 0}, {"ec_encode_data_avx512_gfni", ec_encode_data_avx512_gfni, 1}, {"ec_encode_data_avx2_gfni", ec_encode_data_avx2_gfni, 1}, {"ec_encode_data", ec_encode_data, 2} };
	struct { const char *n; updf f; int gfni; } U[] = { {"ec_encode_data_update_base", ec_encode_data_update_base, 0}, {"ec_encode_data_update_sse", ec_encode_data_update_sse, 0}, {"ec_encode_data_update_avx", ec_encode_data_update_avx, 0}, {"ec_encode_data_update_avx2", ec_encode_data_update_avx2, 0}, {"ec_encode_data_update_avx512", ec_encode_data_update_avx512, 0}, {"ec_encode_data_update_avx512_gfni", ec_encode_data_update_avx512_gfni, 1}, {"ec_encode_data_update_avx2_gfni", ec_encode_data_update_avx2_gfni, 1}, {"ec_encode_data_update", ec_encode_data_update, 2} };
	for (int place = 0; place < 2; place++) for (int rows = 1; rows <= R; rows++) for (int len = 0; len <= 200; len += (len < 140 ? 1 : 7)) {
		uint8_t *s[K], *d[R];
		for (int i = 0; i < K; i++) { s[i] = place ? startp(src[i]) : endp(src[i], len); for (int j = 0; j < len; j++) s[i][j] = rand(); }
		for (int i = 0; i < R; i++) d[i] = place ? startp(dst[i]) : endp(dst[i], len);
		uint8_t *t = endp(tb, 32 * K * rows);
		for (unsigned e = 0; e < sizeof E / sizeof E[0]; e++) {
			if (E[e].gfni == 1) ec_init_tables_gfni(K, rows, coef, t); else if (E[e].gfni == 2) ec_init_tables(K, rows, coef, t); else ec_init_tables_base(K, rows, coef, t);
			for (int i = 0; i < rows; i++) memset(d[i], 0xcc, len);
			ncalls++; if (sigsetjmp(jb, 1) == 0) E[e].f(len, K, rows, t, s, d); else { nviol++; if (nviol < 25) printf("FAULT %s len=%d rows=%d place=%d addr=%p\n", E[e].n, len, rows, place, (void *) fault_addr); continue; }
			for (int r = 0; r < rows; r++) for (int x = 0; x < len; x++) { uint8_t v = 0; for (int j = 0; j < K; j++) v ^= gmul(coef[r * K + j], s[j][x]); if (v != d[r][x]) { if (nmis++ < 10) printf("MISMATCH %s len=%d rows=%d row=%d x=%d\n", E[e].n, len, rows, r, x); break; } }
		}
		for (unsigned e = 0; e < sizeof U / sizeof U[0]; e++) {
			if (U[e].gfni == 1) ec_init_tables_gfni(K, rows, coef, t); else if (U[e].gfni == 2) ec_init_tables(K, rows, coef, t); else ec_init_tables_base(K, rows, coef, t);
			for (int i = 0; i < rows; i++) memset(d[i], 0, len);
			int ok = 1;
			for (int vi = K - 1; vi >= 0 && ok; vi--) { ncalls++; if (sigsetjmp(jb, 1) == 0) U[e].f(len, K, rows, vi, t, s[vi], d); else { ok = 0; nviol++; if (nviol < 25) printf("FAULT %s len=%d rows=%d vi=%d place=%d addr=%p\n", U[e].n, len, rows, vi, place, (void *) fault_addr); } }
			if (!ok) continue;
			for (int r = 0; r < rows; r++) for (int x = 0; x < len; x++) { uint8_t v = 0; for (int j = 0; j < K; j++) v ^= gmul(coef[r * K + j], s[j][x]); if (v != d[r][x]) { if (nmis++ < 10) printf("MISMATCH %s len=%d rows=%d row=%d x=%d\n", U[e].n, len, rows, r, x); break; } }
		}
	}
	printf("ec: calls=%ld faults=%ld mismatches=%ld\n", ncalls, nviol, nmis);
	/* raid */
	long rv = 0, rc = 0; reg_t rr[8]; for (int i = 0; i < 8; i++) rr[i] = mk(3);
	struct { const char *n; int (*f)(int, int, void **); int mult; int pq; } G[] = { {"xor_gen_base", xor_gen_base, 1, 0}, {"xor_gen_sse", xor_gen_sse, 1, 0}, {"xor_gen_avx", xor_gen_avx, 1, 0}, {"xor_gen_avx512", xor_gen_avx512, 1, 0}, {"xor_gen", xor_gen, 1, 0}, {"xor_check_base", xor_check_base, 1, 0}, {"xor_check_sse", xor_check_sse, 1, 0}, {"pq_gen_base", pq_gen_base, 32, 1}, {"pq_gen_sse", pq_gen_sse, 32, 1}, {"pq_gen_avx", pq_gen_avx, 32, 1}, {"pq_gen_avx2", pq_gen_avx2, 32, 1}, {"pq_gen_avx512", pq_gen_avx512, 32, 1}, {"pq_gen", pq_gen, 32, 1}, {"pq_check_base", pq_check_base, 32, 1}, {"pq_check_sse", pq_check_sse, 32, 1} };
	for (int place = 0; place < 2; place++) for (int vects = 3; vects <= 8; vects++) for (int len = 0; len <= 1056; len += 32) {
		/* use len multiples of 32 so END placement stays 32B aligned; xor also odd tails with start placement */
		void *arr[8]; for (int i = 0; i < vects; i++) arr[i] = place ? (void *) startp(rr[i]) : (void *) endp(rr[i], len);
		for (unsigned g = 0; g < sizeof G / sizeof G[0]; g++) { if (G[g].pq && vects < 4) continue; rc++; if (sigsetjmp(jb, 1) == 0) G[g].f(vects, len, arr); else { rv++; if (rv < 20) printf("FAULT %s vects=%d len=%d place=%d addr=%p\n", G[g].n, vects, len, place, (void *) fault_addr); } }
	}
	for (int vects = 3; vects <= 6; vects++) for (int len = 0; len <= 300; len++) { void *arr[8]; for (int i = 0; i < vects; i++) arr[i] = startp(rr[i]); for (unsigned g = 0; g < 7; g++) { rc++; if (sigsetjmp(jb, 1) == 0) G[g].f(vects, len, arr); else { rv++; if (rv < 20) printf("FAULT %s vects=%d len=%d START addr=%p\n", G[g].n, vects, len, (void *) fault_addr); } } }
	printf("raid: calls=%ld faults=%ld\n", rc, rv);
	return 0;
}
