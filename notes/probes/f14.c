#include <stdio.h>
#include <stdlib.h>
#include "rinf.h"
#include "igzip_lib.h"
static uint64_t rs = 88172645463325252ull;
static uint32_t rnd(void) { rs ^= rs << 13; rs ^= rs >> 7; rs ^= rs << 17; return rs >> 11; }
int main(int argc, char **argv)
{
	int iters = argc > 1 ? atoi(argv[1]) : 500; if (argc > 2) rs = strtoull(argv[2], 0, 0);
	long bad = 0, nflush = 0, nfull = 0, crossmatch_sync = 0;
	for (int it = 0; it < iters; it++) {
		int lvl = rnd() % 4; int n = 2000 + rnd() % 120000; uint8_t *in = malloc(n);
		int plen = 500 + rnd() % 4000; uint8_t *phrase = malloc(plen); for (int i = 0; i < plen; i++) phrase[i] = "abcdefghij"[rnd() % 10];
		for (int i = 0; i < n; i++) in[i] = (i / plen) % 3 == 2 ? rnd() % 16 : phrase[i % plen];
		struct isal_zstream s; isal_deflate_init(&s); s.level = lvl; s.level_buf_size = lvl == 0 ? 0 : lvl == 1 ? ISAL_DEF_LVL1_DEFAULT : lvl == 2 ? ISAL_DEF_LVL2_DEFAULT : ISAL_DEF_LVL3_DEFAULT; s.level_buf = lvl ? malloc(s.level_buf_size) : 0;
		size_t cap = 2 * (size_t) n + 100000; uint8_t *out = malloc(cap); size_t op = 0; int ip = 0; uint8_t *back = malloc(n + 1);
		while (s.internal_state.state != ZSTATE_END) {
			int c = 1 + rnd() % 9000; if (c > n - ip) c = n - ip; s.next_in = in + ip; s.avail_in = c; ip += c; s.end_of_stream = (ip == n); int fl = rnd() % 3; s.flush = fl;
			/* complete this call's request fully, with small output chunks sometimes */
			for (;;) { int oc = (rnd() % 3 == 0) ? 1 + rnd() % 20 : 100000; s.next_out = out + op; s.avail_out = oc; isal_deflate(&s); op += oc - s.avail_out; if (s.avail_in == 0 && s.avail_out > 0) break; if (s.internal_state.state == ZSTATE_END) break; }
			if (fl != NO_FLUSH && s.internal_state.state != ZSTATE_END && !s.end_of_stream) {
				nflush++;
				if (s.internal_state.state != ZSTATE_NEW_HDR) { printf("STATE after flush %d it=%d\n", s.internal_state.state, it); bad++; }
				if (op < 4 || out[op - 4] != 0 || out[op - 3] != 0 || out[op - 2] != 0xff || out[op - 1] != 0xff) { printf("NO MARKER it=%d lvl=%d fl=%d op=%zu\n", it, lvl, fl, op); bad++; }
				rinf_t r = { 0 }; r.in = out; r.inlen = op; r.out = back; r.outcap = n + 1; int rr = rinflate(&r);
				if (rr != 1 || r.outlen != (size_t) ip || memcmp(back, in, ip) || r.end_bit != op * 8) { printf("PREFIX BAD it=%d lvl=%d fl=%d rr=%d err=%d outlen=%zu ip=%d endbit=%zu op8=%zu\n", it, lvl, fl, rr, r.err, r.outlen, ip, r.end_bit, op * 8); bad++; }
				if (fl == FULL_FLUSH) {
					nfull++;
					/* finish the stream from here in a copy? instead remember mark and check at end: do a suffix check later */
				}
			}
			/* record flush marks */
			static size_t mk_out[4096], mk_in[4096]; static int mk_full[4096]; static int nm; if (ip == c) nm = 0; if (fl != NO_FLUSH && nm < 4096 && s.internal_state.state != ZSTATE_END && !s.end_of_stream) { mk_out[nm] = op; mk_in[nm] = ip; mk_full[nm] = fl == FULL_FLUSH; nm++; }
			if (s.internal_state.state == ZSTATE_END) {
				for (int m = 0; m < nm; m++) { rinf_t r = { 0 }; r.in = out + mk_out[m]; r.inlen = op - mk_out[m]; r.out = back; r.outcap = n + 1; int rr = rinflate(&r);
					if (mk_full[m]) { if (rr != 0 || r.outlen != (size_t) (n - mk_in[m]) || memcmp(back, in + mk_in[m], n - mk_in[m])) { printf("SUFFIX BAD after FULL it=%d lvl=%d m=%d rr=%d err=%d %s\n", it, lvl, m, rr, r.err, r.msg ? r.msg : ""); bad++; } }
					else if (rr != 0) crossmatch_sync++; }
			}
		}
		free(in); free(out); free(back); free(phrase); free(s.level_buf);
	}
	printf("iters=%d bad=%ld flushpoints=%ld full=%ld sync_suffix_needing_history=%ld\n", iters, bad, nflush, nfull, crossmatch_sync);
	return 0;
}
