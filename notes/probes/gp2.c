#define _GNU_SOURCE
#include <stdio.h>
#include <stdlib.h>
#include <string.h>
#include <stdint.h>
#include <signal.h>
#include <setjmp.h>
#include <sys/mman.h>
extern void ec_init_tables_base(int,int,unsigned char*,unsigned char*);

#include "ec_gen.h"
#define PG 4096
static sigjmp_buf jb; static volatile void *fault_addr;
static void segv(int s, siginfo_t *si, void *u) { fault_addr = si->si_addr; siglongjmp(jb, 1); }
typedef struct { uint8_t *base; size_t np; } reg_t;
static reg_t mk(size_t np) { reg_t r; r.np = np; r.base = mmap(0, (np + 2) * PG, PROT_NONE, MAP_PRIVATE | MAP_ANONYMOUS, -1, 0); mprotect(r.base + PG, np * PG, PROT_READ | PROT_WRITE); memset(r.base + PG, 0x5a, np * PG); return r; }
static uint8_t *endp(reg_t r, size_t len) { return r.base + PG + r.np * PG - len; }
static uint8_t *startp(reg_t r) { return r.base + PG; }
static long nviol, ncalls, nmis;
static uint8_t gmul(uint8_t a, uint8_t b){ uint8_t r=0; while(b){ if(b&1) r^=a; a=(a<<1)^((a&0x80)?0x1d:0); b>>=1;} return r; }
extern void ec_init_tables_gfni(int,int,unsigned char*,unsigned char*);
int main(void)
{
	struct sigaction sa = { 0 }; sa.sa_sigaction = segv; sa.sa_flags = SA_SIGINFO | SA_NODEFER; sigaction(SIGSEGV, &sa, 0);
	enum { K = 5 };
	reg_t src[K], dst[6], tb = mk(2); for (int i = 0; i < K; i++) src[i] = mk(2); for (int i = 0; i < 6; i++) dst[i] = mk(2);
	uint8_t coef[6 * K]; srand(7); for (int i = 0; i < 6 * K; i++) coef[i] = rand();
	for (int place = 0; place < 2; place++)
	for (int len = 0; len <= 300; len++) {
		uint8_t *s[K], *d[6];
		for (int i = 0; i < K; i++) { s[i] = place ? startp(src[i]) : endp(src[i], len); for (int j = 0; j < len; j++) s[i][j] = rand(); }
		for (int i = 0; i < 6; i++) d[i] = place ? startp(dst[i]) : endp(dst[i], len);
		for (unsigned e = 0; e < sizeof DP / sizeof DP[0]; e++) {
			int w = DP[e].w; size_t tsz = 32 * K * w; uint8_t *t = endp(tb, tsz);
			if (DP[e].gfni) ec_init_tables_gfni(K, w, coef, t); else ec_init_tables_base(K, w, coef, t);
			for (int i = 0; i < 6; i++) memset(d[i], 0xcc, len);
			ncalls++; fault_addr = 0;
			if (sigsetjmp(jb, 1) == 0) { if (w == 1) ((void (*)(int, int, uint8_t *, uint8_t **, uint8_t *)) DP[e].f)(len, K, t, s, d[0]); else ((void (*)(int, int, uint8_t *, uint8_t **, uint8_t **)) DP[e].f)(len, K, t, s, d); }
			else { nviol++; if (nviol < 30) printf("FAULT %s len=%d place=%d addr=%p\n", DP[e].n, len, place, (void *) fault_addr); continue; }
			if (len >= DP[e].minlen) for (int r = 0; r < w; r++) for (int x = 0; x < len; x++) { uint8_t v = 0; for (int j = 0; j < K; j++) v ^= gmul(coef[r * K + j], s[j][x]); if (v != d[r][x]) { if (nmis++ < 10) printf("MISMATCH %s len=%d row=%d x=%d\n", DP[e].n, len, r, x); break; } }
		}
		for (unsigned e = 0; e < sizeof MAD / sizeof MAD[0]; e++) {
			int w = MAD[e].w; size_t tsz = 32 * K * w; uint8_t *t = endp(tb, tsz);
			if (MAD[e].gfni) ec_init_tables_gfni(K, w, coef, t); else ec_init_tables_base(K, w, coef, t);
			for (int vi = 0; vi < K; vi += 2) {
				uint8_t old[6][301]; for (int i = 0; i < 6; i++) { for (int j = 0; j < len; j++) d[i][j] = rand(); memcpy(old[i], d[i], len); }
				ncalls++; fault_addr = 0;
				if (sigsetjmp(jb, 1) == 0) { if (w == 1) ((void (*)(int, int, int, uint8_t *, uint8_t *, uint8_t *)) MAD[e].f)(len, K, vi, t, s[vi], d[0]); else ((void (*)(int, int, int, uint8_t *, uint8_t *, uint8_t **)) MAD[e].f)(len, K, vi, t, s[vi], d); }
				else { nviol++; if (nviol < 30) printf("FAULT %s len=%d vi=%d place=%d addr=%p\n", MAD[e].n, len, vi, place, (void *) fault_addr); continue; }
				if (len >= MAD[e].minlen) for (int r = 0; r < w; r++) for (int x = 0; x < len; x++) { uint8_t v = old[r][x] ^ gmul(coef[r * K + vi], s[vi][x]); if (v != d[r][x]) { if (nmis++ < 10) printf("MISMATCH %s len=%d vi=%d row=%d x=%d\n", MAD[e].n, len, vi, r, x); break; } }
			}
		}
	}
	printf("calls=%ld faults=%ld mismatches=%ld ndp=%zu nmad=%zu\n", ncalls, nviol, nmis, sizeof DP / sizeof DP[0], sizeof MAD / sizeof MAD[0]);
	return 0;
}
