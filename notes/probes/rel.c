#define _GNU_SOURCE
#include <stdio.h>
#include <stdlib.h>
#include <string.h>
#include <stdint.h>
#include <signal.h>
#include <setjmp.h>
#include <sys/mman.h>
#include <zlib.h>
#include "igzip_lib.h"
static uint64_t rs = 88172645463325252ull;
static uint32_t rnd(void) { rs ^= rs << 13; rs ^= rs >> 7; rs ^= rs << 17; return rs >> 11; }
static sigjmp_buf jb; static volatile void *fa; static void segv(int s, siginfo_t *si, void *u) { fa = si->si_addr; siglongjmp(jb, 1); }
#define PG 4096
typedef struct { uint8_t *map; size_t maplen; uint8_t *p; } chunk_t;
static chunk_t mkchunk(size_t len) { chunk_t c; size_t np = (len + PG - 1) / PG + 1; c.maplen = (np + 2) * PG; c.map = mmap(0, c.maplen, PROT_NONE, MAP_PRIVATE | MAP_ANONYMOUS, -1, 0); mprotect(c.map + PG, np * PG, PROT_READ | PROT_WRITE); c.p = c.map + PG + np * PG - len; return c; }
static void rel(chunk_t *c) { if (c->map) munmap(c->map, c->maplen); c->map = 0; }
static const int ins[] = { 1, 2, 3, 7, 8, 9, 15, 16, 17, 31, 33, 255, 257, 288, 289, 1000, 4095, 4096, 4097, 32767, 32768, 32769, 65536, 100000 };
static const int outs[] = { 1, 2, 3, 7, 8, 9, 15, 16, 17, 64, 224, 328, 5000, 100000 };
int main(int argc, char **argv)
{
	int iters = argc > 1 ? atoi(argv[1]) : 500; if (argc > 2) rs = strtoull(argv[2], 0, 0); int flushswitch = argc > 3 ? atoi(argv[3]) : 0;
	struct sigaction sa = { 0 }; sa.sa_sigaction = segv; sa.sa_flags = SA_SIGINFO | SA_NODEFER; sigaction(SIGSEGV, &sa, 0);
	long faults = 0, bad = 0, ccalls = 0, dcalls = 0, released = 0;
	for (int it = 0; it < iters; it++) {
		int n = (rnd() % 4 == 0) ? rnd() % 300 : rnd() % 150000; uint8_t *in = malloc(n + 1); int mode = rnd() % 3; for (int i = 0; i < n; i++) in[i] = mode == 0 ? rnd() : mode == 1 ? "abcdefgh"[rnd() % 3] : (i % 977 < 300 ? in[i > 977 ? i - 977 : 0] : rnd() % 7);
		int lvl = rnd() % 4, wrap = rnd() % 5; size_t cap = 3 * (size_t) n + 70000; uint8_t *out = malloc(cap); size_t op = 0;
		struct isal_zstream s; isal_deflate_init(&s); uint32_t lbsz = lvl == 0 ? 0 : lvl == 1 ? ISAL_DEF_LVL1_MIN : lvl == 2 ? ISAL_DEF_LVL2_MIN : ISAL_DEF_LVL3_MIN; chunk_t lbc = { 0 }; if (lvl) { lbc = mkchunk(lbsz); s.level_buf = lbc.p; s.level_buf_size = lbsz; } s.level = lvl; s.gzip_flag = wrap;
		int ip = 0, steps = 0, flushing = 0, fail = 0; chunk_t ic = { 0 }, oc = { 0 }; size_t oclen = 0; s.avail_in = 0; s.avail_out = 0; int fixedflush = rnd() % 3;
		if (sigsetjmp(jb, 1)) { printf("FAULT(compress) it=%d lvl=%d wrap=%d addr=%p state=%d\n", it, lvl, wrap, (void *) fa, s.internal_state.state); faults++; fail = 1; }
		else while (s.internal_state.state != ZSTATE_END) { if (++steps > 600000 + 4 * n) { printf("HANG\n"); fail = 1; break; }
			if (s.avail_in == 0 && (!flushing || flushswitch)) { rel(&ic); released++; int c = ins[rnd() % (sizeof ins / sizeof ins[0])]; if (c > n - ip) c = n - ip; ic = mkchunk(c); memcpy(ic.p, in + ip, c); s.next_in = ic.p; s.avail_in = c; ip += c; s.end_of_stream = (ip == n); s.flush = flushswitch ? (rnd() % 3 == 0 ? rnd() % 3 : 0) : ((rnd() % 3 == 0) ? fixedflush : NO_FLUSH); if (s.flush != NO_FLUSH) flushing = 1; }
			if (s.avail_out == 0) { if (oc.map) { memcpy(out + op, oc.p, oclen); op += oclen; rel(&oc); } oclen = outs[rnd() % (sizeof outs / sizeof outs[0])]; oc = mkchunk(oclen); s.next_out = oc.p; s.avail_out = oclen; }
			int r = isal_deflate(&s); ccalls++; if (r) { printf("ERR %d\n", r); fail = 1; break; }
			if (flushing && s.avail_in == 0 && s.avail_out > 0) flushing = 0; }
		if (oc.map) { memcpy(out + op, oc.p, oclen - s.avail_out); op += oclen - s.avail_out; rel(&oc); } rel(&ic); rel(&lbc);
		if (!fail) { uint8_t *back = malloc(n + 1); z_stream z = { 0 }; int wb = wrap == 0 ? -15 : (wrap == 1 ? 31 : (wrap == 3 ? 15 : -15)); inflateInit2(&z, wb); z.next_in = out; z.avail_in = op; z.next_out = back; z.avail_out = n + 1; int zr = inflate(&z, Z_FINISH); if (zr != Z_STREAM_END || z.total_out != (uLong) n || memcmp(back, in, n)) { printf("BAD compress it=%d lvl=%d wrap=%d zr=%d\n", it, lvl, wrap, zr); bad++; } inflateEnd(&z); free(back);
			/* now inflate the same stream with released chunks */
			if (zr == Z_STREAM_END) { struct inflate_state *st = malloc(sizeof *st); isal_inflate_init(st); st->crc_flag = wrap == 0 ? ISAL_DEFLATE : wrap == 1 ? ISAL_GZIP : wrap == 2 ? ISAL_GZIP_NO_HDR_VER : wrap == 3 ? ISAL_ZLIB : ISAL_ZLIB_NO_HDR_VER; size_t cp = 0, bp = 0; uint8_t *back2 = malloc(n + 1); chunk_t ic2 = { 0 }, oc2 = { 0 }; size_t ol2 = 0; int ret = 0, st2 = 0; st->avail_in = 0; st->avail_out = 0;
				if (sigsetjmp(jb, 1)) { printf("FAULT(inflate) it=%d addr=%p bs=%d\n", it, (void *) fa, st->block_state); faults++; }
				else { while (st->block_state != ISAL_BLOCK_FINISH && ret == 0 && st2++ < 2000000) { if (st->avail_in == 0) { rel(&ic2); size_t c = ins[rnd() % (sizeof ins / sizeof ins[0])]; if (c > op - cp) c = op - cp; ic2 = mkchunk(c); memcpy(ic2.p, out + cp, c); st->next_in = ic2.p; st->avail_in = c; cp += c; } if (st->avail_out == 0) { if (oc2.map) { memcpy(back2 + bp, oc2.p, ol2); bp += ol2; rel(&oc2); } ol2 = outs[rnd() % (sizeof outs / sizeof outs[0])]; if (ol2 > (size_t) n + 1 - bp) ol2 = n + 1 - bp; oc2 = mkchunk(ol2); st->next_out = oc2.p; st->avail_out = ol2; } ret = isal_inflate(st); dcalls++; }
					if (oc2.map) { memcpy(back2 + bp, oc2.p, ol2 - st->avail_out); bp += ol2 - st->avail_out; } if (ret != 0 || st->block_state != ISAL_BLOCK_FINISH || bp != (size_t) n || memcmp(back2, in, n)) { printf("BAD inflate it=%d ret=%d bs=%d bp=%zu n=%d\n", it, ret, st->block_state, bp, n); bad++; } }
				rel(&ic2); rel(&oc2); free(back2); free(st); } }
		else bad++;
		free(in); free(out);
	}
	printf("iters=%d ccalls=%ld dcalls=%ld chunks_released=%ld faults=%ld bad=%ld\n", iters, ccalls, dcalls, released, faults, bad);
	return 0;
}
