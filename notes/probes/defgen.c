#include <stdio.h>
#include <stdlib.h>
#include "rinf.h"
#include <zlib.h>
#include "igzip_lib.h"
static uint64_t rs = 88172645463325252ull;
static uint32_t rnd(void) { rs ^= rs << 13; rs ^= rs >> 7; rs ^= rs << 17; return rs >> 11; }
typedef struct { uint8_t *b; size_t cap, bits; } bw_t;
static void pb(bw_t *w, uint32_t v, int n) { for (int i = 0; i < n; i++) { if ((v >> i) & 1) w->b[w->bits >> 3] |= 1 << (w->bits & 7); w->bits++; } }
static void pcode(bw_t *w, uint32_t code, int len) { for (int i = len - 1; i >= 0; i--) { if ((code >> i) & 1) w->b[w->bits >> 3] |= 1 << (w->bits & 7); w->bits++; } } /* huffman codes MSB first */
/* random complete prefix code lengths for nsym symbols, max depth maxd; shape: 0 random, 1 chain (deep), 2 balanced */
static void gen_lengths(uint8_t *len, int nsym, int maxd, int shape)
{
	if (nsym == 1) { len[0] = 1; return; }
	uint8_t d[512]; int n = 2; d[0] = d[1] = 1;
	while (n < nsym) { int pick = -1;
		if (shape == 1) { int best = -1; for (int i = 0; i < n; i++) if (d[i] < maxd && d[i] > best) { best = d[i]; pick = i; } }
		else if (shape == 2) { int best = 99; for (int i = 0; i < n; i++) if (d[i] < best) { best = d[i]; pick = i; } if (best >= maxd) pick = -1; }
		else { for (int t = 0; t < 50 && pick < 0; t++) { int i = rnd() % n; if (d[i] < maxd) pick = i; } if (pick < 0) for (int i = 0; i < n; i++) if (d[i] < maxd) { pick = i; break; } }
		if (pick < 0) { /* cannot split: all at maxd */ break; }
		d[pick]++; d[n] = d[pick]; n++; }
	/* n may be < nsym only if 2^maxd < nsym; not the case */
	for (int i = n - 1; i > 0; i--) { int j = rnd() % (i + 1); uint8_t t = d[i]; d[i] = d[j]; d[j] = t; }
	for (int i = 0; i < nsym; i++) len[i] = d[i];
}
static void canon(const uint8_t *len, int n, uint16_t *code) { int bl[16] = { 0 }, next[16]; for (int i = 0; i < n; i++) bl[len[i]]++; bl[0] = 0; int c = 0; for (int b = 1; b < 16; b++) { c = (c + bl[b - 1]) << 1; next[b] = c; } for (int i = 0; i < n; i++) if (len[i]) code[i] = next[len[i]]++; }
static const uint16_t LBs[29] = {3,4,5,6,7,8,9,10,11,13,15,17,19,23,27,31,35,43,51,59,67,83,99,115,131,163,195,227,258}, LXs[29] = {0,0,0,0,0,0,0,0,1,1,1,1,2,2,2,2,3,3,3,3,4,4,4,4,5,5,5,5,0};
static const uint16_t DBs[30] = {1,2,3,4,5,7,9,13,17,25,33,49,65,97,129,193,257,385,513,769,1025,1537,2049,3073,4097,6145,8193,12289,16385,24577}, DXs[30] = {0,0,0,0,1,1,2,2,3,3,4,4,5,5,6,6,7,7,8,8,9,9,10,10,11,11,12,12,13,13};
static long stat_deep, stat_blocks[3], stat_single_dist, stat_nodist;
/* emit tokens with given code tables; expected output appended to exp */
static void emit_tokens(bw_t *w, const uint8_t *ll, const uint16_t *lc, const uint8_t *dl, const uint16_t *dc, uint8_t *exp, size_t *elen, size_t ecap, int ntok)
{
	int lits[256], nl = 0, lens[29], nle = 0, dists[30], nd = 0; for (int i = 0; i < 256; i++) if (ll[i]) lits[nl++] = i; for (int i = 0; i < 29; i++) if (ll[257 + i]) lens[nle++] = i; for (int i = 0; i < 30; i++) if (dl[i]) dists[nd++] = i;
	for (int t = 0; t < ntok; t++) {
		int do_match = nle && nd && *elen > 0 && rnd() % 3 == 0;
		if (do_match) { int ls = lens[rnd() % nle]; int ds = -1; for (int k = 0; k < 20; k++) { int c = dists[rnd() % nd]; if (DBs[c] <= *elen) { ds = c; break; } } if (ds < 0) do_match = 0; else {
			uint32_t lx = LXs[ls] ? rnd() & ((1u << LXs[ls]) - 1) : 0, dx = DXs[ds] ? rnd() & ((1u << DXs[ds]) - 1) : 0; uint32_t dist = DBs[ds] + dx; if (dist > *elen) { dx = (*elen - DBs[ds]); dist = DBs[ds] + dx; }
			uint32_t len = LBs[ls] + lx; if (ls == 28) len = 258; if (*elen + len > ecap) return;
			pcode(w, lc[257 + ls], ll[257 + ls]); pb(w, lx, LXs[ls]); pcode(w, dc[ds], dl[ds]); pb(w, dx, DXs[ds]);
			for (uint32_t i = 0; i < len; i++) { exp[*elen] = exp[*elen - dist]; (*elen)++; } } }
		if (!do_match) { if (!nl) continue; int s = lits[rnd() % nl]; if (*elen + 1 > ecap) return; pcode(w, lc[s], ll[s]); exp[(*elen)++] = s; }
	}
}
static size_t gen_stream(uint8_t *buf, size_t cap, uint8_t *exp, size_t ecap, size_t *elen_out)
{
	bw_t w = { buf, cap, 0 }; memset(buf, 0, cap); size_t elen = 0; int nblk = 1 + rnd() % 5;
	for (int b = 0; b < nblk; b++) { int last = b == nblk - 1; int type = rnd() % 8; type = type == 0 ? 0 : type == 1 ? 1 : 2; stat_blocks[type]++;
		pb(&w, last, 1); pb(&w, type, 2);
		if (type == 0) { w.bits = (w.bits + 7) & ~7ul; int len = rnd() % 4 == 0 ? 0 : rnd() % 2000; if (elen + len > ecap) len = 0; pb(&w, len, 16); pb(&w, ~len & 0xffff, 16); for (int i = 0; i < len; i++) { uint8_t v = rnd(); pb(&w, v, 8); exp[elen++] = v; } }
		else if (type == 1) { uint8_t ll[288], dl[30]; uint16_t lc[288], dc[30]; int i; for (i = 0; i < 144; i++) ll[i] = 8; for (; i < 256; i++) ll[i] = 9; for (; i < 280; i++) ll[i] = 7; for (; i < 288; i++) ll[i] = 8; for (i = 0; i < 30; i++) dl[i] = 5; canon(ll, 288, lc); canon(dl, 30, dc); uint8_t ll2[288]; memcpy(ll2, ll, 288); ll2[286] = ll2[287] = 0; emit_tokens(&w, ll2, lc, dl, dc, exp, &elen, ecap, rnd() % 3000); pcode(&w, lc[256], ll[256]); }
		else { uint8_t ll[286] = { 0 }, dl[30] = { 0 }; uint16_t lc[286], dc[30];
			/* choose used lit/len symbols */
			int used[286], nu = 0; used[nu++] = 256; int nlit = rnd() % 4 == 0 ? 1 + rnd() % 3 : 1 + rnd() % 256; if (rnd() % 20 == 0) nlit = 0; char mark[286] = { 0 }; mark[256] = 1; for (int i = 0; i < nlit; i++) { int s = rnd() % 256; if (!mark[s]) { mark[s] = 1; used[nu++] = s; } } int nlen = rnd() % 30; for (int i = 0; i < nlen; i++) { int s = 257 + rnd() % 29; if (!mark[s]) { mark[s] = 1; used[nu++] = s; } }
			int shape = rnd() % 3; int maxd = (rnd() % 3 == 0) ? 15 : 7 + rnd() % 9; while ((1 << maxd) < nu) maxd++; uint8_t tl[286]; if (nu == 1) { /* only EOB: one code of len 1 */ tl[0] = 1; } else gen_lengths(tl, nu, maxd, shape); for (int i = 0; i < nu; i++) ll[used[i]] = tl[i]; for (int i = 0; i < nu; i++) if (tl[i] >= 13) { stat_deep++; break; }
			int ndu = 0, dused[30]; int nd = (nlen == 0) ? (rnd() % 2) : 1 + rnd() % 30; if (rnd() % 10 == 0) nd = nlen ? 1 : 0; char dm[30] = { 0 }; for (int i = 0; i < nd; i++) { int s = rnd() % 30; if (!dm[s]) { dm[s] = 1; dused[ndu++] = s; } } if (ndu == 1) stat_single_dist++; if (ndu == 0) stat_nodist++;
			if (ndu == 1) dl[dused[0]] = 1; else if (ndu > 1) { uint8_t td[30]; int md = 5 + rnd() % 11; while ((1 << md) < ndu) md++; gen_lengths(td, ndu, md, rnd() % 3); for (int i = 0; i < ndu; i++) dl[dused[i]] = td[i]; }
			canon(ll, 286, lc); canon(dl, 30, dc);
			int hlit = 286; while (hlit > 257 && ll[hlit - 1] == 0) hlit--; if (rnd() % 3 == 0) hlit = hlit + rnd() % (286 - hlit + 1); int hdist = 30; while (hdist > 1 && dl[hdist - 1] == 0) hdist--; if (rnd() % 3 == 0) hdist = hdist + rnd() % (30 - hdist + 1);
			/* code length sequence with RLE */
			uint8_t seq[316]; int ns = 0; for (int i = 0; i < hlit; i++) seq[ns++] = ll[i]; for (int i = 0; i < hdist; i++) seq[ns++] = dl[i];
			uint8_t sym[400]; uint8_t ext[400]; int nsym = 0; for (int i = 0; i < ns;) { int run = 1; while (i + run < ns && seq[i + run] == seq[i]) run++; int use_rle = rnd() % 4 != 0;
				if (seq[i] == 0 && run >= 3 && use_rle) { int r = run > 138 ? 138 : run; if (r >= 11 && rnd() % 4) { r = 11 + rnd() % (r - 10); sym[nsym] = 18; ext[nsym++] = r - 11; } else { if (r > 10) r = 10; r = 3 + rnd() % (r - 2); sym[nsym] = 17; ext[nsym++] = r - 3; } i += r; }
				else if (run >= 4 && use_rle) { sym[nsym] = seq[i]; ext[nsym++] = 0; int r = run - 1 > 6 ? 6 : run - 1; r = 3 + rnd() % (r - 2); sym[nsym] = 16; ext[nsym++] = r - 3; i += 1 + r; }
				else { sym[nsym] = seq[i]; ext[nsym++] = 0; i++; } }
			int clu[19], ncl = 0; char cm[19] = { 0 }; for (int i = 0; i < nsym; i++) if (!cm[sym[i]]) { cm[sym[i]] = 1; clu[ncl++] = sym[i]; } if (ncl == 1) { int extra = (clu[0] + 1) % 19; clu[ncl++] = extra; }
			uint8_t cl[19] = { 0 }, tcl[19]; gen_lengths(tcl, ncl, 7, rnd() % 3); for (int i = 0; i < ncl; i++) cl[clu[i]] = tcl[i]; uint16_t cc[19]; canon(cl, 19, cc);
			static const uint8_t ord[19] = {16,17,18,0,8,7,9,6,10,5,11,4,12,3,13,2,14,1,15}; int hclen = 19; while (hclen > 4 && cl[ord[hclen - 1]] == 0) hclen--;
			pb(&w, hlit - 257, 5); pb(&w, hdist - 1, 5); pb(&w, hclen - 4, 4); for (int i = 0; i < hclen; i++) pb(&w, cl[ord[i]], 3);
			for (int i = 0; i < nsym; i++) { pcode(&w, cc[sym[i]], cl[sym[i]]); if (sym[i] == 16) pb(&w, ext[i], 2); else if (sym[i] == 17) pb(&w, ext[i], 3); else if (sym[i] == 18) pb(&w, ext[i], 7); }
			emit_tokens(&w, ll, lc, dl, dc, exp, &elen, ecap, rnd() % 4 == 0 ? rnd() % 20 : rnd() % 6000); pcode(&w, lc[256], ll[256]); }
	}
	*elen_out = elen; return (w.bits + 7) / 8;
}
extern int decode_huffman_code_block_stateless(struct inflate_state *, uint8_t *), decode_huffman_code_block_stateless_base(struct inflate_state *, uint8_t *), decode_huffman_code_block_stateless_01(struct inflate_state *, uint8_t *), decode_huffman_code_block_stateless_04(struct inflate_state *, uint8_t *);
int main(int argc, char **argv)
{
	if (argc > 3) { uint8_t *st = (uint8_t *) decode_huffman_code_block_stateless; int32_t disp; memcpy(&disp, st + 6, 4); void **slot = (void **) (st + 10 + disp); int k = atoi(argv[3]); *slot = k == 0 ? (void *) decode_huffman_code_block_stateless_base : k == 1 ? (void *) decode_huffman_code_block_stateless_01 : (void *) decode_huffman_code_block_stateless_04; }
	int iters = argc > 1 ? atoi(argv[1]) : 1000; if (argc > 2) rs = strtoull(argv[2], 0, 0);
	size_t cap = 4 << 20, ecap = 8 << 20; uint8_t *buf = malloc(cap), *exp = malloc(ecap), *o1 = malloc(ecap + 1), *o2 = malloc(ecap + 1); long bad = 0, genbad = 0, zrej = 0;
	for (int it = 0; it < iters; it++) {
		size_t elen; size_t clen = gen_stream(buf, cap, exp, ecap / 2, &elen);
		rinf_t r = { 0 }; r.in = buf; r.inlen = clen; r.out = o1; r.outcap = ecap; int d = rinflate(&r);
		if (d != 0 || r.outlen != elen || memcmp(o1, exp, elen) || (r.end_bit + 7) / 8 != clen) { printf("GEN/REF disagree it=%d d=%d err=%d %s outlen=%zu elen=%zu\n", it, d, r.err, r.msg ? r.msg : "", r.outlen, elen); genbad++; continue; }
		z_stream z = { 0 }; inflateInit2(&z, -15); z.next_in = buf; z.avail_in = clen; z.next_out = o2; z.avail_out = ecap; int zr = inflate(&z, Z_FINISH); if (zr != Z_STREAM_END || z.total_out != elen || memcmp(o2, exp, elen)) { zrej++; if (zrej < 5) printf("zlib disagrees it=%d zr=%d %s\n", it, zr, z.msg ? z.msg : ""); } inflateEnd(&z);
		/* ISA-L stateless */
		struct inflate_state *st = malloc(sizeof *st); memset(st, rnd(), sizeof *st); isal_inflate_init(st); st->next_in = buf; st->avail_in = clen; st->next_out = o2; st->avail_out = ecap; int ret = isal_inflate_stateless(st);
		if (ret != 0 || st->block_state != ISAL_BLOCK_FINISH || st->total_out != elen || memcmp(o2, exp, elen) || st->avail_in != 0) { printf("ISAL STATELESS BAD it=%d ret=%d bs=%d tout=%u elen=%zu availin=%u clen=%zu\n", it, ret, st->block_state, st->total_out, elen, st->avail_in, clen); bad++; }
		/* ISA-L streaming random chunks */
		memset(st, rnd(), sizeof *st); isal_inflate_init(st); size_t cp = 0, bp = 0; int steps = 0; ret = 0; st->avail_in = 0; st->avail_out = 0;
		while (st->block_state != ISAL_BLOCK_FINISH && ret == 0 && steps++ < 1000000) { if (st->avail_in == 0) { size_t c = 1 + rnd() % (rnd() % 3 ? 64 : 70000); if (c > clen - cp) c = clen - cp; st->next_in = buf + cp; st->avail_in = c; cp += c; } if (st->avail_out == 0) { size_t c = 1 + rnd() % (rnd() % 3 ? 300 : 100000); if (c > ecap - bp) c = ecap - bp; st->next_out = o2 + bp; st->avail_out = c; } uint32_t ao = st->avail_out; ret = isal_inflate(st); bp += ao - st->avail_out; if (st->avail_in == 0 && cp >= clen && st->avail_out > 0 && ao == st->avail_out) break; }
		size_t endpos = cp - st->avail_in - st->read_in_length / 8;
		if (ret != 0 || st->block_state != ISAL_BLOCK_FINISH || bp != elen || memcmp(o2, exp, elen) || endpos != clen) { printf("ISAL STREAM BAD it=%d ret=%d bs=%d bp=%zu elen=%zu endpos=%zu clen=%zu\n", it, ret, st->block_state, bp, elen, endpos, clen); bad++; }
		free(st);
	}
	printf("iters=%d bad=%ld genbad=%ld zlib_disagree=%ld deep(>=13)=%ld blocks stored/fixed/dyn=%ld/%ld/%ld single_dist=%ld nodist=%ld\n", iters, bad, genbad, zrej, stat_deep, stat_blocks[0], stat_blocks[1], stat_blocks[2], stat_single_dist, stat_nodist);
	return 0;
}
