#include <stdio.h>
#include <stdlib.h>
#include <string.h>
#include <stdint.h>
static uint64_t rs = 88172645463325252ull;
static uint32_t rnd(void) { rs ^= rs << 13; rs ^= rs >> 7; rs ^= rs << 17; return rs >> 11; }
/* bitwise reference */
static uint64_t refl(uint64_t v, int w) { uint64_t r = 0; for (int i = 0; i < w; i++) if (v >> i & 1) r |= 1ull << (w - 1 - i); return r; }
static uint64_t crc_bit(int w, uint64_t poly, uint64_t init, int ref, uint64_t xo, const uint8_t *p, size_t n) { uint64_t top = 1ull << (w - 1), mask = w == 64 ? ~0ull : (1ull << w) - 1, c = init; for (size_t i = 0; i < n; i++) { uint64_t b = ref ? refl(p[i], 8) : p[i]; c ^= b << (w - 8); for (int k = 0; k < 8; k++) c = (c & top) ? ((c << 1) ^ poly) & mask : (c << 1) & mask; } if (ref) c = refl(c, w); return (c ^ xo) & mask; }
typedef uint64_t (*f64)(uint64_t, const uint8_t *, uint64_t); typedef uint32_t (*f32)(uint32_t, const uint8_t *, uint64_t); typedef uint16_t (*f16)(uint16_t, const uint8_t *, uint64_t); typedef unsigned (*fisc)(unsigned char *, int, unsigned);
#define D64(n) extern uint64_t n(uint64_t, const uint8_t *, uint64_t);
#define D32(n) extern uint32_t n(uint32_t, const uint8_t *, uint64_t);
#define D16(n) extern uint16_t n(uint16_t, const uint8_t *, uint64_t);
#define V64(p) D64(crc64_##p##_refl_base) D64(crc64_##p##_refl_by8) D64(crc64_##p##_refl_by16_10) D64(crc64_##p##_refl) D64(crc64_##p##_norm_base) D64(crc64_##p##_norm_by8) D64(crc64_##p##_norm_by16_10) D64(crc64_##p##_norm)
V64(ecma) V64(iso) V64(jones) V64(rocksoft)
D32(crc32_ieee_base) D32(crc32_ieee_01) D32(crc32_ieee_02) D32(crc32_ieee_by4) D32(crc32_ieee_by16_10) D32(crc32_ieee) D32(crc32_gzip_refl_base) D32(crc32_gzip_refl_by8) D32(crc32_gzip_refl_by8_02) D32(crc32_gzip_refl_by16_10) D32(crc32_gzip_refl)
D16(crc16_t10dif_base) D16(crc16_t10dif_01) D16(crc16_t10dif_02) D16(crc16_t10dif_by4) D16(crc16_t10dif_by16_10) D16(crc16_t10dif)
D32(adler32_base) D32(adler32_sse) D32(adler32_avx2_4) D32(isal_adler32)
extern unsigned crc32_iscsi_base(unsigned char *, int, unsigned), crc32_iscsi_00(unsigned char *, int, unsigned), crc32_iscsi_01(unsigned char *, int, unsigned), crc32_iscsi_by16_10(unsigned char *, int, unsigned), crc32_iscsi(unsigned char *, int, unsigned);
extern uint16_t crc16_t10dif_copy_base(uint16_t, uint8_t *, uint8_t *, uint64_t), crc16_t10dif_copy_by4(uint16_t, uint8_t *, uint8_t *, uint64_t), crc16_t10dif_copy_by4_02(uint16_t, uint8_t *, uint8_t *, uint64_t), crc16_t10dif_copy(uint16_t, uint8_t *, uint8_t *, uint64_t);
extern int mem_zero_detect_base(void *, size_t), mem_zero_detect_sse(void *, size_t), mem_zero_detect_avx(void *, size_t), mem_zero_detect_avx2(void *, size_t), mem_zero_detect_avx512(void *, size_t), isal_zero_detect(void *, size_t);
static uint32_t adler_ref(uint32_t init, const uint8_t *p, size_t n) { uint32_t a = init & 0xffff, b = init >> 16; for (size_t i = 0; i < n; i++) { a = (a + p[i]) % 65521; b = (b + a) % 65521; } return b << 16 | a; }
int main(int argc, char **argv)
{
	if (argc > 1) rs = strtoull(argv[1], 0, 0);
	const uint8_t *chk = (const uint8_t *) "123456789"; long bad = 0, n = 0;
	printf("check values: t10dif=%04lx crc32=%08lx crc32c=%08lx bzip2=%08lx xz=%016lx we=%016lx goiso=%016lx nvme=%016lx\n", crc_bit(16, 0x8bb7, 0, 0, 0, chk, 9), crc_bit(32, 0x04c11db7, 0xffffffff, 1, 0xffffffff, chk, 9), crc_bit(32, 0x1edc6f41, 0xffffffff, 1, 0xffffffff, chk, 9), crc_bit(32, 0x04c11db7, 0xffffffff, 0, 0xffffffff, chk, 9), crc_bit(64, 0x42f0e1eba9ea3693ull, ~0ull, 1, ~0ull, chk, 9), crc_bit(64, 0x42f0e1eba9ea3693ull, ~0ull, 0, ~0ull, chk, 9), crc_bit(64, 0x1b, ~0ull, 1, ~0ull, chk, 9), crc_bit(64, 0xad93d23594c93659ull, ~0ull, 1, ~0ull, chk, 9));
	struct { const char *nm; uint64_t poly; f64 r[4], nn[4]; } P[4] = { { "ecma", 0x42f0e1eba9ea3693ull, { crc64_ecma_refl_base, crc64_ecma_refl_by8, crc64_ecma_refl_by16_10, crc64_ecma_refl }, { crc64_ecma_norm_base, crc64_ecma_norm_by8, crc64_ecma_norm_by16_10, crc64_ecma_norm } }, { "iso", 0x1b, { crc64_iso_refl_base, crc64_iso_refl_by8, crc64_iso_refl_by16_10, crc64_iso_refl }, { crc64_iso_norm_base, crc64_iso_norm_by8, crc64_iso_norm_by16_10, crc64_iso_norm } }, { "jones", 0xad93d23594c935a9ull, { crc64_jones_refl_base, crc64_jones_refl_by8, crc64_jones_refl_by16_10, crc64_jones_refl }, { crc64_jones_norm_base, crc64_jones_norm_by8, crc64_jones_norm_by16_10, crc64_jones_norm } }, { "rocksoft", 0xad93d23594c93659ull, { crc64_rocksoft_refl_base, crc64_rocksoft_refl_by8, crc64_rocksoft_refl_by16_10, crc64_rocksoft_refl }, { crc64_rocksoft_norm_base, crc64_rocksoft_norm_by8, crc64_rocksoft_norm_by16_10, crc64_rocksoft_norm } } };
	f32 ie[6] = { crc32_ieee_base, crc32_ieee_01, crc32_ieee_02, crc32_ieee_by4, crc32_ieee_by16_10, crc32_ieee }, gz[5] = { crc32_gzip_refl_base, crc32_gzip_refl_by8, crc32_gzip_refl_by8_02, crc32_gzip_refl_by16_10, crc32_gzip_refl }, ad[4] = { adler32_base, adler32_sse, adler32_avx2_4, isal_adler32 };
	f16 t1[6] = { crc16_t10dif_base, crc16_t10dif_01, crc16_t10dif_02, crc16_t10dif_by4, crc16_t10dif_by16_10, crc16_t10dif }; fisc is[5] = { crc32_iscsi_base, crc32_iscsi_00, crc32_iscsi_01, crc32_iscsi_by16_10, crc32_iscsi };
	uint8_t *buf = malloc(70000 + 64), *dst = malloc(70000 + 64);
	for (int len = 0; len <= 1100 + 40; len++) { int L = len <= 1100 ? len : 1100 + (rnd() % 60000); for (int rep = 0; rep < 3; rep++) { int off = rnd() % 64; uint8_t *p = buf + off; for (int i = 0; i < L; i++) p[i] = rep == 2 ? 0xff : rnd(); uint64_t seed = rep == 0 ? 0 : rep == 1 ? ((uint64_t) rnd() << 40 ^ (uint64_t) rnd() << 20 ^ rnd()) : ~0ull; int split = L ? rnd() % (L + 1) : 0;
		for (int q = 0; q < 4; q++) { uint64_t er = crc_bit(64, P[q].poly, refl(~seed, 64), 1, ~0ull, p, L), en = crc_bit(64, P[q].poly, ~seed, 0, ~0ull, p, L); for (int v = 0; v < 4; v++) { n += 2; if (P[q].r[v](seed, p, L) != er) { if (bad++ < 10) printf("BAD crc64_%s_refl v%d len=%d\n", P[q].nm, v, L); } if (P[q].nn[v](seed, p, L) != en) { if (bad++ < 10) printf("BAD crc64_%s_norm v%d len=%d\n", P[q].nm, v, L); } if (P[q].r[v](P[q].r[v](seed, p, split), p + split, L - split) != er) { if (bad++ < 10) printf("BAD split crc64_%s_refl v%d\n", P[q].nm, v); } } }
		uint32_t s32 = seed; uint64_t e_ie = crc_bit(32, 0x04c11db7, ~s32, 0, 0xffffffff, p, L), e_gz = crc_bit(32, 0x04c11db7, ~s32, 1, 0xffffffff, p, L), e_is = crc_bit(32, 0x1edc6f41, s32, 1, 0, p, L), e_t = crc_bit(16, 0x8bb7, s32 & 0xffff, 0, 0, p, L);
		/* note reflected init: crc_bit applies init before reflection of result; for refl algorithms init must be given reflected */
		e_gz = crc_bit(32, 0x04c11db7, refl((uint32_t) ~s32, 32), 1, 0xffffffff, p, L); e_is = crc_bit(32, 0x1edc6f41, refl(s32, 32), 1, 0, p, L);
		for (int v = 0; v < 6; v++) { n++; if (ie[v](s32, p, L) != e_ie) { if (bad++ < 10) printf("BAD crc32_ieee v%d len=%d\n", v, L); } if (ie[v](ie[v](s32, p, split), p + split, L - split) != e_ie) { if (bad++ < 10) printf("BAD split ieee v%d\n", v); } }
		for (int v = 0; v < 5; v++) { n++; if (gz[v](s32, p, L) != e_gz) { if (bad++ < 10) printf("BAD crc32_gzip v%d len=%d\n", v, L); } if (is[v](p, L, s32) != e_is) { if (bad++ < 10) printf("BAD iscsi v%d len=%d got=%x exp=%lx\n", v, L, is[v](p, L, s32), e_is); } }
		for (int v = 0; v < 6; v++) { n++; if (t1[v](s32, p, L) != e_t) { if (bad++ < 10) printf("BAD t10dif v%d len=%d\n", v, L); } }
		uint16_t (*cp[4])(uint16_t, uint8_t *, uint8_t *, uint64_t) = { crc16_t10dif_copy_base, crc16_t10dif_copy_by4, crc16_t10dif_copy_by4_02, crc16_t10dif_copy }; for (int v = 0; v < 4; v++) { n++; memset(dst, 0xcc, L + 64); uint8_t *d = dst + (rnd() % 32); uint16_t c = cp[v](s32, d, p, L); if (c != e_t || memcmp(d, p, L) || d[L] != 0xcc || (d > dst && d[-1] != 0xcc)) { if (bad++ < 10) printf("BAD t10dif_copy v%d len=%d\n", v, L); } }
		uint32_t ai = rep == 0 ? 1 : ((rnd() % 65521) << 16 | (rnd() % 65521)); uint32_t ea = adler_ref(ai, p, L); for (int v = 0; v < 4; v++) { n++; if (ad[v](ai, p, L) != ea) { if (bad++ < 10) printf("BAD adler v%d len=%d init=%x\n", v, L, ai); } }
	} }
	/* zero detect */
	int (*zd[6])(void *, size_t) = { mem_zero_detect_base, mem_zero_detect_sse, mem_zero_detect_avx, mem_zero_detect_avx2, mem_zero_detect_avx512, isal_zero_detect }; long nz = 0;
	for (int len = 0; len <= 700; len++) for (int al = 0; al < 64; al += 7) { uint8_t *p = buf + 64 + al; memset(buf, 0xff, 64 + al); memset(p, 0, len); memset(p + len, 0xff, 64); for (int v = 0; v < 6; v++) { nz++; if (zd[v](p, len) != 0) { if (bad++ < 10) printf("BAD zero v%d len=%d al=%d (all zero reported nonzero)\n", v, len, al); } }
		for (int pos = 0; pos < len; pos += (len > 200 ? 1 + rnd() % 3 : 1)) { p[pos] = 1 << (rnd() % 8); for (int v = 0; v < 6; v++) { nz++; if (zd[v](p, len) == 0) { if (bad++ < 10) printf("BAD zero v%d len=%d pos=%d (missed)\n", v, len, pos); } } p[pos] = 0; } }
	printf("crc/adler evaluations=%ld zero-detect evaluations=%ld bad=%ld\n", n, nz, bad);
	return 0;
}
