#include <stdio.h>
#include <stdlib.h>
#include <string.h>
#include <stdint.h>
#include <zlib.h>
#include "igzip_lib.h"
static uint64_t rs = 88172645463325252ull;
static uint32_t rnd(void) { rs ^= rs << 13; rs ^= rs >> 7; rs ^= rs << 17; return rs >> 11; }
static size_t comp(int lvl, uint8_t *lb, uint32_t lbsz, const uint8_t *dict, uint32_t dlen, int use_processed, const uint8_t *in, int n, uint8_t *out, size_t cap, int *retcode)
{
	struct isal_zstream s; isal_deflate_init(&s); s.level = lvl; s.level_buf = lb; s.level_buf_size = lbsz; int r;
	if (use_processed) { struct isal_dict *d = calloc(1, sizeof *d); r = isal_deflate_process_dict(&s, d, (uint8_t *) dict, dlen); if (!r) r = isal_deflate_reset_dict(&s, d); free(d); } else r = isal_deflate_set_dict(&s, (uint8_t *) dict, dlen);
	*retcode = r; if (r) return 0;
	int ip = 0; s.next_out = out; s.avail_out = cap; while (s.internal_state.state != ZSTATE_END) { int c = 1 + rnd() % 40000; if (c > n - ip) c = n - ip; s.next_in = (uint8_t *) in + ip; s.avail_in = c; ip += c; s.end_of_stream = ip == n; isal_deflate(&s); if (!s.avail_out) break; } return s.total_out;
}
int main(int argc, char **argv)
{
	int iters = argc > 1 ? atoi(argv[1]) : 500; if (argc > 2) rs = strtoull(argv[2], 0, 0); long bad = 0, cases = 0, chain = 0;
	for (int it = 0; it < iters; it++) {
		int dlen = (rnd() % 3 == 0) ? 1 + rnd() % 300 : 1 + rnd() % 70000; uint8_t *dict = malloc(dlen); for (int i = 0; i < dlen; i++) dict[i] = "abcdefghijklmnop"[rnd() % 16];
		int n = 1 + rnd() % 100000; uint8_t *in = malloc(n); for (int i = 0; i < n; i++) in[i] = rnd() % 5 == 0 ? rnd() : 0; /* fill with pieces of dict incl. its tail and its far head */
		for (int pos = 0; pos + 64 < n; pos += 64 + rnd() % 500) { int l = 8 + rnd() % 56; int from = rnd() % 2 ? (dlen > l ? dlen - l - (int) (rnd() % (dlen - l > 200 ? 200 : dlen - l + 1)) : 0) : rnd() % dlen; if (from + l > dlen) l = dlen - from; memcpy(in + pos, dict + from, l); }
		int lvl = rnd() % 4; uint32_t lbsz = lvl == 0 ? 0 : lvl == 1 ? ISAL_DEF_LVL1_DEFAULT : lvl == 2 ? ISAL_DEF_LVL2_DEFAULT : ISAL_DEF_LVL3_DEFAULT; uint8_t *lb = lvl ? malloc(lbsz) : 0;
		size_t cap = 3 * (size_t) n + 70000; uint8_t *o1 = malloc(cap), *o2 = malloc(cap), *o3 = malloc(cap); int r1, r2, r3; cases++;
		uint64_t save = rs; size_t l1 = comp(lvl, lb, lbsz, dict, dlen, 0, in, n, o1, cap, &r1); rs = save; size_t l2 = comp(lvl, lb, lbsz, dict, dlen, 1, in, n, o2, cap, &r2);
		const uint8_t *tail = dlen > IGZIP_HIST_SIZE ? dict + dlen - IGZIP_HIST_SIZE : dict; int tl = dlen > IGZIP_HIST_SIZE ? IGZIP_HIST_SIZE : dlen; rs = save; size_t l3 = comp(lvl, lb, lbsz, tail, tl, 0, in, n, o3, cap, &r3);
		if (r1 || r2 || r3) { printf("dict call failed r=%d,%d,%d it=%d\n", r1, r2, r3, it); bad++; }
		else { if (l1 != l2 || memcmp(o1, o2, l1)) { printf("set_dict vs process/reset differ it=%d lvl=%d dlen=%d l1=%zu l2=%zu\n", it, lvl, dlen, l1, l2); bad++; } if (l1 != l3 || memcmp(o1, o3, l1)) { printf("long dict vs its tail differ it=%d lvl=%d dlen=%d\n", it, lvl, dlen); bad++; }
			/* zlib raw inflate with dictionary */
			uint8_t *back = malloc(n + 1); z_stream z = { 0 }; inflateInit2(&z, -15); inflateSetDictionary(&z, tail, tl); z.next_in = o1; z.avail_in = l1; z.next_out = back; z.avail_out = n + 1; int zr = inflate(&z, Z_FINISH); if (zr != Z_STREAM_END || z.total_out != (uLong) n || memcmp(back, in, n)) { printf("zlib dict decode bad it=%d lvl=%d dlen=%d zr=%d %s\n", it, lvl, dlen, zr, z.msg ? z.msg : ""); bad++; } inflateEnd(&z);
			/* isal inflate with dict, streaming */
			struct inflate_state *st = malloc(sizeof *st); isal_inflate_init(st); if (isal_inflate_set_dict(st, dict, dlen)) { printf("inflate_set_dict failed\n"); bad++; } size_t cp = 0, bp = 0; int ret = 0; st->avail_in = 0; st->avail_out = 0; int g = 0; while (st->block_state != ISAL_BLOCK_FINISH && !ret && g++ < 1000000) { if (!st->avail_in) { size_t c = 1 + rnd() % 5000; if (c > l1 - cp) c = l1 - cp; st->next_in = o1 + cp; st->avail_in = c; cp += c; } if (!st->avail_out) { size_t c = 1 + rnd() % 9000; if (c > (size_t) n + 1 - bp) c = n + 1 - bp; st->next_out = back + bp; st->avail_out = c; } uint32_t ao = st->avail_out; ret = isal_inflate(st); bp += ao - st->avail_out; } if (ret || bp != (size_t) n || memcmp(back, in, n)) { printf("isal dict inflate bad it=%d ret=%d bp=%zu n=%d dlen=%d lvl=%d\n", it, ret, bp, n, dlen, lvl); bad++; } free(st); free(back); }
		/* wrong-state refusal without side effects */
		{ struct isal_zstream s; isal_deflate_init(&s); s.level = lvl; s.level_buf = lb; s.level_buf_size = lbsz; uint8_t ob[64]; s.next_in = in; s.avail_in = n > 5000 ? 5000 : n; s.next_out = ob; s.avail_out = 20; isal_deflate(&s); if (s.internal_state.state != ZSTATE_NEW_HDR || s.internal_state.b_bytes_processed != s.internal_state.b_bytes_valid) { struct isal_zstream cpy; memcpy(&cpy, &s, sizeof s); int r = isal_deflate_set_dict(&s, dict, dlen); if (r == COMP_OK) { printf("set_dict accepted mid-stream it=%d state=%d\n", it, s.internal_state.state); bad++; } else if (memcmp(&cpy, &s, sizeof s)) { printf("set_dict refused but modified stream it=%d\n", it); bad++; } } }
		/* stateless FULL_FLUSH chain */
		{ int parts = 2 + rnd() % 4; size_t op = 0; int ip = 0; int ok = 1; for (int p = 0; p < parts; p++) { int c = p == parts - 1 ? n - ip : rnd() % (n - ip + 1); struct isal_zstream s; isal_deflate_stateless_init(&s); s.level = lvl; s.level_buf = lb; s.level_buf_size = lbsz; s.flush = p == parts - 1 ? NO_FLUSH : FULL_FLUSH; s.next_in = in + ip; s.avail_in = c; s.next_out = o3 + op; s.avail_out = cap - op; int r = isal_deflate_stateless(&s); if (r) { printf("stateless chain r=%d\n", r); ok = 0; bad++; break; } op += s.total_out; ip += c; }
			if (ok) { chain++; uint8_t *back = malloc(n + 1); z_stream z = { 0 }; inflateInit2(&z, -15); z.next_in = o3; z.avail_in = op; z.next_out = back; z.avail_out = n + 1; int zr = inflate(&z, Z_FINISH); if (zr != Z_STREAM_END || z.total_out != (uLong) n || memcmp(back, in, n) || z.avail_in) { printf("stateless FULL_FLUSH chain bad it=%d lvl=%d zr=%d %s\n", it, lvl, zr, z.msg ? z.msg : ""); bad++; } inflateEnd(&z); free(back); } }
		free(dict); free(in); free(o1); free(o2); free(o3); free(lb);
	}
	printf("iters=%d dictcases=%ld chains=%ld bad=%ld (IGZIP_HIST_SIZE=%d)\n", iters, cases, chain, bad, IGZIP_HIST_SIZE);
	return 0;
}
