"""Runner, aggregation of engine records, known-findings matching, evidence writer."""
import fnmatch, hashlib, json, os, re, subprocess, sys, time
from concurrent.futures import ThreadPoolExecutor
from . import build

VERIF = build.VERIF
EVID = os.environ.get("VERIF_EVIDENCE") or os.path.join(VERIF, "evidence")
REPLAYS = os.environ.get("VERIF_REPLAYS") or os.path.join(VERIF, "replays")
KNOWN = os.path.join(VERIF, "known_findings.json")


class Agg:
    """Aggregated observations of one check run."""

    def __init__(self):
        self.stats = {}
        self.sets = {}
        self.cnts = {}
        self.samples = []
        self.masks = {}
        self.viols = []      # dicts: key,msg,case,idx,run(spec)
        self.harness_errors = []
        self.engine_runs = 0

    def add_record(self, rec, runinfo):
        t = rec.get("t")
        if t == "stat":
            self.stats[rec["k"]] = self.stats.get(rec["k"], 0) + rec["v"]
        elif t == "set":
            self.sets.setdefault(rec["k"], set()).add(rec["v"])
        elif t == "cnt":
            d = self.cnts.setdefault(rec["k"], {})
            d[rec["e"]] = d.get(rec["e"], 0) + rec["v"]
        elif t == "mask":
            self.masks[rec["k"]] = self.masks.get(rec["k"], 0) | rec["v"]
        elif t == "sample":
            if len(self.samples) < 12:
                self.samples.append(rec["v"])
        elif t == "viol":
            v = dict(rec)
            v["run"] = runinfo
            self.viols.append(v)


def _run_one(exe, args, env, timeout, log, wrapper=None):
    t = time.time()
    try:
        with open(log, "w") as lf:
            p = subprocess.run((wrapper or []) + [exe] + args, stdout=subprocess.PIPE, stderr=lf, env=env, timeout=timeout)
        return p.returncode, p.stdout.decode("utf-8", "replace"), time.time() - t
    except subprocess.TimeoutExpired as e:
        return "timeout", (e.stdout or b"").decode("utf-8", "replace"), time.time() - t


def run_engine(agg, exe, prop, tier, seed, mode, tag, nshards=None, extra=None, env_extra=None, timeout=None, fp_bits=22, only=None, scale=None, wrapper=None):
    """Run `exe` in nshards parallel processes and fold their JSON-lines output into agg."""
    nshards = nshards or build.NCPU
    if only is not None:
        nshards_run = [(only_shard, nshards) for only_shard in [only % nshards]]
    else:
        nshards_run = [(i, nshards) for i in range(nshards)]
    workdir = os.path.dirname(exe)
    fpfile = os.path.join(workdir, "fp-%s-%s.tbl" % (prop, re.sub(r"\W", "_", mode or "x")))
    with open(fpfile, "wb") as f:
        f.truncate(8 << fp_bits)
    env = dict(os.environ)
    env.setdefault("ASAN_OPTIONS", "abort_on_error=1:detect_leaks=0:handle_segv=0:handle_sigbus=0:handle_abort=0:handle_sigill=0:handle_sigfpe=0:allow_user_segv_handler=1:detect_stack_use_after_return=0:quarantine_size_mb=8")
    env.setdefault("UBSAN_OPTIONS", "print_stacktrace=1:halt_on_error=1:abort_on_error=1")
    env.setdefault("TSAN_OPTIONS", "halt_on_error=0:report_signal_unsafe=0:second_deadlock_stack=1")
    if env_extra:
        env.update(env_extra)
    timeout = timeout or (7200 if tier == "thorough" else 1500)
    jobs = []
    for sh, n in nshards_run:
        args = ["--prop", prop, "--tier", tier, "--seed", str(seed), "--shard", str(sh), "--nshards", str(n), "--fpfile", fpfile]
        if mode:
            args += ["--mode", mode]
        if only is not None:
            args += ["--only", str(only), "-v"]
        if scale is not None:
            args += ["--scale", str(scale)]
        if extra:
            args += extra
        log = os.path.join(workdir, "log-%s-%s-%d.txt" % (prop, re.sub(r"\W", "_", mode or "x"), sh))
        jobs.append((args, log))
    runinfo = {"exe": os.path.basename(exe), "tag": tag, "mode": mode, "tier": tier, "seed": seed, "nshards": nshards, "extra": extra or []}
    with ThreadPoolExecutor(max_workers=build.NCPU) as ex:
        futs = [ex.submit(_run_one, exe, a, env, timeout, l, wrapper) for a, l in jobs]
        for (a, l), f in zip(jobs, futs):
            rc, out, dt = f.result()
            agg.engine_runs += 1
            done = False
            for line in out.splitlines():
                line = line.strip()
                if not line.startswith("{"):
                    continue
                try:
                    rec = json.loads(line)
                except ValueError:
                    continue
                if rec.get("t") == "done":
                    done = True
                else:
                    agg.add_record(rec, runinfo)
            errtxt = ""
            try:
                errtxt = open(l, errors="replace").read()[-3000:]
            except OSError:
                pass
            # sanitizer reports that did not stop the process (ThreadSanitizer runs with halt_on_error=0)
            try:
                full = open(l, errors="replace").read()
            except OSError:
                full = ""
            for m in re.finditer(r"SUMMARY: (ThreadSanitizer|AddressSanitizer|UndefinedBehaviorSanitizer): ([^\n]*)", full):
                what = m.group(2).strip()
                fn = re.search(r" in (\S+)\s*$", what)
                kind = what.split(" ")[0] + ("-" + what.split(" ")[1] if len(what.split(" ")) > 1 and what.split(" ")[1] in ("race", "inversion") else "")
                agg.viols.append({"key": "%s:%s:%s" % ({"ThreadSanitizer": "tsan", "AddressSanitizer": "asan", "UndefinedBehaviorSanitizer": "ubsan"}[m.group(1)], kind, fn.group(1) if fn else "?"), "msg": "sanitizer report: " + what, "case": " ".join(a), "idx": -1, "run": runinfo, "prop": prop})
                agg.stats["tsan_reports"] = agg.stats.get("tsan_reports", 0) + (1 if m.group(1) == "ThreadSanitizer" else 0)
            if wrapper and "valgrind" in wrapper[0]:
                # memcheck's control-flow complaints are recorded, not judged: the codec reads not-yet-written look-ahead slots and
                # validates them afterwards, which is benign (the prefill differential decides); only the data-flow verdict of the engine counts
                agg.stats["memcheck_uninit_branch_or_address_reports_not_judged"] = agg.stats.get("memcheck_uninit_branch_or_address_reports_not_judged", 0) + len(re.findall(r"Conditional jump or move depends|Use of uninitialised value", full))
                if re.search(r"valgrind: |Unrecognised instruction|unhandled instruction", full):
                    agg.harness_errors.append("valgrind could not run engine %s %s: %s" % (os.path.basename(exe), mode, full[-800:]))
            if rc == "timeout":
                agg.harness_errors.append("engine %s %s shard timed out after %.0fs (inconclusive)" % (os.path.basename(exe), mode, dt))
            elif rc != 0 or not done:
                if isinstance(rc, int) and rc < 0 or rc in (3, 4):
                    # killed by a signal outside an armed section: the process state was destroyed
                    # (memory corrupted by the library, or a harness bug) -- reported, never ignored
                    agg.viols.append({"key": "engine-crash:%s:%s" % (os.path.basename(exe), mode), "msg": "engine died rc=%s: %s" % (rc, errtxt[-600:]), "case": " ".join(a), "idx": -1, "run": runinfo, "prop": prop})
                else:
                    agg.harness_errors.append("engine %s %s rc=%s: %s" % (os.path.basename(exe), mode, rc, errtxt[-1500:]))
    try:
        os.unlink(fpfile)
    except OSError:
        pass
    return agg


def load_known():
    if not os.path.exists(KNOWN):
        return []
    return json.load(open(KNOWN)).get("findings", [])


def classify_violations(prop, viols):
    """Split violations into (unlisted, known) by the committed known-findings file.  'fixed' entries suppress nothing."""
    known = [k for k in load_known() if k.get("property") == prop and k.get("status") == "known"]
    unlisted, listed = [], {}
    for v in viols:
        hit = None
        for k in known:
            if fnmatch.fnmatchcase(v["key"], k["key"]):
                hit = k
                break
        if hit:
            listed.setdefault(hit["key"], (hit, []))[1].append(v)
        else:
            unlisted.append(v)
    return unlisted, listed


def write_replay(prop, v, n):
    os.makedirs(REPLAYS, exist_ok=True)
    h = hashlib.sha1(v["key"].encode()).hexdigest()[:8]
    path = os.path.join(REPLAYS, "%s-%s-%d.json" % (prop, h, n))
    json.dump({"property": prop, "key": v["key"], "msg": v.get("msg"), "case": v.get("case"), "idx": v.get("idx"), "run": v.get("run")}, open(path, "w"), indent=1)
    return path


def write_evidence(prop, tier, seed, level, coverage, assumptions, wall, nviol):
    os.makedirs(EVID, exist_ok=True)
    ev = {"property_id": prop, "tier": tier, "seed": int(seed), "level": level, "coverage": coverage,
          "assumptions": assumptions, "wall_s": round(wall, 2), "violations": nviol}
    tmp = os.path.join(EVID, prop + ".json.tmp")
    json.dump(ev, open(tmp, "w"), indent=1, sort_keys=True)
    os.replace(tmp, os.path.join(EVID, prop + ".json"))
    return ev
