"""Per-property check definitions: which builds, engines and workloads decide each property,
how coverage is summarised into the evidence file, and the floors below which a run is inconclusive."""


def popcount(x):
    return bin(x).count("1")


def kern_cov(rule, explanation):
    def f(ctx, agg):
        calls = agg.cnts.get("calls", {})
        judged = agg.cnts.get("judged", {})
        res = {k.split(":", 1)[1]: popcount(v) for k, v in agg.masks.items() if k.startswith("len_residues_mod64:")}
        aln = {k.split(":", 1)[1]: popcount(v) for k, v in agg.masks.items() if k.startswith("dest_align_mod64:") or k.startswith("align_mod64:")}
        return {
            "rule": rule,
            "explanation": explanation,
            "variant_symbols_called": len(calls),
            "calls_per_symbol": dict(sorted(calls.items())),
            "judged_against_reference_per_symbol": dict(sorted(judged.items())),
            "distinct_len_residues_mod64_per_symbol": dict(sorted(res.items())),
            "distinct_alignments_mod64_per_symbol": dict(sorted(aln.items())),
            "cpu_levels_simulated": sorted(agg.sets.get("cpu_levels", [])),
        }
    return f


def kern_floor(min_syms, min_res=None):
    def f(ctx, agg):
        miss = []
        calls = agg.cnts.get("calls", {})
        if len(calls) < min_syms:
            miss.append("only %d variant symbols called (< %d)" % (len(calls), min_syms))
        for s, n in calls.items():
            if n < 20:
                miss.append("symbol %s called only %d times" % (s, n))
        if min_res:
            for k, v in agg.masks.items():
                if k.startswith("len_residues_mod64:") and popcount(v) < min_res:
                    miss.append("%s: %d residues" % (k, popcount(v)))
        if agg.stats.get("distinct_nontrivial", 0) < 100:
            miss.append("fewer than 100 distinct non-trivial cases")
        return miss
    return f


# ---------------------------------------------------------------------------------------------- C03
def run_C03(ctx):
    ctx.run("asm", "eng_ec.c")
    if ctx.thorough:
        ctx.run("c-asan", "eng_ec.c", scale=0.2)
        ctx.run("large", "eng_ec.c", scale=0.1)


def run_C13(ctx):
    ctx.run("asm", "eng_ec.c")
    if ctx.thorough:
        ctx.run("c-asan", "eng_ec.c", scale=0.2)


PROPS = {
    "C03": dict(
        run=run_C03, level="exploration",
        coverage=kern_cov(
            "cases drawn per variant symbol from PRNG(seed,index): (len, k, rows, coefficient family, per-buffer placement END/START/near-END with alignment 0..63, data); non-trivial = judged against the reference (len >= documented minimum), len>0 and some non-zero coefficient; distinct by hash of (symbol, len, k, coefficients, data tag)",
            "every exported dot-product / encode variant is called directly with guard-page-placed buffers and compared byte for byte with a shift-and-xor GF(2^8) matrix product; sources, tables and pointer arrays are re-verified and canaries around every buffer are checked; dispatchers run under simulated CPU levels through the real resolvers"),
        floors=kern_floor(40, 30),
        assumptions=["host CPU executes every variant (AVX-512+GFNI); variants it cannot execute are listed as skipped",
                     "gf tables are built with the library's own ec_init_tables* (their correctness is C12) and sized 32*k*rows as documented",
                     "direct kernels are judged only at or above their documented minimum length; below it only memory safety is asserted"],
    ),
    "C13": dict(
        run=run_C13, level="exploration",
        coverage=kern_cov(
            "update histories per variant symbol from PRNG(seed,index): zeroed (or junk) parity, every source index applied once in identity/reverse/random order plus up to 3 sources applied twice more; after EVERY single update each parity block is compared with previous ^ coef*src (reference), final parity with the reference full encode; distinct by hash of (symbol, len, k, order, coefficients, data tag)",
            "every exported multiply-accumulate / update variant and gf_vect_mul_* is called directly with guard-page-placed buffers"),
        floors=kern_floor(40, 30),
        assumptions=["host CPU executes every variant", "gf_vect_mul: src/dest 32-byte aligned as documented; a length that is not a multiple of 32 must be refused"],
    ),
}
