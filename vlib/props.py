import re
"""Per-property check definitions: which builds, engines and workloads decide each property,
how coverage is summarised into the evidence file, and the floors below which a run is inconclusive."""


def popcount(x):
    return bin(x).count("1")


def kern_cov(rule, explanation):
    def f(ctx, agg):
        calls = agg.cnts.get("calls", {})
        judged = agg.cnts.get("judged", {})
        res = {k.split(":", 1)[1]: popcount(v) for k, v in agg.masks.items() if k.startswith("len_residues_mod64:")}
        aln = {k.split(":", 1)[1]: popcount(v) for k, v in agg.masks.items() if k.startswith("dest_align_mod64:") or k.startswith("align_mod64:")}
        return {
            "rule": rule,
            "explanation": explanation,
            "variant_symbols_called": len(calls),
            "calls_per_symbol": dict(sorted(calls.items())),
            "judged_against_reference_per_symbol": dict(sorted(judged.items())),
            "distinct_len_residues_mod64_per_symbol": dict(sorted(res.items())),
            "distinct_alignments_mod64_per_symbol": dict(sorted(aln.items())),
            "cpu_levels_simulated": sorted(agg.sets.get("cpu_levels", [])),
            **({"variants_run_with_a_length_over_4GiB_whole_vs_chained": dict(sorted(agg.cnts["lengths_over_4GiB"].items()))} if "lengths_over_4GiB" in agg.cnts else {}),
        }
    return f


def kern_floor(min_syms, min_res=None):
    def f(ctx, agg):
        miss = []
        calls = agg.cnts.get("calls", {})
        if len(calls) < min_syms:
            miss.append("only %d variant symbols called (< %d)" % (len(calls), min_syms))
        for s, n in calls.items():
            if n < 20:
                miss.append("symbol %s called only %d times" % (s, n))
        if min_res:
            for k, v in agg.masks.items():
                if k.startswith("len_residues_mod64:") and popcount(v) < min_res:
                    miss.append("%s: %d residues" % (k, popcount(v)))
        if agg.stats.get("distinct_nontrivial", 0) < 100:
            miss.append("fewer than 100 distinct non-trivial cases")
        return miss
    return f


# ---------------------------------------------------------------------------------------------- C03
def run_C03(ctx):
    ctx.run("asm", "eng_ec.c")
    if ctx.thorough:
        ctx.run("c-asan", "eng_ec.c", scale=0.2)
        ctx.run("large", "eng_ec.c", scale=0.1)


def run_C13(ctx):
    ctx.run("asm", "eng_ec.c")
    if ctx.thorough:
        ctx.run("c-asan", "eng_ec.c", scale=0.2)


def run_C04(ctx):
    ctx.run("asm", "eng_crc.c")
    if ctx.thorough:
        ctx.run("c-asan", "eng_crc.c", scale=0.3)


def run_C08(ctx):
    ctx.run("asm", "eng_raid.c")
    if ctx.thorough:
        ctx.run("c-asan", "eng_raid.c", scale=0.3)


def cov_C08(ctx, agg):
    c = kern_cov(
        "per variant symbol: vects 3/4..34 dense plus {64,128,255,256,257}, len any (xor) or every documented multiple up to 2 KiB then sampled to 16 KiB (pq), legally aligned START / near-END guard placement, random data plus all-0/all-0xFF sources; check functions: reference-built consistent arrays must return 0, then single-byte corruptions (every byte position for some short arrays, tails favoured otherwise) of a source, P or Q must return non-zero; every 25th case an out-of-contract vects value with all vectors unmapped; distinct by hash of (symbol, data tag, len, vects); cases with len>0 are non-trivial",
        "P = xor and Q = sum 2^i D_i (Horner, reference GF) compared byte for byte; two-erasure recovery solved with the reference field from the library's own P and Q")(ctx, agg)
    for k in ("corruptions_in_source", "corruptions_in_P", "corruptions_in_Q", "out_of_contract_calls"):
        c[k] = dict(sorted(agg.cnts.get(k, {}).items()))
    return c


def run_C20(ctx):
    ctx.run("asm", "eng_mem.c")
    if ctx.thorough:
        ctx.run("c-asan", "eng_mem.c")


def cov_C20(ctx, agg):
    c = kern_cov(
        "per variant symbol: every len 0..1100 x alignments (6 random per len in quick, all 64 in thorough) x placement END/START/near-END; all-zero region with 0xFF neighbours must give 0; then a single non-zero byte (values 01/80/FF) at every position for len<=140 (quick) / <=600 (thorough), else first 8, last 8 and 8 random positions, with neighbours alternately 0x00 and 0xFF; plus regions up to 1 MiB and one region above 4 GiB per variant; distinct by (symbol, len, alignment, placement); len>0 is non-trivial",
        "answers compared with the definition (0 iff all bytes zero); region ends/starts at an inaccessible page")(ctx, agg)
    c["single_byte_positions_tested"] = dict(sorted(agg.cnts.get("single_byte_positions_tested", {}).items()))
    c["regions_over_4GiB_in_fresh_processes"] = dict(sorted(agg.cnts.get("huge_region_children", {}).items()))
    c["huge_region_note"] = sorted(agg.sets.get("huge_region", [])) or "4 GiB + 1 MiB + 40 bytes of the shared zero page (MAP_NORESERVE), single non-zero byte 5 bytes before the end; every variant in a child of its own, the dispatched entry point as first, second and third call of the process"
    c["exhaustive"] = False
    return c


def run_C12(ctx):
    ctx.run("asm", "eng_gfmath.c", nshards=1)
    ctx.run("large", "eng_gfmath.c", nshards=1)
    if ctx.thorough:
        ctx.run("c-asan", "eng_gfmath.c", nshards=1)


def cov_C12(ctx, agg):
    return {"rule": "complete enumeration: all 65536 (a,b) pairs for gf_mul against shift-and-xor reduction by 0x11D, all 256 inverses, all 256 constants x 32 table entries of gf_vect_mul_init and the 256x256 table-driven products, ec_init_tables over matrices containing all 256 constants, the GFNI 8-byte affine form applied to all 256x256 (c,x) with the SDM semantics of GF2P8AFFINEQB (C emulation cross-checked with the real instruction), distributivity/associativity triples on the library alone; default and GF_LARGE_TABLES builds; distinct_nontrivial counts distinct (a,b) pairs per build",
            "explanation": "finite domain enumerated completely in each build", "exhaustive": True,
            "gfni_semantics": sorted(agg.sets.get("gfni_semantics", []))}


def run_C09(ctx):
    ctx.run("asm", "eng_gfmath.c")
    if ctx.thorough:
        ctx.run("large", "eng_gfmath.c", scale=0.3)
        ctx.run("c-asan", "eng_gfmath.c", scale=0.2)


def cov_C09(ctx, agg):
    st = agg.stats
    return {"rule": "inversion: random n x n (n<=128) in 10 families (random, duplicate row, linear combination, zero column at any index, proportional columns, scaled permutation, zero diagonal, bounded rank, zero row, sparse); library verdict compared with the reference determinant and in x out with I; generators compared with [I; 1/(i^j)] and [I; 2^((i-k)j)] for all (m,k), m<=48 and selected m up to 256; survivor patterns: EVERY k-subset for all (m,k) up to the listed m (Cauchy, and Vandermonde pairs documented safe) through gf_invert_matrix + ec_init_tables + ec_encode_data; minors of the parity block (size<=4) enumerated completely where listed, sampled otherwise; sampled full pipeline for large (m,k); distinct by hash of matrix / survivor set",
            "inversions": int(st.get("inversions", 0)), "singular_inputs": int(st.get("singular_inputs", 0)), "survivor_patterns": int(st.get("survivor_patterns", 0)),
            "minors": int(st.get("minors", 0)), "recoveries_via_ec_encode_data": int(st.get("recoveries_via_ec_encode_data", 0)), "full_inverse_decodes_with_reused_tables": int(st.get("full_inverse_decodes_with_reused_tables", 0)), "incremental_decodes_in_scrambled_order": int(st.get("incremental_decodes_in_scrambled_order", 0)), "single_block_decodes_via_gf_vect_dot_prod": int(st.get("single_block_decodes_via_gf_vect_dot_prod", 0)),
            "explanation": "differential oracle against an independent GF(2^8) implementation (determinant by elimination, matrix product)"}


def floor_C09(ctx, agg):
    st = agg.stats
    miss = []
    for k, n in (("inversions", 2000), ("singular_inputs", 300), ("survivor_patterns", 1000), ("minors", 10000), ("recoveries_via_ec_encode_data", 500)):
        if st.get(k, 0) < n:
            miss.append("%s=%d < %d" % (k, st.get(k, 0), n))
    return miss


def defl_cov(rule, expl):
    def f(ctx, agg):
        st = agg.stats
        c = {"rule": rule, "explanation": expl, "library_calls": int(st.get("library_calls", 0)),
             "cpu_levels_simulated": sorted(agg.sets.get("cpu_levels", [])),
             "streams_with_stored_fallback": int(st.get("stored_fallback_streams", 0)), "multiblock_streams": int(st.get("multiblock_streams", 0)), "inputs_over_64k": int(st.get("inputs_over_64k", 0)),
             "flush_points_checked": int(st.get("flush_points_checked", 0)), "full_flush_points": int(st.get("full_flush_points", 0)), "flush_calls_without_input_after_a_completed_flush": int(st.get("flush_calls_without_input_after_a_completed_flush", 0)), "full_flush_suffixes_over_1k": int(st.get("full_flush_suffixes_1k", 0)),
             "state_transitions_observed": dict(sorted(agg.cnts.get("state_transitions", {}).items())),
             "tmp_state_resume_points": dict(sorted(agg.cnts.get("tmp_state_resume_points", {}).items()))}
        if any(st.get(k) for k in ("inputs_with_adler_A_0", "inputs_with_adler_A_65520", "inputs_with_adler_B_0", "inputs_with_adler_B_65520")):
            c["inputs_shaped_so_that_adler32_sits_on_a_modulus_boundary"] = {k[len("inputs_with_adler_"):]: int(st.get(k, 0)) for k in ("inputs_with_adler_A_0", "inputs_with_adler_A_65520", "inputs_with_adler_B_0", "inputs_with_adler_B_65520")}
        if st.get("streams_of_4GiB_and_more"):
            c["streams_of_2^32_plus_delta_bytes_compressed_and_decoded_on_the_fly"] = int(st["streams_of_4GiB_and_more"])
        if st.get("inflate_dict_calls_refused"):
            c["inflate_set_dict_calls_refused_while_block_open"] = int(st["inflate_dict_calls_refused"])
        for k in ("invalid_params", "dict_wrong_state", "oneshot", "inflate_dict_probe_states"):
            if k in agg.cnts:
                c[k] = dict(sorted(agg.cnts[k].items()))
        return c
    return f


def defl_floor(min_streams, extra=None):
    def f(ctx, agg):
        miss = []
        if agg.stats.get("evaluations", 0) < min_streams:
            miss.append("only %d streams verified (< %d)" % (agg.stats.get("evaluations", 0), min_streams))
        if len(agg.sets.get("cpu_levels", [])) < 8:
            miss.append("fewer than 8 simulated CPU levels applied")
        if extra:
            miss += extra(ctx, agg)
        return miss
    return f


def run_C01(ctx):
    ctx.run("asm", "eng_deflate.c")
    ctx.run("hist8k", "eng_deflate.c", scale=0.15)
    ctx.run("longer", "eng_deflate.c", scale=0.15)
    if ctx.thorough:
        ctx.run("asm-assert", "eng_deflate.c", scale=0.2)
        ctx.run("asm-asan", "eng_deflate.c", scale=0.1)
        ctx.run("c-asan", "eng_deflate.c", scale=0.5)


def run_C10(ctx):
    ctx.run("asm", "eng_deflate.c")
    ctx.run("hist8k", "eng_deflate.c", scale=0.1)
    if ctx.thorough:
        ctx.run("asm-asan", "eng_deflate.c", scale=0.1)
        ctx.run("c-asan", "eng_deflate.c", scale=0.4)
        ctx.run("asm", "eng_big.c", timeout=14000)        # streams of 2^32 + delta bytes (32-bit counters wrap), decoded on the fly by zlib


def run_C14(ctx):
    ctx.run("asm", "eng_deflate.c")
    ctx.run("hist8k", "eng_deflate.c", scale=0.1)
    ctx.run("longer", "eng_deflate.c", scale=0.1)
    if ctx.thorough:
        ctx.run("c-asan", "eng_deflate.c", scale=0.4)


def run_C17(ctx):
    ctx.run("asm", "eng_deflate.c")
    ctx.run("asm", "eng_inflate.c", scale=0.5)      # decompression side: dictionary calls while a block is open
    ctx.run("hist8k", "eng_deflate.c", scale=0.15)
    ctx.run("longer", "eng_deflate.c", scale=0.15)
    if ctx.thorough:
        ctx.run("c-asan", "eng_deflate.c", scale=0.4)


def infl_cov(rule, expl):
    def f(ctx, agg):
        st = agg.stats
        c = {"rule": rule, "explanation": expl, "streams": int(st.get("streams", 0)), "library_calls": int(st.get("library_calls", 0)),
             "cpu_levels_simulated": sorted(agg.sets.get("cpu_levels", [])),
             "streams_with_code_lengths_13_to_15": int(st.get("streams_with_codes_13plus", 0)),
             "finished_results_checked_against_reference": int(st.get("finished_results_checked_against_reference", 0)),
             "mutants_still_valid_and_accepted": int(st.get("mutants_still_valid_and_accepted", 0)),
             "rejected_by_isal_but_only_the_lenient_reference_accepts": int(st.get("rejected_but_reference_lenient", 0)),
             "trailer_straddling_histories": int(st.get("trailer_straddling_histories", 0)), "need_dict_flows": int(st.get("need_dict_flows", 0)),
             "valid_streams_followed_by_foreign_bytes": int(st.get("valid_streams_followed_by_foreign_bytes", 0)), "stateless_retries_on_the_same_struct_after_overflow": int(st.get("stateless_retries_on_the_same_struct_after_overflow", 0)),
             "generated_blocks_carrying_the_library_default_header_with_foreign_tokens": int(st.get("generated_blocks_carrying_the_library_default_header_with_foreign_tokens", 0)),
             "streams_with_a_near_maximal_dynamic_header": int(st.get("streams_with_a_near_maximal_dynamic_header", 0)), "near_maximal_dynamic_header_bits_(RFC_maximum_2286)": sorted(agg.sets.get("near_maximal_dynamic_header_bits", []))}
        for k in ("systematic_header_flip_streams", "stream_source", "decodes_per_mode", "return_codes", "resume_block_states", "faults_detected", "faults_with_documented_class", "block_type_pairs", "flip_region", "systematic_split_streams"):
            if k in agg.cnts:
                c[k] = dict(sorted(agg.cnts[k].items()))
        return c
    return f


def infl_floor(min_decodes, extra=None):
    def f(ctx, agg):
        miss = []
        if agg.stats.get("evaluations", 0) < min_decodes:
            miss.append("only %d decodes judged (< %d)" % (agg.stats.get("evaluations", 0), min_decodes))
        if len(agg.sets.get("cpu_levels", [])) < 3:
            miss.append("fewer than 3 decode-kernel CPU levels")
        if extra:
            miss += extra(ctx, agg)
        return miss
    return f


def run_C02(ctx):
    ctx.run("asm", "eng_inflate.c")
    ctx.run("hist8k", "eng_inflate.c", scale=0.15)
    ctx.run("longer", "eng_inflate.c", scale=0.15)
    if ctx.thorough:
        ctx.run("asm-asan", "eng_inflate.c", scale=0.1)
        ctx.run("c-asan", "eng_inflate.c", scale=0.4)


def run_C06(ctx):
    ctx.run("asm", "eng_inflate.c")
    ctx.run("c-asan", "eng_inflate.c", scale=0.25 if ctx.thorough else 0.12)
    if ctx.thorough:
        ctx.run("asm-asan", "eng_inflate.c", scale=0.1)


def merge_cov(*fs):
    def f(ctx, agg):
        c = {}
        for g in fs:
            for k, v in g(ctx, agg).items():
                if k in ("rule", "explanation") and k in c:
                    c[k] = c[k] + " || " + v
                else:
                    c.setdefault(k, v)
        return c
    return f


def run_C07(ctx):
    ctx.run("asm", "eng_deflate.c")
    ctx.run("asm", "eng_inflate.c")
    if ctx.thorough:
        ctx.run("c-asan", "eng_deflate.c", scale=0.3)
        ctx.run("c-asan", "eng_inflate.c", scale=0.3)
        ctx.run("hist8k", "eng_deflate.c", scale=0.1)


def run_C11(ctx):
    ctx.run("asm", "eng_deflate.c", scale=0.6)
    ctx.run("asm", "eng_inflate.c")
    if ctx.thorough:
        ctx.run("c-asan", "eng_inflate.c", scale=0.3)


def run_C18(ctx):
    ctx.run("asm", "eng_huff.c")
    ctx.run("hist8k", "eng_huff.c", scale=0.15)
    ctx.run("longer", "eng_huff.c", scale=0.15)
    if ctx.thorough:
        ctx.run("c-asan", "eng_huff.c", scale=0.4)


def cov_C18(ctx, agg):
    st = agg.stats
    c = {"rule": "histograms from 13 families (all zero, single symbol, two symbols, uniform, powers of two up to 2^43, Fibonacci weights, counts near 2^44, sparse random, geometric, dense random, multiples of 2^32, deep chains ending in a literal + a length symbol (285 or another) + far distance symbols, collected from data by each isal_update_histogram variant) x default/subset builder; distinct by hash of the histogram; non-trivial = table creation returned 0 and all monitors ran",
         "explanation": "stored header parsed by the independent dynamic-header parser (Kraft completeness, exact bit length); the codes the encoder emits (lit_table, len_table, dist_table/dcodes through the encoder's own lookup helpers) for all 256 literals, all lengths 3..258 and distances of the window decoded by the reference; level-0 one-shot/streaming compression with flushes round-trips through reference and zlib under the CPU levels that select each level-0 kernel; install rules probed in many stream states; table switches at completed flush points; worst-case group workload: per table, data built so that the encoder must emit the literal with the longest code, the length with most code+extra bits and a far distance with most code+extra bits back to back at varying bit phases (the reference decoder reports the largest such group actually present in the produced streams)",
         "histogram_collector_calls_at_page_ends": int(st.get("histogram_collector_calls_at_page_ends", 0)), "tables_whose_unconstrained_huffman_depth_exceeds_15": int(st.get("tables_needing_length_limiting", 0)), "subset_tables": int(st.get("subset_tables", 0)), "roundtrips": int(st.get("roundtrips", 0)),
         "symbols_decoded_through_packed_tables": int(st.get("symbols_decoded", 0)), "set_hufftables_refused": int(st.get("set_hufftables_refused", 0)), "set_hufftables_accepted": int(st.get("set_hufftables_accepted", 0)),
         "cpu_levels_simulated": sorted(agg.sets.get("cpu_levels", [])),
         "worst_case_group_workloads": int(st.get("worst_case_group_workloads", 0)), "largest_literal_length_distance_group_bits_observed_in_a_stream": max([int(k) for k in agg.cnts.get("largest_group_bits_by_engine_process", {})] or [0]),
         "streams_with_a_group_over_56_bits": int(st.get("streams_with_a_literal_length_distance_group_over_56_bits", 0))}
    for k in ("histogram_families", "histogram_collector_calls", "set_hufftables_states_probed"):
        c[k] = dict(sorted(agg.cnts.get(k, {}).items()))
    return c


def run_C19(ctx):
    ctx.run("asm", "eng_hdr.c")
    if ctx.thorough:
        ctx.run("c-asan", "eng_hdr.c", scale=0.25)


def cov_C19(ctx, agg):
    st = agg.stats
    return {"rule": "field combinations from PRNG(seed,index): all 32 optional-field subsets x text/hcrc x time {0,1,0x01020304,~0,random} x xfl/os full byte range x extra length {0,1,255,256,65535,random} x name/comment length {0,1,255,4096,random}; zlib info 0..7, level 0..3, dict on/off, dict_id {0x01020304, random}; writer output sizes {exact, larger, required-1, 0, random smaller}; reader chunkings {all at once, one split at a random point, byte by byte, random chunks} each chunk in its own guard-page mapping released once consumed; undersized extra/name/comment buffers grown on overflow (realloc semantics) or absent; arbitrary inputs: random bytes and multi-bit-flipped / truncated valid headers; distinct by hash of the header bytes and chunking",
            "explanation": "writers compared byte for byte with an independent RFC 1952 writer (zlib: CMF, FLEVEL/FDICT, FCHECK validity, DICTID most-significant-byte-first); too-small output must return the required size and leave stream and output untouched; readers are fed bytes from the independent writer (never ISA-L's own) and must recover every field, stop exactly at the first byte after the header and only return documented status codes",
            "header_writes": int(st.get("header_writes", 0)), "too_small_output_cases": int(st.get("too_small_output_cases", 0)), "reader_calls": int(st.get("reader_calls", 0)), "overflow_resumes": int(st.get("overflow_resumes", 0)),
            "chunked_reads": int(st.get("chunked_reads", 0)), "arbitrary_inputs": int(st.get("arbitrary_inputs", 0)), "arbitrary_headers_accepted_and_cross_checked_with_the_independent_parser": int(st.get("arbitrary_headers_accepted_and_cross_checked", 0)), "arbitrary_headers_rejected_and_cross_checked": int(st.get("arbitrary_headers_rejected_and_cross_checked", 0)), "header_split_histories_through_isal_inflate": int(st.get("header_split_histories_through_isal_inflate", 0)), "reader_status_codes": dict(sorted(agg.cnts.get("reader_status_codes", {}).items()))}


C05_KEYS = ("fault:", "oob-write", "ctxinv", "source-modified", "tables-modified", "ptr-array-modified", "engine-crash", "touches-memory", "negative-vects-dereferenced", "gf_vect_mul_init-overrun", "ec_init_tables-overrun", "generator-overrun")


def run_C05(ctx):
    # workload A: every kernel variant with guard-page placement; B/C: codec one-shot and streaming with every chunk in its own
    # mapping released on consumption; D: the same codec workloads under ASan + -fsanitize=bounds
    for eng in ("eng_ec.c", "eng_crc.c", "eng_raid.c", "eng_mem.c"):
        ctx.run("asm", eng, scale=0.6)
    ctx.run("asm", "eng_deflate.c", scale=0.7)
    ctx.run("asm", "eng_inflate.c", scale=0.7)
    ctx.run("asm", "eng_hdr.c", scale=0.5)
    ctx.run("asm", "eng_huff.c", scale=0.4)
    ctx.run("c-asan", "eng_deflate.c", scale=0.25)
    ctx.run("c-asan", "eng_inflate.c", scale=0.25)
    if ctx.thorough:
        ctx.run("asm-asan", "eng_deflate.c", scale=0.15)
        ctx.run("asm-asan", "eng_inflate.c", scale=0.15)
        ctx.run("c-asan", "eng_huff.c", scale=0.3)
        ctx.run("c-asan", "eng_hdr.c", scale=0.3)
        ctx.run("hist8k", "eng_deflate.c", scale=0.1)
    # only memory-safety monitors belong to this property; functional oracles of the shared engines are other properties' business
    ctx.agg.viols = [v for v in ctx.agg.viols if v["key"].startswith(C05_KEYS)]


def cov_C05(ctx, agg):
    calls = agg.cnts.get("calls", {})
    return {"rule": "workload A: every exported EC / CRC / Adler / RAID / zero-detect / histogram kernel variant with every length class and each buffer placed so that it ends directly before or starts directly after an inaccessible page (or near the end with a chosen alignment, the pad being canary); B: one-shot compression/decompression with exact-size END-placed input, output, level_buf, hufftables, dictionary and context; C: streaming histories in which every input and output chunk is its own exact-size mapping that is made PROT_NONE as soon as it is consumed/drained; D: B and C on the all-C build under ASan + -fsanitize=bounds; distinct_nontrivial is the engines' distinct case count",
            "explanation": "oracle = MMU (guard pages, released chunks), canaries around every buffer, context invariants, sanitizer reports; a fault is attributed to the registered buffer and the faulting library symbol",
            "kernel_variant_symbols_called": len(calls), "kernel_calls": int(sum(calls.values())), "codec_library_calls": int(agg.stats.get("library_calls", 0)),
            "cpu_levels_simulated": sorted(agg.sets.get("cpu_levels", [])), "tmp_state_resume_points": dict(sorted(agg.cnts.get("tmp_state_resume_points", {}).items()))}


def run_C16(ctx):
    from . import disp
    disp.run(ctx)


def cov_C16(ctx, agg):
    d = getattr(ctx, "disp", {})
    c = {"rule": "dependency-closed assignments of the CPUID/XCR0 bits the resolvers examine: SSE level {none, SSE3, SSE4.1, SSE4.2} x PCLMULQDQ x Avoton model x OSXSAVE/XCR0 {off, x87, SSE, AVX, AVX-512} x AVX x AVX2 x AVX512F with subsets of DQ/CD/BW/VL x subsets of GFNI/VAES/VPCLMULQDQ x {none, all, each-one-missing} of VBMI2/VNNI/BITALG/VPOPCNTDQ (quick: a covering subset; thorough: the whole closed space); every configuration is distinct by construction and non-trivial (42 real resolver executions each)",
         "explanation": "each resolver's unmodified machine code runs under the x86 trap flag with CPUID/XGETBV emulated from the simulated register file; for every distinct slot assignment a battery over all public APIs runs under the same single-step tracer, every executed instruction inside library code is classified from the disassembly of the same binary and must be available in every configuration that produced that assignment; deterministic battery results must be identical across assignments and compression output must decode by the independent reference",
         "exhaustive": bool(ctx.thorough)}
    c.update({k: v for k, v in d.items()})
    c["resolver_executions"] = int(agg.stats.get("resolver_executions", 0)); c["resolver_single_steps"] = int(agg.stats.get("resolver_single_steps", 0))
    c["cpuid_emulated"] = int(agg.stats.get("cpuid_emulated", 0)); c["xgetbv_emulated"] = int(agg.stats.get("xgetbv_emulated", 0))
    c["evaluations"] = int(d.get("configs", 0)); c["distinct_nontrivial"] = int(d.get("configs", 0))
    return c


def floor_C16(ctx, agg):
    d = getattr(ctx, "disp", {})
    miss = []
    if d.get("configs", 0) < 300:
        miss.append("only %d configurations" % d.get("configs", 0))
    if d.get("traced_assignments", 0) < d.get("distinct_slot_assignments", 0):
        miss.append("not every slot assignment was traced")
    codec = re.compile(r"^(isal_deflate|encode_deflate|gen_icf|set_long|decode_huffman|isal_update_hist|icf_body|isal_inflate|adler32|isal_adler|crc32_gzip)")
    frac = {s: f for s, f in d.get("executed_fraction_per_selected_implementation", {}).items() if ctx.thorough or not codec.match(s)}
    low = {s: f for s, f in frac.items() if f < 0.4}
    if frac and len(low) > len(frac) * 0.15:
        miss.append("battery executed < 40%% of the instructions of %d of %d selected implementations: %s" % (len(low), len(frac), sorted(low.items())[:20]))
    return miss


VALGRIND = ["valgrind", "-q", "--tool=memcheck", "--error-exitcode=0", "--error-limit=no", "--num-callers=12", "--undef-value-errors=yes", "--leak-check=no"]


def run_C15(ctx):
    def hung():   # a library call that never returns has been seen: the verdict is settled, further modes would only wait for their watchdogs
        return any(":hang" in v["key"] or v["key"].startswith("hang:") or "watchdog" in v.get("msg", "") for v in ctx.agg.viols)
    ctx.run("asm", "eng_thr.c", mode="prefill")
    for lvl in (("avx2", "sse", "base") if not ctx.thorough else ("avx2", "avx", "sse", "base", "avx512")):   # same differential under lesser dispatcher outcomes
        if not hung():
            ctx.run("asm", "eng_thr.c", mode="prefill:" + lvl)
    for lvl in ("native", "avx2", "avx", "sse", "base"):       # library data read-only under several dispatcher outcomes
        if not hung():
            ctx.run("so", "eng_thr.c", mode="ro:" + lvl, nshards=1)
    if hung():
        return
    ctx.run("asm", "eng_thr.c", mode="cold")
    # memcheck definedness tracking: all caller memory undefined, result digests must come out fully defined
    ctx.run("asm", "eng_thr.c", mode="taint", wrapper=VALGRIND, timeout=3000 if not ctx.thorough else 14000)
    ctx.run("c-tsan", "eng_thr.c", mode="threads", nshards=1, env_extra={"TSAN_OPTIONS": "halt_on_error=0:exitcode=0:report_signal_unsafe=0"})
    if ctx.thorough:
        ctx.run("c-asan", "eng_thr.c", mode="prefill", scale=1.0)
        ctx.run("hist8k", "eng_thr.c", mode="prefill")


def cov_C15(ctx, agg):
    st = agg.stats
    return {"rule": "11 API scenarios (one-shot and streaming compression, decompression, table creation, dictionaries, erasure code, checksums/zero detect, RAID, headers, reuse histories for deflate and inflate) x up to 160 parameter variants; (e) each variant run 10 times: context / level_buf / output / output structs pre-filled with 00, FF, A5, random bytes, 32-bit words of 9, at two different addresses; reuse histories {use,reset,reuse keeping user fields | use,reset,re-set fields | use,init,reuse} compared with a fresh context; (a) 16 threads with independent contexts and shared read-only inputs after every writable page of libisal.so has been made read-only; (b) first calls raced from 2/4/16 threads in fresh processes; (c) the threaded workload on the all-C build under ThreadSanitizer; distinct = distinct (scenario, variant, repetition)",
            "explanation": "digest of everything observable (output bytes, return codes, totals, final states, output structs) must be identical across prefills, addresses, reuse histories, threads and serial execution; a write to library-owned data after warm-up faults",
            "threads": int(st.get("threads", 0)), "library_pages_made_read_only": int(st.get("library_pages_made_read_only", 0)), "cold_start_processes": int(st.get("cold_start_processes", 0)), "direct_kernel_variant_calls_under_protection": int(st.get("direct_kernel_variant_calls_under_protection", 0)), "cpu_levels_with_read_only_library_data": sorted(agg.sets.get("cpu_levels", [])),
            "scenario_runs": dict(sorted(agg.cnts.get("scenario_runs", {}).items())), "tsan_reports": int(st.get("tsan_reports", 0)),
            "prefill_differential_cpu_levels": sorted(agg.sets.get("prefill_cpu_levels", [])),
            "memcheck_taint": {"what": "valgrind memcheck run of every scenario with all caller-provided memory (context, level_buf, output, scratch) marked undefined; the digest of everything observable must be fully defined (data-flow taint; control-flow dependence is decided by the prefill differential, memcheck's branch reports are only counted)",
                               "runs": int(st.get("taint_runs", 0)), "bytes_marked_undefined": int(st.get("bytes_marked_undefined", 0)), "monitor_selftest_flagged": int(st.get("monitor_selftest_flagged", 0)),
                               "scenario_runs": dict(sorted(agg.cnts.get("taint_scenario_runs", {}).items())),
                               "uninit_branch_or_address_reports_not_judged": int(st.get("memcheck_uninit_branch_or_address_reports_not_judged", 0))}}


PROPS = {
    "C15": dict(run=run_C15, level="exploration", coverage=cov_C15,
                floors=lambda ctx, agg: ([] if agg.stats.get("taint_runs", 0) >= 100 else ["only %d memcheck taint runs" % agg.stats.get("taint_runs", 0)]) + ([] if agg.stats.get("library_pages_made_read_only", 0) > 0 else ["no library pages protected"]) + ([] if agg.stats.get("threads", 0) >= 16 else ["threads"]) + ([] if agg.stats.get("cold_start_processes", 0) >= 11 else ["cold starts %d" % agg.stats.get("cold_start_processes", 0)]),
                assumptions=["'for all interleavings' is replaced by the observation that nothing in library-owned memory is written after the one-time selection, plus stress; the benign idempotent slot store of the resolvers is excluded by warming up first",
                             "isal_update_histogram accumulates into a caller-zeroed histogram (documented usage)"]),
    "C16": dict(run=run_C16, level="exploration", coverage=cov_C16, floors=floor_C16,
                assumptions=["extensions the resolvers do not test but kernels use are tied to the generation that always ships them: SSSE3 with SSE4.1, POPCNT with SSE4.2, BMI1/BMI2/LZCNT/MOVBE with AVX2",
                             "tzcnt is treated as baseline (executes as bsf with the same result for non-zero inputs)", "any EVEX-encoded instruction requires the full AVX-512 F/DQ/CD/BW/VL set and OS-enabled ZMM state",
                             "the host CPU supports every simulated configuration, so selected code can actually be executed and traced"]),
    "C05": dict(run=run_C05, level="exploration", coverage=cov_C05,
                floors=lambda ctx, agg: ([] if len(agg.cnts.get("calls", {})) >= 150 else ["only %d kernel symbols called" % len(agg.cnts.get("calls", {}))]) + ([] if agg.stats.get("library_calls", 0) >= 100000 else ["codec calls %d" % agg.stats.get("library_calls", 0)]),
                assumptions=["declared ranges follow the headers: gf tables 32*k*rows, documented alignment and length multiples for RAID and gf_vect_mul, contexts/level_buf/tables at malloc-grade alignment",
                             "over-reads that stay inside the caller's own buffers are invisible to page protection (caught only as wrong results by C03/C13)"]),
    "C19": dict(run=run_C19, level="exploration", coverage=cov_C19,
                floors=lambda ctx, agg: ([] if agg.stats.get("overflow_resumes", 0) >= 500 else ["overflow resumes %d" % agg.stats.get("overflow_resumes", 0)]) + ([] if agg.stats.get("too_small_output_cases", 0) >= 500 else ["too-small cases"]) + ([] if agg.stats.get("chunked_reads", 0) >= 3000 else ["chunked reads"]),
                assumptions=["FCHECK may be any value making CMF*256+FLG a multiple of 31 (0 or 31 when both fit)", "on overflow the caller re-supplies a larger buffer that keeps the bytes already copied (realloc semantics, as in the repository's own test)"]),
    "C18": dict(run=run_C18, level="exploration", coverage=cov_C18,
                floors=lambda ctx, agg: ([] if agg.stats.get("tables_needing_length_limiting", 0) >= 200 else ["only %d tables needed length limiting" % agg.stats.get("tables_needing_length_limiting", 0)]) + ([] if agg.stats.get("roundtrips", 0) >= 2000 else ["roundtrips %d" % agg.stats.get("roundtrips", 0)]) + ([] if agg.stats.get("worst_case_group_workloads", 0) >= 1500 else ["worst-case group workloads %d" % agg.stats.get("worst_case_group_workloads", 0)]) + ([] if len(agg.cnts.get("set_hufftables_states_probed", {})) >= 3 else ["states probed %s" % agg.cnts.get("set_hufftables_states_probed", {})]),
                assumptions=["the encoder's per-symbol lookup is observed through the inline helpers of igzip/huffman.h (the same ones isal_deflate_body_base uses)", "subset tables are only used with data whose literals had non-zero counts"]),
    "C07": dict(
        run=run_C07, level="exploration",
        coverage=merge_cov(defl_cov(
            "compression histories: disciplines refill-before-drain / drain-before-refill / random; input chunk sizes {0,1,2,3,7,8,9,15,16,17,31,32,33,255,256,257,288,289,32767,32768,32769,65535,65536,all,random}; output chunk sizes {1,2,3,7,8,9,15,16,17,64,223,224,225,327,328,329,all,random,1..7,alternating 1/300,geometric}; flush mode re-drawn per call from 6 scripts (incl. flush starved of output then a different mode); end_of_stream with the last data / late / after several empty calls; zero-length calls; every chunk optionally in its own guard-page mapping that is unmapped once consumed; all levels, wrappers, simulated CPU levels",
            "per-call event log checked for conservation (sum consumed = total_in, sum produced = total_out), consistent next/avail/total deltas, untouched caller fields, context invariants, bounded progress (livelock / non-termination); final stream decoded by reference and zlib"),
            infl_cov("decompression histories over valid streams (grammar generated, zlib made, ISA-L made): every single split point of the input and of the output for small streams, chunk-size pairs as above, random schedules, splits inside the trailer, ISAL_NEED_DICT -> isal_inflate_set_dict -> continue",
                     "bytes, finish state, end position and checksum field must equal the reference result for every slicing")),
        floors=lambda ctx, agg: ([] if agg.stats.get("evaluations", 0) > 4000 else ["too few histories"]) + ([] if len(agg.cnts.get("tmp_state_resume_points", {})) >= 8 else ["only %d ZSTATE_TMP_* resume points seen" % len(agg.cnts.get("tmp_state_resume_points", {}))]) + ([] if len(agg.cnts.get("resume_block_states", {})) >= 9 else ["inflate resume states seen: %s" % sorted(agg.cnts.get("resume_block_states", {}))]) + ([] if sum(agg.cnts.get("systematic_split_streams", {}).values()) >= 20 else ["systematic split streams: %s" % agg.cnts.get("systematic_split_streams", {})]),
        assumptions=["flush requests are only repeated while there is unflushed input (a flush request with nothing to flush legitimately emits another empty block)"],
    ),
    "C11": dict(
        run=run_C11, level="fault_enumeration",
        coverage=merge_cov(defl_cov("producer: wrapped streams (gzip, gzip-nohdr, zlib, zlib-nohdr) from all levels under streaming schedules and one-shot calls", "trailer CRC-32/ISIZE and big-endian Adler-32 compared with the reference checksum of the input by the reference wrapper decoder and zlib"),
                           infl_cov("verifier: valid wrapped streams (ISA-L, zlib and grammar made) with single-bit flips (everywhere for streams <= 1 KiB, else header / first and last 64 bytes / trailer), byte substitutions, every kind of truncation and trailer edits; decoded stateless and streaming with chunkings that cut inside the last 12 bytes",
                                    "success is accepted only if the trailer bytes actually present equal the reference checksum/length of the bytes delivered (sound for benign flips and collisions); state->crc after completion must equal the reference checksum")),
        floors=lambda ctx, agg: (["Adler-32 boundary inputs: %s" % [int(agg.stats.get(k, 0)) for k in ("inputs_with_adler_A_0", "inputs_with_adler_A_65520", "inputs_with_adler_B_0", "inputs_with_adler_B_65520")]] if min(agg.stats.get(k, 0) for k in ("inputs_with_adler_A_0", "inputs_with_adler_A_65520", "inputs_with_adler_B_0", "inputs_with_adler_B_65520")) < 10 else []) + ([] if agg.stats.get("trailer_straddling_histories", 0) >= 2000 else ["trailer straddling histories %d" % agg.stats.get("trailer_straddling_histories", 0)]) + ([] if agg.stats.get("mutants_still_valid_and_accepted", 0) >= 1 else ["no benign mutation observed"]) + ([] if len(agg.cnts.get("flip_region", {})) >= 3 else ["flip regions %s" % agg.cnts.get("flip_region", {})]),
        assumptions=["*_NO_HDR modes do not consume or verify the trailer (documented); gzip header reserved bits are not judged"],
    ),
    "C02": dict(
        run=run_C02, level="exploration",
        coverage=infl_cov(
            "valid streams from three sources: the deflate grammar generator (stored/fixed/dynamic blocks in any order, random complete prefix codes up to depth 15 incl. forced deep and skewed codes, single-code and empty alphabets, 16-after-zero-run code-length encodings, all length/distance symbols incl. distance 32768, overlapping copies, long literal runs), zlib (levels 0-9, 5 strategies, window 9..15, random flushes, dictionaries) and ISA-L itself; gzip headers with random optional fields, zlib headers; each decoded in every applicable wrapper mode stateless (ample / exact / too small output) and streaming (one call, random schedule with fresh guard-page mappings, split inside the trailer) under the CPU levels that select each decode kernel; distinct by hash of the stream",
            "expected bytes come from the generator's token list (no decoder involved) and are re-confirmed by the reference decoder (a disagreement there is a harness failure); ISA-L must finish with ISAL_DECOMP_OK/ISAL_BLOCK_FINISH, identical bytes, end position = bytes taken - read_in_length/8 equal to the true end, state->crc equal to the reference checksum; reduced-window builds decode their own output"),
        floors=infl_floor(3000, lambda ctx, agg: (["fewer than 300 streams with 13-15 bit codes"] if agg.stats.get("streams_with_codes_13plus", 0) < 300 else []) + (["block type pairs seen: %d of 9" % len(agg.cnts.get("block_type_pairs", {}))] if len(agg.cnts.get("block_type_pairs", {})) < 9 else []) + (["wrapper modes: %d of 7" % len(agg.cnts.get("decodes_per_mode", {}))] if len(agg.cnts.get("decodes_per_mode", {})) < 7 else []) + (["fewer than 100 blocks with the library's default header and foreign tokens"] if agg.stats.get("generated_blocks_carrying_the_library_default_header_with_foreign_tokens", 0) < 100 else [])),
        assumptions=["inflate_state at malloc-grade alignment; data buffers arbitrary", "generator emits only grammatically valid streams (checked against the reference decoder and, in setup, zlib)"],
    ),
    "C06": dict(
        run=run_C06, level="fault_enumeration",
        coverage=infl_cov(
            "hostile inputs: pure random bytes (with and without valid magic), 16 grammar-level fault classes injected by the generator with 80 bytes of trailing input (BTYPE=3, LEN/NLEN, HLIT/HDIST>29, over-subscribed code-length / lit-len / distance sets, repeat without previous, repeat overrun, missing EOB code, symbols 286/287, distance 30/31, unassigned code of an incomplete set, distance beyond output), and single-bit flips / byte substitutions / truncations / trailer edits of valid streams from all three sources; each decoded stateless with output sizes {0,1,7,8,exact-1,exact,exact+1,big} and streaming with random chunking in fresh guard-page mappings, in every wrapper mode, on the assembly build and the all-C ASan+bounds build; distinct by hash of the mutated stream",
            "a 'finished' result is accepted only if the independent decoder also decodes the stream (lenient exactly where RFC 1951 is) to the same bytes and, in verifying modes, the stored trailer matches; return codes must be documented ones; every call must make progress or report; injected single faults must return the documented class; ISA-L refusing what only the lenient reference accepts is counted, not alarmed (alarmed when zlib accepts it too)"),
        floors=infl_floor(8000, lambda ctx, agg: (["fault classes detected: %d of 16" % len(agg.cnts.get("faults_detected", {}))] if len(agg.cnts.get("faults_detected", {})) < 16 else []) + (["negative return codes seen: %s" % sorted(k for k in agg.cnts.get("return_codes", {}) if k.startswith("-"))] if len([k for k in agg.cnts.get("return_codes", {}) if k.startswith("-")]) < 6 else [])),
        assumptions=["HDIST 30/31 is refused by ISA-L and zlib but not forbidden by RFC 1951: only the returned class is compared", "reserved gzip FLG bits and zlib CINFO > 7 are not treated as errors by the oracle (the property does not claim them)"],
    ),
    "C10": dict(
        run=run_C10, level="exploration",
        coverage=defl_cov(
            "one-shot: inputs (empty, incompressible incl. 65535k+-1, compressible, constant) x level x wrapper x flush with avail_out drawn around the stored-block bound (bound-9..bound+9), around the header size, {0,1,7,8}, uniformly below the bound and bound+16, output END-placed at a guard page; streaming termination: end_of_stream with output chunk sequences constant 1/2/3, 1..7 random, alternating 1/300, geometric; every 10th case an invalid parameter (level 4/5/huge, flush 3+/0xFFFF, NULL or undersized level_buf); distinct by hash of (parameters, output)",
            "bound = n + 5*max(1,ceil(n/65535)) + header + trailer computed independently; avail_out >= bound must give COMP_OK with total_out <= bound; COMP_OK must always be a complete stream (reference + zlib); overflow must be reported as STATELESS_OVERFLOW; counters must equal bytes actually consumed/produced; a history that never reaches ZSTATE_END within 20000+600n calls is a violation"),
        floors=defl_floor(1500, lambda ctx, agg: (["fewer than 300 overflow reports observed"] if agg.cnts.get("oneshot", {}).get("overflow_reported", 0) < 300 else []) + (["invalid parameter classes: %s" % sorted(agg.cnts.get("invalid_params", {}))] if len(agg.cnts.get("invalid_params", {})) < 7 else [])),
        assumptions=["undersized level_buf may be reported as ISAL_INVALID_LEVEL or ISAL_INVALID_LEVEL_BUF (the property only requires an error code)", "one-shot level 1 with NULL level_buf is the documented internal-buffer fallback and must succeed"],
    ),
    "C14": dict(
        run=run_C14, level="exploration",
        coverage=defl_cov(
            "streaming histories on inputs with strong cross-flush redundancy (the same 1-8 KiB phrase repeated), flush mode per call from scripts (constant SYNC/FULL, sparse SYNC, sparse FULL, uniformly mixed), all levels/wrappers, output chunkings incl. <8 bytes; every 7th case a chain of 2..6 one-shot FULL_FLUSH calls plus a final NO_FLUSH call; distinct by hash of (parameters, output)",
            "event-log monitor: at every call made with SYNC/FULL that returns with all input consumed and output space left the output so far must end 00 00 FF FF, the state must be ZSTATE_NEW_HDR and (for up to 6 points per stream) the reference decoder in prefix mode must deliver exactly the bytes fed so far; after completion the remainder from every completed FULL flush point is decoded on its own (no history) and must equal the remaining input; one-shot chains are concatenated and decoded by reference and zlib"),
        floors=defl_floor(1200, lambda ctx, agg: (["only %d flush points" % agg.stats.get("flush_points_checked", 0)] if agg.stats.get("flush_points_checked", 0) < 3000 else []) + (["only %d full-flush suffixes >= 1 KiB" % agg.stats.get("full_flush_suffixes_1k", 0)] if agg.stats.get("full_flush_suffixes_1k", 0) < 300 else [])),
        assumptions=["a flush point is judged exactly where the property defines it (flush call returned, avail_in == 0, avail_out > 0)"],
    ),
    "C17": dict(
        run=run_C17, level="exploration",
        coverage=defl_cov(
            "inputs with a phrase repeated at distances 2^w-2..2^w+2, 32766..32770, 65534..65538 and random, w = hist_bits 9..15 (and 0), all levels, one-shot and streaming with random chunking, flush modes; half of the cases use a preset dictionary (length 1..70000, set directly or via process_dict+reset_dict) with data quoting the dictionary tail and the part beyond the window; every 12th case a dictionary call in a wrong state (mid-block, level changed); distinct by hash of (parameters, output)",
            "instrumented reference decode reports the maximum match distance: must be <= 2^w and <= 32768, never before the start of output+dictionary; zlib CINFO must cover the window; dictionary streams decoded by the reference primed with the same dictionary (and zlib inflateSetDictionary for raw streams); wrong-state dictionary calls must fail and leave the stream struct byte-identical"),
        floors=defl_floor(1500, lambda ctx, agg: ([] if len(agg.cnts.get("dict_wrong_state", {})) >= 3 else ["dictionary wrong-state classes %s" % sorted(agg.cnts.get("dict_wrong_state", {}))]) + ([] if agg.stats.get("inflate_dict_calls_refused", 0) >= 300 else ["inflate dictionary probes %d" % agg.stats.get("inflate_dict_calls_refused", 0)])),
        assumptions=["window of the hist8k/LONGER_HUFFTABLE builds is 8 KiB"],
    ),
    "C01": dict(
        run=run_C01, level="exploration",
        coverage=defl_cov(
            "cases from PRNG(seed,index) per simulated CPU level: input family (empty, tiny, constant runs at the 258/115/130/230 thresholds, incompressible, text, long-range repeats at window edges, 65535-multiples, >64 KiB mixed) x level 0-3 x one-shot/streaming x flush x 5 wrappers x hist_bits {0,9..15} x table {default,static,custom} x level_buf size {MIN,SMALL,DEFAULT,XL,odd}; distinct by hash of (parameters, compressed bytes); non-trivial = non-empty input that completed",
            "every produced stream is decoded by an independent RFC 1951/1950/1952 decoder and by zlib: must be accepted, reproduce the input exactly, be consumed to its last byte, trailer accepted; all dispatched igzip kernels are selected by the real resolvers under 11 simulated CPU levels; hist8k and LONGER_HUFFTABLE builds repeat a reduced matrix"),
        floors=defl_floor(1500, lambda ctx, agg: [m for m in (["no stored-fallback stream seen"] if not agg.stats.get("stored_fallback_streams") else []) + (["no multi-block level 1-3 stream"] if not agg.stats.get("multiblock_streams") else []) + (["no input > 64 KiB"] if not agg.stats.get("inputs_over_64k") else [])]),
        assumptions=["contexts, level_buf and tables at malloc-grade alignment (documented usage); data buffers at arbitrary alignment and guard-page placed",
                     "the reference decoder and zlib are trusted as standards-conformant decoders (reference self-checked against zlib in setup)"],
    ),
    "C20": dict(run=run_C20, level="exploration", coverage=cov_C20, floors=kern_floor(5, 60),
                assumptions=["host CPU executes every variant"]),
    "C12": dict(run=run_C12, level="exploration", coverage=cov_C12,
                floors=lambda ctx, agg: ["evaluations %d < 2*200000" % agg.stats.get("evaluations", 0)] if agg.stats.get("evaluations", 0) < 400000 else [],
                assumptions=["reference multiplication is shift-and-xor with reduction by 0x11D, self-tested against the field axioms and the order of the generator"]),
    "C09": dict(run=run_C09, level="exploration", coverage=cov_C09, floors=floor_C09,
                assumptions=["documented-safe Vandermonde pairs: k<=3, (k=4,m<=25), (k=5,m<=10), (k<=21,m-k=4), m-k<=3; m-k<=250 so that generator powers do not repeat",
                             "a singular minor of the parity block is equivalent to an undecodable survivor set"]),
    "C08": dict(
        run=run_C08, level="exploration", coverage=cov_C08, floors=kern_floor(15, 20),
        assumptions=["host CPU executes every variant", "documented alignment (32B, 16B for sse/check) and length multiples (32B pq_gen, 16B sse/avx/check) respected: other inputs are outside the contract",
                     "len == 0: only memory safety asserted"],
    ),
    "C04": dict(
        run=run_C04, level="exploration",
        coverage=kern_cov(
            "per variant symbol: systematic sweep of every length 0..1100, then random lengths up to 1 MiB and one multi-MiB buffer; per case random seed (0, all-ones, single bit, random; valid Adler states), placement END/START/near-END with alignment 0..63, data families (random, 0xFF-saturated, zero); every split point for short buffers and random 2/3-way splits otherwise; distinct by hash of (symbol, data, seed, len, alignment); all cases with len>0 are non-trivial",
            "each value is compared with a bit-at-a-time Rocksoft-model CRC (or RFC 1950 Adler-32) whose parameters are anchored to the published check values of '123456789' before any library call is judged; chaining over pieces must equal the one-shot value; the copy form must reproduce the source; dispatchers run under simulated CPU levels through the real resolvers"),
        floors=kern_floor(60, 40),
        assumptions=["host CPU executes every variant", "per-routine init/xorout conventions as documented in crc.h/crc64.h (crc32_iscsi raw, crc16 raw, others inverted in/out)",
                     "Adler-32 seeds restricted to valid states (A,B < 65521)"],
    ),
    "C03": dict(
        run=run_C03, level="exploration",
        coverage=kern_cov(
            "cases drawn per variant symbol from PRNG(seed,index): (len, k, rows, coefficient family, per-buffer placement END/START/near-END with alignment 0..63, data); non-trivial = judged against the reference (len >= documented minimum), len>0 and some non-zero coefficient; distinct by hash of (symbol, len, k, coefficients, data tag)",
            "every exported dot-product / encode variant is called directly with guard-page-placed buffers and compared byte for byte with a shift-and-xor GF(2^8) matrix product; sources, tables and pointer arrays are re-verified and canaries around every buffer are checked; dispatchers run under simulated CPU levels through the real resolvers"),
        floors=kern_floor(40, 30),
        assumptions=["host CPU executes every variant (AVX-512+GFNI); variants it cannot execute are listed as skipped",
                     "gf tables are built with the library's own ec_init_tables* (their correctness is C12) and sized 32*k*rows as documented",
                     "direct kernels are judged only at or above their documented minimum length; below it only memory safety is asserted"],
    ),
    "C13": dict(
        run=run_C13, level="exploration",
        coverage=kern_cov(
            "update histories per variant symbol from PRNG(seed,index): zeroed (or junk) parity, every source index applied once in identity/reverse/random order plus up to 3 sources applied twice more; after EVERY single update each parity block is compared with previous ^ coef*src (reference), final parity with the reference full encode; distinct by hash of (symbol, len, k, order, coefficients, data tag)",
            "every exported multiply-accumulate / update variant and gf_vect_mul_* is called directly with guard-page-placed buffers"),
        floors=kern_floor(40, 30),
        assumptions=["host CPU executes every variant", "gf_vect_mul: src/dest 32-byte aligned as documented; a length that is not a multiple of 32 must be refused"],
    ),
}
