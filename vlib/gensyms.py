"""Generate gen_syms.h: X-macro lists of every implementation variant found in the built library's
symbol table, so that variants added or renamed by a change are picked up without editing the harness."""
import re, os
from . import build

FAMILIES = [
    # (list name, regex, fields extracted -> X(sym, n, "isa"))
    ("DOTPROD", r"^gf_(\d?)vect_dot_prod_(\w+)$"),
    ("MAD", r"^gf_(\d?)vect_mad_(\w+)$"),
    ("ENCODE", r"^ec_encode_data_(?!update)()(\w+)$"),
    ("UPDATE", r"^ec_encode_data_update_()(\w+)$"),
    ("GFMUL", r"^gf_vect_mul_()(?!init)(\w+)$"),
    ("INITTBL", r"^ec_init_tables_()(\w+)$"),
    ("CRC16", r"^crc16_t10dif_()(?!copy)(\w+)$"),
    ("CRC16COPY", r"^crc16_t10dif_copy_()(\w+)$"),
    ("CRC32IEEE", r"^crc32_ieee_()(\w+)$"),
    ("CRC32GZIP", r"^crc32_gzip_refl_()(\w+)$"),
    ("CRC32ISCSI", r"^crc32_iscsi_()(\w+)$"),
    ("ADLER", r"^adler32_()(\w+)$"),
    ("XORGEN", r"^xor_gen_()(\w+)$"),
    ("PQGEN", r"^pq_gen_()(\w+)$"),
    ("XORCHECK", r"^xor_check_()(\w+)$"),
    ("PQCHECK", r"^pq_check_()(\w+)$"),
    ("ZERODET", r"^mem_zero_detect_()(\w+)$"),
    ("HISTO", r"^isal_update_histogram_()(\w+)$"),
]
CRC64 = re.compile(r"^crc64_(ecma|iso|jones|rocksoft)_(refl|norm)_(\w+)$")
DISPATCHERS = {
    "DOTPROD": ["gf_vect_dot_prod"], "MAD": ["gf_vect_mad"], "ENCODE": ["ec_encode_data"], "UPDATE": ["ec_encode_data_update"],
    "GFMUL": ["gf_vect_mul"], "INITTBL": ["ec_init_tables"], "CRC16": ["crc16_t10dif"], "CRC16COPY": ["crc16_t10dif_copy"],
    "CRC32IEEE": ["crc32_ieee"], "CRC32GZIP": ["crc32_gzip_refl"], "CRC32ISCSI": ["crc32_iscsi"], "ADLER": ["isal_adler32", "isal_adler32_bam1"],
    "XORGEN": ["xor_gen"], "PQGEN": ["pq_gen"], "XORCHECK": ["xor_check"], "PQCHECK": ["pq_check"], "ZERODET": ["isal_zero_detect"],
    "HISTO": ["isal_update_histogram"],
}


def generate(lib, outdir):
    syms = build.nm_symbols(lib)
    text = {s for s, t in syms.items() if t == "T" and not s.endswith("_mbinit") and "dispatch_init" not in s and not s.endswith("_dispatched")}
    lines = ["/* generated from the symbol table of %s */" % os.path.basename(lib), "#ifndef GEN_SYMS_H", "#define GEN_SYMS_H"]
    total = 0
    for name, rx in FAMILIES:
        r = re.compile(rx)
        ent = []
        for s in sorted(text):
            m = r.match(s)
            if not m or s.endswith("_dispatched") or s.endswith("_mbinit") or "dispatch_init" in s:
                continue
            n = m.group(1) or "1"
            ent.append('X(%s,%s,"%s")' % (s, n, m.group(2)))
        for d in DISPATCHERS.get(name, []):
            if d in text:
                ent.append('X(%s,1,"%s")' % (d, "disp" if not d.endswith("bam1") else "bam1"))
        total += len(ent)
        lines.append("#define V_%s_LIST(X) %s" % (name, " ".join(ent)))
    ent = []
    for s in sorted(text):
        m = CRC64.match(s)
        if m:
            ent.append('X(%s,%s,"%s")' % (s, "RC_%s_%s" % (m.group(1).upper(), m.group(2).upper()), m.group(3)))
    for p in ("ecma", "iso", "jones", "rocksoft"):
        for o in ("refl", "norm"):
            d = "crc64_%s_%s" % (p, o)
            if d in text:
                ent.append('X(%s,%s,"disp")' % (d, "RC_%s_%s" % (p.upper(), o.upper())))
    total += len(ent)
    lines.append("#define V_CRC64_LIST(X) %s" % " ".join(ent))
    disp = sorted(s[:-len("_dispatched")] for s in syms if s.endswith("_dispatched"))
    lines.append("#define V_DISPATCHED_LIST(X) %s" % " ".join("X(%s)" % d for d in disp))
    lines.append("#define V_NDISPATCHED %d" % len(disp))
    lines.append("#endif")
    open(os.path.join(outdir, "gen_syms.h"), "w").write("\n".join(lines) + "\n")
    return total, len(disp)
