"""C16 driver: enumerate simulated CPU configurations through the real resolvers, trace a battery per distinct
slot assignment, classify the executed instructions and check them against each configuration."""
import json, os, re, subprocess, collections
from concurrent.futures import ThreadPoolExecutor
from . import build, core

B = lambda x: 1 << x
C1 = dict(sse3=B(0), clmul=B(1), ssse3=B(9), sse41=B(19), sse42=B(20), popcnt=B(23), osxsave=B(27), avx=B(28))
G1 = B(16) | B(17) | B(28) | B(30) | B(31)

EVEX_MN = re.compile(r"^(vpternlog|vpcompress|vpexpand|vmovdqu(8|16|32|64)|vmovdqa(32|64)|vprol|vpror|vpmovm2|vpmov[bwdq]2m|vpbroadcastm|vptestn?m|valign|vshuf[fi](32x4|64x2)|vpermi2|vpermt2|vpconflict|vplzcnt|vpmullq|vbroadcast[if](32|64)x|vextract[if](32|64)x|vinsert[if](32|64)x|vpblendm|vblendm|vp(and|andn|or|xor)[dq]$|vpabsq|vp(max|min)[su]q|vpsraq|vpsravq|vpmov[su]?(qb|qw|qd|db|dw|wb)|vpcmpu?[bwdq]$|vpshufbitqmb|vpopcnt|vpdp|vpsh[lr]d|vscalef|vgetexp|vgetmant|vrndscale|vreduce|vrange|vfixupimm|vpmadd52|vpmultishift|vdbpsadbw|vcompress|vexpand)")
K_MN = re.compile(r"^k(mov|and|andn|not|or|xor|xnor|shiftl|shiftr|test|ortest|unpck|add)[bwdq]")
AVX2_MN = re.compile(r"^(vpbroadcast[bwdq]|vperm[dq]$|vpermps|vpermpd|vpsllv|vpsrlv|vpsrav|vpblendd|vpmaskmov|vpgather|vgather|vinserti128|vextracti128|vbroadcasti128|vperm2i128)")
SSE42 = {"crc32", "pcmpgtq", "pcmpestri", "pcmpestrm", "pcmpistri", "pcmpistrm"}
SSE41 = {"pextrb", "pextrd", "pextrq", "pinsrb", "pinsrd", "pinsrq", "ptest", "pblendvb", "pblendw", "pmulld", "pminud", "pmaxud", "pminsd", "pmaxsd", "pminuw", "pmaxuw", "pminsb", "pmaxsb", "movntdqa", "pcmpeqq", "blendvpd", "blendvps", "blendpd", "blendps", "roundsd", "roundss", "roundpd", "roundps", "packusdw", "extractps", "insertps", "dpps", "dppd", "mpsadbw", "phminposuw", "pmuldq"}
SSSE3 = {"pshufb", "palignr", "phaddw", "phaddd", "phaddsw", "phsubw", "phsubd", "phsubsw", "pabsb", "pabsw", "pabsd", "pmaddubsw", "psignb", "psignw", "psignd", "pmulhrsw"}
SSE3 = {"lddqu", "movddup", "movshdup", "movsldup", "haddps", "haddpd", "hsubps", "hsubpd", "addsubps", "addsubpd", "fisttp"}
BMI2 = {"shlx", "shrx", "sarx", "bzhi", "pext", "pdep", "mulx", "rorx"}
BMI1 = {"andn", "blsr", "blsi", "blsmsk", "bextr"}


def classify(mn, ops, evex_enc=False):
    """-> set of ISA classes one executed instruction needs"""
    if mn.startswith("pmovzx") or mn.startswith("pmovsx"):
        return {"sse4.1"}
    evex = evex_enc or bool(re.search(r"\bzmm\d+|\{k[0-7]\}|\b[xy]mm(1[6-9]|2\d|3[01])\b|\{1to\d+\}", ops)) or bool(K_MN.match(mn))
    cls = set()
    if "gf2p8" in mn:
        cls.add("gfni")
        if not mn.startswith("v"):
            return cls | {"sse2"}
    if mn.startswith("vaes"):
        cls.add("vaes" if re.search(r"\b[yz]mm", ops) else "aesni")
    if mn.startswith("vpclmul"):
        cls.add("vpclmulqdq" if re.search(r"\b[yz]mm", ops) or evex else "pclmul")
    if mn in ("vpcompressb", "vpcompressw", "vpexpandb", "vpexpandw") or mn.startswith("vpshld") or mn.startswith("vpshrd"):
        cls.add("avx512vbmi2")
    if mn.startswith("vpopcnt"):
        cls.add("avx512bitalg" if mn[-1] in "bw" else "avx512vpopcntdq")
    if mn == "vpshufbitqmb":
        cls.add("avx512bitalg")
    if mn.startswith("vpdp"):
        cls.add("avx512vnni")
    if evex:
        return cls | {"avx512"}
    if mn.startswith("v") and mn not in ("verr", "verw", "vmcall"):
        if AVX2_MN.match(mn) or (re.search(r"\bymm\d+", ops) and re.match(r"vp|vmovntdqa|vmpsadbw", mn) and not re.match(r"vptest|vpermilp|vperm2f128", mn)):
            return cls | {"avx2"}
        return cls | {"avx"}
    if mn.startswith("pclmul"):
        return {"pclmul"}
    if mn.startswith("aes"):
        return {"aesni"}
    if mn in SSE42: return {"sse4.2"}
    if mn in SSE41: return {"sse4.1"}
    if mn in SSSE3: return {"ssse3"}
    if mn in SSE3: return {"sse3"}
    if mn in BMI2: return {"bmi2"}
    if mn in BMI1: return {"bmi1"}
    if mn == "lzcnt": return {"lzcnt"}
    if mn == "popcnt": return {"popcnt"}
    if mn == "movbe": return {"movbe"}
    return set()          # baseline x86-64 (incl. SSE2; tzcnt executes as bsf on older CPUs with the same result for non-zero inputs)


def available(cfg):
    c1, b7, c7, x = cfg["c1"], cfg["b7"], cfg["c7"], cfg["x"]
    osx = bool(c1 & C1["osxsave"])
    ymm = osx and (x & 6) == 6
    zmm = ymm and (x & 0xe0) == 0xe0
    avx = bool(c1 & C1["avx"]) and ymm
    avx2 = avx and bool(b7 & B(5))
    a512 = avx2 and zmm and (b7 & G1) == G1
    av = {"sse3": bool(c1 & C1["sse3"]), "ssse3": bool(c1 & C1["ssse3"]), "sse4.1": bool(c1 & C1["sse41"]), "sse4.2": bool(c1 & C1["sse42"]), "popcnt": bool(c1 & C1["popcnt"]),
          "pclmul": bool(c1 & C1["clmul"]), "aesni": False, "avx": avx, "avx2": avx2, "bmi1": avx2, "bmi2": avx2, "lzcnt": avx2, "movbe": avx2, "avx512": a512,
          "gfni": bool(c7 & B(8)), "vaes": bool(c7 & B(9)) and avx, "vpclmulqdq": bool(c7 & B(10)) and avx,
          "avx512vbmi2": a512 and bool(c7 & B(6)), "avx512vnni": a512 and bool(c7 & B(11)), "avx512bitalg": a512 and bool(c7 & B(12)), "avx512vpopcntdq": a512 and bool(c7 & B(14)), "sse2": True}
    return av


def cfg_text(c):
    return "CPUID.1:EAX=%08x ECX=%08x CPUID.7:EBX=%08x ECX=%08x XCR0=%x" % (c["eax"], c["c1"], c["b7"], c["c7"], c["x"])


def run(ctx):
    agg = ctx.agg
    exe = ctx.engine("asm", "eng_disp.c")
    lib = ctx.lib("asm")
    libsyms = {s for s, t in build.nm_symbols(lib).items() if t == "T"}
    env = dict(os.environ)
    n = build.NCPU

    def run_proc(args, timeout):
        p = subprocess.run([exe] + args, stdout=subprocess.PIPE, stderr=subprocess.PIPE, env=env, timeout=timeout)
        return p.returncode, p.stdout.decode("utf-8", "replace"), p.stderr.decode("utf-8", "replace")

    base = ["--prop", "C16", "--tier", ctx.tier, "--seed", str(ctx.seed)]
    cfgs, vecs = [], {}
    runinfo = {"exe": "eng_disp", "tag": "asm", "mode": "enum", "tier": ctx.tier, "seed": ctx.seed, "nshards": n, "extra": []}
    with ThreadPoolExecutor(max_workers=n) as ex:
        futs = [ex.submit(run_proc, base + ["--mode", "enum", "--shard", str(i), "--nshards", str(n)], 3600) for i in range(n)]
        for f in futs:
            rc, out, err = f.result()
            agg.engine_runs += 1
            done = False
            for line in out.splitlines():
                if not line.startswith("{"):
                    continue
                rec = json.loads(line)
                t = rec.get("t")
                if t == "cfg":
                    cfgs.append(rec)
                elif t == "vec":
                    vecs.setdefault(rec["h"], rec)
                elif t == "done":
                    done = True
                else:
                    agg.add_record(rec, runinfo)
            if rc != 0 or not done:
                agg.harness_errors.append("eng_disp enum rc=%s: %s" % (rc, err[-800:]))
    if agg.harness_errors:
        return
    # ---- disassembly of this very binary
    r = build.run(["objdump", "-d", "-M", "intel", "-j", ".text", exe])
    exe_globals = {s for s, t in build.nm_symbols(exe).items() if t == "T"} if False else None
    nmout = build.run(["nm", "--defined-only", exe]).stdout
    exe_T = set()
    for l in nmout.splitlines():
        p3 = l.split()
        if len(p3) == 3 and p3[1] == "T":
            exe_T.add(p3[2])
    insn, symof, cur, sym_insns = {}, {}, None, collections.defaultdict(list)
    for l in r.stdout.splitlines():
        m = re.match(r"^([0-9a-f]+) <([^>]+)>:$", l)
        if m:
            if m.group(2) in exe_T or cur is None:   # extents run from one global function symbol to the next (nasm labels stay inside)
                cur = m.group(2)
            continue
        f = l.split("\t")
        if len(f) < 3 or not f[0].strip().endswith(":") or not cur:
            continue
        try:
            a = int(f[0].strip()[:-1], 16)
        except ValueError:
            continue
        raw = f[1].split()
        txt = f[2].strip().split(None, 1)
        if not txt:
            continue
        mn, ops = txt[0], txt[1] if len(txt) > 1 else ""
        while mn in ("rep", "repz", "repnz", "lock", "notrack", "bnd", "data16", "cs", "ds", "es", "ss", "fs", "gs") and ops:
            parts = ops.split(None, 1)
            mn, ops = parts[0], parts[1] if len(parts) > 1 else ""
        k = 0
        while k < len(raw) and raw[k] in ("66", "67", "f2", "f3", "2e", "36", "3e", "26", "64", "65", "f0"):
            k += 1
        evex = k < len(raw) and raw[k] == "62"
        insn[a] = (mn, ops, evex)
        symof[a] = cur
        sym_insns[cur].append(a)
    # ---- trace a battery per distinct slot assignment
    vec_list = sorted(vecs.values(), key=lambda v: v["h"])
    traces = {}

    # quick: the codec battery (about 10x the cost of all other APIs together) is traced for a rotating subset of the slot
    # assignments; the ISA classes of codec implementations not traced in this run come from the disassembly sweep below
    ncodec = len(vec_list) if ctx.thorough else 2
    codec_set = {vec_list[(ctx.seed * 3 + i * max(1, len(vec_list) // ncodec)) % len(vec_list)]["h"] for i in range(ncodec)} if vec_list else set()

    def trace_one(v):
        mode = "%s:%x,%x,%x,%x,%x" % ("tracc" if v["h"] in codec_set else "trace", v["eax"], v["c1"], v["b7"], v["c7"], v["x"])
        return v["h"], mode, run_proc(base + ["--mode", mode], 3000)

    with ThreadPoolExecutor(max_workers=n) as ex:
        for h, mode, (rc, out, err) in ex.map(trace_one, vec_list):
            agg.engine_runs += 1
            ri = {"exe": "eng_disp", "tag": "asm", "mode": mode, "tier": ctx.tier, "seed": ctx.seed, "nshards": 1, "extra": []}
            done = False
            for line in out.splitlines():
                if not line.startswith("{"):
                    continue
                rec = json.loads(line)
                if rec.get("t") == "trace":
                    traces[h] = rec
                elif rec.get("t") == "done":
                    done = True
                elif rec.get("t") == "skip":
                    traces[h] = None
                else:
                    agg.add_record(rec, ri)
            if rc != 0 or not done:
                agg.harness_errors.append("eng_disp %s rc=%s: %s" % (mode, rc, err[-800:]))
    if agg.harness_errors:
        return
    # ---- classes executed per slot assignment
    vec_req, unsynced, total_steps, exec_by_sym = {}, 0, 0, collections.defaultdict(set)
    digests = collections.Counter()
    for h, tr in traces.items():
        if tr is None:
            continue
        total_steps += tr["steps"]
        digests[(tr.get("codec"), tr.get("tiny"), tr["digest"])] += 1
        req = {}
        for a in tr["rips"]:
            if a not in insn:
                unsynced += 1
                continue
            s = symof[a]
            if s not in libsyms:
                continue
            exec_by_sym[s].add(a)
            for c in classify(*insn[a]):
                req.setdefault(c, (s, a))
            if K_MN.match(insn[a][0]) and False:
                pass
        vec_req[h] = req
    # ---- disassembly sweep of every selected implementation (extent of its global symbol + direct calls/jumps into other library functions)
    static_cls = {}

    def sweep(sym, depth=0):
        if sym in static_cls:
            return static_cls[sym]
        static_cls[sym] = {}
        res = {}
        for a in sym_insns.get(sym, []):
            mn, ops, ev = insn[a]
            for c in classify(mn, ops, ev):
                res.setdefault(c, (sym, a))
            if mn in ("call", "jmp") and depth < 6:
                m2 = re.search(r"<([A-Za-z_][\w]*)>\s*$", ops)
                if m2 and m2.group(1) in libsyms and m2.group(1) != sym and not m2.group(1).endswith("_mbinit"):
                    for c, w in sweep(m2.group(1), depth + 1).items():
                        res.setdefault(c, w)
        static_cls[sym] = res
        return res

    for v in vecs.values():
        req = vec_req.setdefault(v["h"], {})
        dyn = set(req)
        for ent, impl in v["slots"].items():
            for c, w in sweep(impl).items():
                if c not in req:
                    req[c] = (w[0], w[1], "static")
        v["static_only"] = sorted(set(req) - dyn)
    # ---- every configuration against what its slot assignment executed
    nchecked = 0
    for c in cfgs:
        req = vec_req.get(c["vec"])
        if req is None:
            continue
        av = available(c)
        nchecked += 1
        for cls, w in req.items():
            s, a = w[0], w[1]
            how = "contains (disassembly sweep, not executed by this run's battery)" if len(w) > 2 else "executed"
            if not av.get(cls, False):
                slots = vecs[c["vec"]]["slots"]
                ents = [e for e, impl in slots.items() if impl == s]
                agg.viols.append({"prop": "C16", "key": "isa-not-available:%s:%s" % (s, cls), "idx": -1,
                                  "msg": "configuration %s resolves %s to code that %s a %s instruction (%s %s at %x in %s) which that configuration does not make available" % (cfg_text(c), ",".join(ents) or "an entry point (callee)", how, cls, insn[a][0], insn[a][1], a, s),
                                  "case": "cfg id %d" % c["id"], "run": {"exe": "eng_disp", "tag": "asm", "mode": "enum", "tier": ctx.tier, "seed": ctx.seed, "nshards": n, "extra": []}})
    # no optimised set enabled -> only *_base / C code
    groups = collections.defaultdict(set)
    for (cd, ty, dgst), cnt in digests.items():
        groups[(cd, ty)].add(dgst)
    for g, ds in groups.items():
        if len(ds) > 1:
            agg.viols.append({"prop": "C16", "key": "results-differ-between-selections", "idx": -1, "msg": "deterministic battery results (checksums, parity, zero detect, inflate output) differ between slot assignments running the same battery %s: %s" % (g, sorted(ds)), "case": "", "run": {}})
    # ---- coverage of selected implementations
    selected = set()
    for v in vecs.values():
        selected.update(v["slots"].values())
    cov = {}
    for s in sorted(selected):
        tot = len(sym_insns.get(s, []))
        if tot:
            cov[s] = round(len(exec_by_sym.get(s, ())) / tot, 3)
    ctx.disp = {"configs": len(cfgs), "configs_checked": nchecked, "distinct_slot_assignments": len(vecs), "traced_assignments": len(vec_req), "trace_steps": total_steps,
                "executed_addresses_not_in_listing": unsynced, "selected_implementations": len(selected), "executed_fraction_per_selected_implementation": cov,
                "classes_required_per_assignment": {h: sorted(r) for h, r in vec_req.items()}, "classes_known_only_from_disassembly_per_assignment": {v["h"]: v.get("static_only", []) for v in vecs.values()},
                "assignments_traced_with_codec_battery": sorted(codec_set),
                "sample_assignment": next(iter(vecs.values()))["slots"] if vecs else {}}
    agg.stats["evaluations"] = agg.stats.get("evaluations", 0)
    agg.stats["distinct_nontrivial"] = len(cfgs)
    for v in list(vecs.values())[:3]:
        agg.samples.append("cpu %s -> crc32_ieee=%s ec_encode_data=%s isal_deflate_body=%s decode_huffman_code_block_stateless=%s pq_gen=%s" % (cfg_text(v), v["slots"].get("crc32_ieee"), v["slots"].get("ec_encode_data"), v["slots"].get("isal_deflate_body"), v["slots"].get("decode_huffman_code_block_stateless"), v["slots"].get("pq_gen")))
