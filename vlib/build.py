"""Build matrix: every check rebuilds the library configurations it needs from the
current working tree of the repository (VERIF_REPO, default /repo) into a private
directory under /verif/.build, out of tree (nothing is written into the repo)."""
import os, re, shutil, subprocess, sys, time

VERIF = os.path.dirname(os.path.dirname(os.path.abspath(__file__)))
REPO = os.environ.get("VERIF_REPO", "/repo")
BUILD = os.environ.get("VERIF_BUILD") or os.path.join(VERIF, ".build")
GUARD = "INTEL_ISA_L_VERIF"
NCPU = os.cpu_count() or 4

SAN = "-fsanitize=address,bounds -fno-sanitize-recover=all -fno-omit-frame-pointer -g"
# harness only: the engines leave monitored calls by siglongjmp from a signal handler (fault trap, watchdog); gcc's use-after-scope
# poisoning of loop-body variables around sigsetjmp then reports false "stack-use-after-scope" in the *harness* (seen once in
# eng_thr.c mode_prefill).  The library objects keep the full instrumentation.
SAN_HARNESS = SAN + " -fno-sanitize-address-use-after-scope"
TSAN = "-fsanitize=thread -fno-omit-frame-pointer -g"
BASE_CFLAGS = "-Wall -fstack-protector -D_FORTIFY_SOURCE=2"

# tag -> (make variables, extra harness CFLAGS, extra -D for harness)
TAGS = {
    "asm":        dict(mk=[], hc="", d=[]),
    "asm-assert": dict(mk=["lib_debug=1", "DEBUG=-g"], hc="", d=[]),
    "asm-asan":   dict(mk=["CFLAGS_=%s %s" % (BASE_CFLAGS, SAN)], hc=SAN_HARNESS, d=[]),
    "c-asan":     dict(mk=["arch=noarch", "CFLAGS_noarch=%s" % SAN], hc=SAN_HARNESS, d=["V_NOARCH"]),
    "c":          dict(mk=["arch=noarch"], hc="", d=["V_NOARCH"]),
    "c-tsan":     dict(mk=["arch=noarch", "CFLAGS_noarch=%s" % TSAN], hc=TSAN, d=["V_NOARCH"]),
    "hist8k":     dict(mk=["D=IGZIP_HIST_SIZE=8*1024"], hc="", d=["IGZIP_HIST_SIZE=8*1024"]),
    "longer":     dict(mk=["D=LONGER_HUFFTABLE"], hc="", d=["LONGER_HUFFTABLE"]),
    "large":      dict(mk=["D=GF_LARGE_TABLES"], hc="", d=["GF_LARGE_TABLES"]),
    "so":         dict(mk=[], hc="", d=["CPUSIM_DLSYM"], shared=True),
}


class BuildError(Exception):
    pass


def run(cmd, **kw):
    return subprocess.run(cmd, stdout=subprocess.PIPE, stderr=subprocess.STDOUT, text=True, **kw)


def build_lib(workdir, tag):
    """Build the library configuration `tag` into workdir/<tag>; returns path of isa-l.a / libisal.so."""
    spec = TAGS[tag]
    out = os.path.join(workdir, tag)
    shutil.rmtree(out, ignore_errors=True)
    os.makedirs(out)
    shared = spec.get("shared")
    lib = os.path.join(out, "libisal.so" if shared else "isa-l.a")
    defs = "D=" + " ".join([GUARD] + [m[2:] for m in spec["mk"] if m.startswith("D=")])
    mk = [m for m in spec["mk"] if not m.startswith("D=")]
    cmd = ["make", "-f", "Makefile.unx", "-C", REPO, "-j%d" % NCPU, "O=" + os.path.join(out, "obj"), defs] + mk
    if shared:
        cmd += ["so_lib_name=" + lib, "slib"]
    else:
        cmd += ["lib_name=" + lib, "lib"]
    t = time.time()
    r = run(cmd)
    if r.returncode != 0 or not os.path.exists(lib):
        raise BuildError("library build %s failed:\n%s" % (tag, r.stdout[-4000:]))
    shutil.rmtree(os.path.join(out, "obj"), ignore_errors=True)
    return lib, time.time() - t


SYM_RE = re.compile(r"^([0-9a-f]+)?\s+([A-Za-z])\s+(\S+)$")


def nm_symbols(lib):
    r = run(["nm", "--defined-only", lib]) if not lib.endswith(".so") else run(["nm", "-D", "--defined-only", lib])
    out = r.stdout
    if lib.endswith(".so"):   # dispatch slots are local data symbols of the shared object: take them from the full symbol table
        out += "\n".join(l for l in run(["nm", "--defined-only", lib]).stdout.splitlines() if l.strip().endswith("_dispatched"))
    syms = {}
    for l in out.splitlines():
        m = SYM_RE.match(l.strip())
        if m and m.group(2) in "TtDdBbRr":
            syms[m.group(3)] = m.group(2)
    return syms


def compile_engine(workdir, tag, src, lib, gen_header=None, extra_cflags="", libs="-lz -lpthread -ldl", name=None, cc="gcc"):
    spec = TAGS[tag]
    out = os.path.join(workdir, tag)
    exe = os.path.join(out, name or os.path.splitext(os.path.basename(src))[0])
    incs = ["-I" + os.path.join(VERIF, "harness", "common"), "-I" + os.path.join(VERIF, "harness", "ref"),
            "-I" + os.path.join(REPO, "include"), "-I" + os.path.join(REPO, "igzip"), "-I" + os.path.join(REPO, "erasure_code"), "-I" + out]
    defs = ["-D" + d for d in spec["d"]] + ["-D" + GUARD, '-DV_BUILD_TAG="%s"' % tag]
    cmd = [cc, "-O2", "-g", "-fno-strict-aliasing", "-Wall", "-Wno-unused-function", "-Wno-unused-variable", "-rdynamic", "-no-pie", "-fno-pie"] + spec["hc"].split() + extra_cflags.split() + defs + incs + [src]
    if lib.endswith(".so"):
        cmd += ["-L" + os.path.dirname(lib), "-Wl,-rpath," + os.path.dirname(lib), "-lisal"]
    else:
        cmd += [lib]
    cmd += libs.split() + ["-o", exe]
    r = run(cmd)
    if r.returncode != 0:
        raise BuildError("engine build %s (%s) failed:\n%s" % (src, tag, r.stdout[-6000:]))
    return exe
