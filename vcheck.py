#!/usr/bin/env python3
"""vcheck.py <property> [--tier quick|thorough] [--replay file]
Decides one property of intel/isa-l by running the real library code under monitors.
exit 0: held on everything explored; exit 1: VIOLATION line(s) printed; exit 2: harness failure / inconclusive."""
import argparse, json, os, shutil, sys, time, traceback

sys.path.insert(0, os.path.dirname(os.path.abspath(__file__)))
from vlib import build, core, gensyms, props


class Ctx:
    def __init__(self, prop, tier, seed, only=None, only_run=None):
        self.prop, self.tier, self.seed = prop, tier, seed
        self.thorough = tier == "thorough"
        self.agg = core.Agg()
        self.work = os.path.join(build.BUILD, prop)
        self.libs, self.engines = {}, {}
        self.only, self.only_run = only, only_run
        self.builds = []
        self.notes = []
        os.makedirs(self.work, exist_ok=True)

    def lib(self, tag):
        if tag not in self.libs:
            lib, dt = build.build_lib(self.work, tag)
            n, nd = gensyms.generate(lib, os.path.dirname(lib))
            self.libs[tag] = lib
            self.builds.append("%s (%d variant symbols, %d dispatched entry points, %.1fs)" % (tag, n, nd, dt))
        return self.libs[tag]

    def engine(self, tag, src, **kw):
        key = (tag, src, kw.get("name"))
        if key not in self.engines:
            lib = self.lib(tag)
            self.engines[key] = build.compile_engine(self.work, tag, os.path.join(build.VERIF, "harness", src), lib, **kw)
        return self.engines[key]

    def run(self, tag, src, mode="", prop=None, **kw):
        """run one engine workload over all shards (or only the replayed case)"""
        only_tags = os.environ.get("VERIF_TAGS")      # debugging aid: restrict a check to some builds
        if only_tags and tag not in only_tags.split(","):
            return
        only_modes = os.environ.get("VERIF_MODES")    # debugging aid: restrict a check to some engine modes
        if only_modes and (mode or "") not in only_modes.split(","):
            return
        ekw = {k: kw.pop(k) for k in ("name", "extra_cflags", "libs", "cc") if k in kw}
        exe = self.engine(tag, src, **ekw)
        if self.only_run is not None:
            r = self.only_run
            if r.get("tag") != tag or r.get("mode") != (mode or "") and r.get("mode") != mode or r.get("exe") != os.path.basename(exe):
                return
            core.run_engine(self.agg, exe, prop or self.prop, self.tier, self.seed, mode, tag, nshards=r.get("nshards"), only=self.only, extra=r.get("extra") or None, **kw)
            return
        core.run_engine(self.agg, exe, prop or self.prop, self.tier, self.seed, mode, tag, **kw)

    def cleanup(self):
        # keep logs and binaries of the last run only; build trees are small (few MB)
        pass


def main():
    ap = argparse.ArgumentParser()
    ap.add_argument("prop")
    ap.add_argument("--tier", default=os.environ.get("VERIF_TIER", "quick"))
    ap.add_argument("--replay")
    a = ap.parse_args()
    prop = a.prop
    seed = int(os.environ.get("VERIF_SEED", "1") or 1)
    tier = a.tier
    only = only_run = None
    if a.replay:
        rp = json.load(open(a.replay))
        only, only_run = rp.get("idx"), rp.get("run") or {}
        seed, tier = only_run.get("seed", seed), only_run.get("tier", tier)
        if only is None or only < 0:
            only = None
            only_run = None  # whole-run replay
    if prop not in props.PROPS:
        print("unknown property", prop)
        return 2
    spec = props.PROPS[prop]
    ctx = Ctx(prop, tier, seed, only, only_run)
    t0 = time.time()
    try:
        spec["run"](ctx)
    except build.BuildError as e:
        print("HARNESS-FAILURE: %s" % e)
        return 2
    except Exception:
        traceback.print_exc()
        print("HARNESS-FAILURE: driver exception")
        return 2
    agg = ctx.agg
    wall = time.time() - t0
    unlisted, listed = core.classify_violations(prop, agg.viols)
    # evidence
    cov = spec["coverage"](ctx, agg)
    cov.setdefault("evaluations", int(agg.stats.get("evaluations", 0)))
    cov.setdefault("distinct_nontrivial", int(agg.stats.get("distinct_nontrivial", 0)))
    cov.setdefault("samples", agg.samples[:8])
    cov["builds"] = ctx.builds
    cov["engine_processes"] = agg.engine_runs
    cov["known_findings_reported"] = sorted(listed.keys())
    if agg.stats.get("monitored_calls_with_poisoned_registers") or agg.stats.get("dispatched_calls_through_the_interposer"):
        cov["abi_monitors"] = {"monitored_library_calls_entered_with_garbage_in_all_caller_saved_registers": int(agg.stats.get("monitored_calls_with_poisoned_registers", 0)),
                               "dispatched_calls_through_the_slot_interposer_(vector_registers_poisoned,_callee_saved_registers_verified)": int(agg.stats.get("dispatched_calls_through_the_interposer", 0))}
    if agg.stats.get("fp_table_crowded"):
        cov["distinct_count_note"] = "fingerprint table crowded for %d cases; they were not counted" % agg.stats["fp_table_crowded"]
    for k, s in sorted(agg.sets.items()):
        cov.setdefault("set:" + k, sorted(s)[:400])
    if not a.replay:
        core.write_evidence(prop, tier, seed, spec["level"], cov, spec["assumptions"], wall, len(unlisted))
    rc = 0
    for key, (kf, vs) in sorted(listed.items()):
        print("KNOWN-FINDING: property=%s %s -- %s (%d occurrences this run)" % (prop, key, kf.get("text", ""), len(vs)))
    seen = {}
    for v in unlisted:
        n = seen.get(v["key"], 0)
        seen[v["key"]] = n + 1
        if n >= 2:
            continue
        path = core.write_replay(prop, v, n)
        print("VIOLATION property=%s replay=%s key=%s :: %s :: case %s" % (prop, path, v["key"], v.get("msg", "")[:400], (v.get("case") or "")[:300]))
        rc = 1
    if a.replay:
        print("replay: %d violation record(s)" % len(agg.viols))
        return 1 if agg.viols else 0
    if agg.harness_errors:
        for e in agg.harness_errors[:10]:
            print("HARNESS-FAILURE:", e)
        return 1 if rc == 1 else 2
    floors = spec.get("floors")
    if rc == 0 and floors:
        miss = floors(ctx, agg)
        if miss:
            for m in miss:
                print("INCONCLUSIVE: floor not reached:", m)
            return 2
    print("%s %s seed=%d: %s; evaluations=%d distinct_nontrivial=%d wall=%.1fs" % (prop, tier, seed, "VIOLATED" if rc else "held on everything explored", cov["evaluations"], cov["distinct_nontrivial"], wall))
    return rc


if __name__ == "__main__":
    sys.exit(main())
