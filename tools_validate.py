#!/usr/bin/env python3
"""validate MANIFEST.json and all evidence files against the schemas (run with python3-vt, which has jsonschema)"""
import json, glob, sys
import jsonschema
ok = True
def v(path, schema):
    global ok
    try:
        jsonschema.validate(json.load(open(path)), json.load(open(schema)))
        print("ok  ", path)
    except Exception as e:
        ok = False
        print("FAIL", path, str(e)[:300])
v("/verif/MANIFEST.json", "/root/.vp/MANIFEST.schema.json")
for f in sorted(glob.glob("/verif/evidence/C*.json")):
    v(f, "/root/.vp/EVIDENCE.schema.json")
m = json.load(open("/verif/MANIFEST.json"))
ids = [json.loads(l)["id"] for l in open("/verif/properties.jsonl")]
claimed = {c["property_id"] for c in m["checks"]}
na = {n["property_id"] for n in m.get("not_applicable", [])}
for i in ids:
    if (i in claimed) == (i in na):
        ok = False
        print("FAIL property", i, "claimed and/or not_applicable inconsistent")
sys.exit(0 if ok else 1)
