#!/usr/bin/env python3
"""Copy confirmed seeded changes from the sub-agents' output directory into /verif/seeded/<id>/ with a meta.json,
and write seeded/MATRIX.md from the confirmation and detection logs."""
import json, os, re, shutil, sys
SRC, DST = "/tmp/seedout", "/verif/seeded"
SOURCES = [("/tmp/seedout", ""), ("/tmp/seedout2", "r2-"), ("/tmp/seedout3", "r3-"), ("/tmp/seedout4", "r4-"), ("/tmp/seedout5", "r5-"), ("/tmp/seedout6", "r6-"), ("/tmp/seedout7", "r7-"), ("/tmp/seedout8", "r8-")]
confirm = {}
for l in open("/tmp/confirm.log"):
    f = l.split()
    if f:
        confirm[f[0]] = " ".join(f[1:])
for extra in ("/tmp/confirm_extra.log", "/tmp/confirm2.log", "/tmp/confirm3.log", "/tmp/confirm4.log", "/tmp/confirm5.log", "/tmp/confirm6.log", "/tmp/confirm7.log", "/tmp/confirm8.log"):
    if os.path.exists(extra):
        for l in open(extra):
            f = l.split()
            if f:
                confirm[f[0]] = " ".join(f[1:])
matrix = {}
for ml in ("/tmp/matrix.log", "/tmp/matrix4.log", "/tmp/matrix6.log", "/tmp/matrix9.log", "/tmp/matrix11.log", "/tmp/matrix13.log", "/tmp/matrix15.log", "/tmp/matrix16.log"):
    if os.path.exists(ml):
        for l in open(ml):
            f = l.split()
            if len(f) >= 3:
                matrix.setdefault(f[0], []).append(" ".join(f[1:]))
first_round2 = {}
for ml in ("/tmp/matrix2.log", "/tmp/matrix3.log", "/tmp/matrix5.log", "/tmp/matrix8.log", "/tmp/matrix10.log", "/tmp/matrix12.log", "/tmp/matrix14.log"):
    if os.path.exists(ml):
        for l in open(ml):
            f = l.split()
            if len(f) >= 3:
                first_round2[f[0]] = " ".join(f[1:])
os.makedirs(DST, exist_ok=True)
rows = []
for SRC, tagp in SOURCES:
  if not os.path.isdir(SRC):
    continue
  for prop in sorted(os.listdir(SRC)):
    if not re.match(r"^C\d\d$", prop):
        continue
    for n in sorted(os.listdir(os.path.join(SRC, prop))):
        d = os.path.join(SRC, prop, n)
        if not os.path.isfile(os.path.join(d, "patch.diff")):
            continue
        sid = "%s-%s%s" % (prop, tagp, n)
        out = os.path.join(DST, sid)
        os.makedirs(out, exist_ok=True)
        for f in ("patch.diff", "demo.c", "run.sh", "meta.txt"):
            if os.path.exists(os.path.join(d, f)):
                shutil.copy(os.path.join(d, f), os.path.join(out, f))
        mt = open(os.path.join(d, "meta.txt"), errors="replace").read() if os.path.exists(os.path.join(d, "meta.txt")) else ""
        files = sorted(set(re.findall(r"^\+\+\+ b/(\S+)", open(os.path.join(d, "patch.diff")).read(), re.M)))
        meta = {"id": sid, "breaks_property": prop, "files_touched": files,
                "needs_to_manifest": mt.strip()[:3000],
                "confirmed_by": "tools/confirm_seed.sh in a fresh worktree of /repo HEAD: demo exit code on the clean tree, with the patch, pinned tests completed, lines mentioning 'fail'",
                "confirmation": confirm.get(d, "not re-run"),
                "detected_by_quick_checks": matrix.get(d, [])}
        if d in first_round2 and "rc=0" in first_round2[d]:
            meta["note"] = "missed by the quick check as it stood when this change was written (%s); detected after the strengthening described in DESIGN.md section 5" % first_round2[d]
        if sid == "C07-2":
            meta["note"] = "valid against the pinned commit a1a994a (16/16 tests pass there, see check.log of the author); after fix 75766a4 changed compressed sizes the pinned igzip_rand_test trips over it as well"
        if sid == "C07-1":
            meta["note"] = "does not apply after fix 091861d (same lines); rebased as C07-1r"
        if sid == "C10-r6-1":
            meta["note"] = "not detected by the quick tier: the level 1/2 finish kernel only fails once total_in + avail_in passes 2^32; the THOROUGH tier of C10 (eng_big: streams of 2^32 + delta bytes) reports it as big-stream:no-termination:level1"
        if sid == "C14-r4-1":
            meta["note"] = "NOT detected by any check, deliberately: it needs a one-shot call retried on the same struct without re-initialisation after STATELESS_OVERFLOW; the unchanged library does not support that pattern either (a retried gzip/zlib one-shot call returns COMP_OK for a stream without wrapper header), nothing documents it and no listed property claims it (DESIGN.md section 5)"
        json.dump(meta, open(os.path.join(out, "meta.json"), "w"), indent=1)
        rows.append((sid, ",".join(files)[:70], confirm.get(d, "")[:70], "; ".join(matrix.get(d, []))[:110]))
with open(os.path.join(DST, "MATRIX.md"), "w") as f:
    f.write("# Seeded changes: confirmation and detection (quick tier, VERIF_SEED=1)\n\n| id | files | confirmation (fresh worktree) | quick check result |\n|---|---|---|---|\n")
    for r in rows:
        f.write("| %s | %s | %s | %s |\n" % r)
print(len(rows), "seeds imported")
