#!/bin/bash
# tools/seedmatrix.sh <out.log> <dir>... : run each seeded change's own check (and any extra props listed in <dir>/props) against a scratch worktree
out=$1; shift
export VERIF_BUILD=/tmp/seedbuild VERIF_EVIDENCE=/tmp/seedevid VERIF_REPLAYS=/tmp/seedreplays
for d in "$@"; do
  prop=$(basename $(dirname $d)); wt=/tmp/seedrepo-$$
  git -C /repo worktree add -f $wt HEAD >/dev/null 2>&1
  if git -C $wt apply $d/patch.diff 2>/dev/null; then
    for p in $prop $(cat $d/props 2>/dev/null); do
      o=$(cd /verif && VERIF_REPO=$wt timeout 1500 python3 vcheck.py $p --tier quick 2>&1); rc=$?
      key=$(echo "$o" | grep -m1 -o "key=[^ ]*")
      echo "$d $p rc=$rc $key" >> $out
    done
  else echo "$d patch-does-not-apply" >> $out; fi
  git -C /repo worktree remove --force $wt >/dev/null 2>&1
done
rm -rf /tmp/seedbuild /tmp/seedevid /tmp/seedreplays
