#!/usr/bin/env python3
"""Regenerates /verif/MANIFEST.json from the table below (one entry per registered check)."""
import json, os, sys
V = "/verif"
CHECKS = {
 "C01": ("exploration", "Tens of thousands of compress cases (one-shot and streaming, all levels/flush modes/wrappers/window sizes/table kinds/level-buffer sizes) under 11 simulated CPU levels through the real resolvers; every produced stream must be accepted by an independent RFC decoder and by zlib, reproduce the input and be consumed to its last byte incl. trailer; hist8k and LONGER_HUFFTABLE builds included.",
         "trusts the independent reference inflate (cross-checked against zlib) and zlib; contexts/level_buf at malloc-grade alignment",
         "runtime differential oracle (independent inflate + zlib) over generated inputs/parameters/CPU levels, guard-page buffers, context invariants"),
 "C10": ("exploration", "One-shot calls with avail_out swept around the independently computed stored-block bound and tiny sizes with the output ending at a guard page; success must be a complete stream within the bound, failure must be STATELESS_OVERFLOW; streaming termination under 1..7-byte output chunks; invalid level/flush/level_buf refused before any output (fresh stream and second call of a started stream); every avail_out for small, constant and constant-run-first inputs; stored-size boundaries at multiples of 65535/65536; thorough tier: streams of 2^32 + delta bytes decoded on the fly by zlib (32-bit counters wrap).",
         "bound formula from the property text; undersized level_buf may be reported with either documented error code",
         "runtime monitor of the output-space contract (guard pages, counters, bound oracle), bounded-progress monitor, invalid-parameter injection"),
 "C14": ("exploration", "Event-log monitor over streaming histories with scripted flush requests: at every completed flush call the output must end 00 00 FF FF in ZSTATE_NEW_HDR and decode (reference, prefix mode) to exactly the input fed so far; every completed FULL flush suffix is decoded in isolation (also when the completing FULL call brought no input and added no output); flush calls of the other type without input are issued after completed flushes; one-shot FULL_FLUSH chains are concatenated and decoded.",
         "a flush point is judged exactly where the property defines it; reference decoder trusted",
         "offline checker over the per-call event log + independent prefix/suffix decode"),
 "C17": ("exploration", "Instrumented reference decode of streams produced from inputs with repeats straddling the requested window: maximum match distance must stay <= 2^hist_bits and inside output+dictionary, zlib CINFO must cover it; dictionary round trips (set_dict and process+reset) through reference and zlib; wrong-state dictionary calls must fail without side effects.",
         "reference decoder's distance accounting trusted; 8 KiB window in the hist8k/longer builds",
         "runtime monitor on match distances via instrumented independent decoder; differential dictionary round trips; state-snapshot comparison"),
 "C02": ("exploration", "Valid streams from a deflate-grammar generator (expected bytes known from the token list, no decoder involved), from zlib and from ISA-L are decoded in every wrapper mode, stateless and streaming under hostile schedules, under each decode-kernel CPU level; result, finish state, end position (streams are followed by foreign bytes) and checksum field must equal the independent reference; one-shot decode is also retried on the same struct after ISAL_OUT_OVERFLOW.",
         "generator emits only valid streams (cross-checked by the reference decoder: a disagreement is a harness failure)",
         "runtime differential oracle (grammar generator + independent inflate) over stream shapes, wrapper modes, schedules and decode kernels"),
 "C06": ("fault_enumeration", "Hostile inputs: 16 classes of grammar-level faults injected by the generator, bit flips / substitutions / truncations / trailer edits of valid streams, random bytes; decoded stateless with output sizes {0,1,7,8,exact-1,exact,exact+1,big} and streaming with random chunking in guard-page mappings on the assembly and the all-C ASan+bounds builds; completion is accepted only if the lenient independent decoder agrees; documented codes, progress and error classes monitored.",
         "reference decoder is lenient exactly where RFC 1951 is; error class asserted only for isolated injected faults with ample output space",
         "fault injection at grammar and byte level + runtime monitors (guard pages, ASan/bounds, progress, return-code set) + independent decodability oracle"),
 "C07": ("exploration", "Call-history exploration: compression and decompression driven by adversarial schedules (chunk-size tables around internal thresholds, refill/drain disciplines, flush changes, late end_of_stream, zero-length calls, fresh guard-page mapping per chunk released on consumption, every single split point for small streams); per-call event log checked for conservation and bounded progress, results compared with reference/one-shot decode.",
         "flush requests repeated only while unflushed input exists",
         "offline checker over per-call event logs + differential oracle against one-shot/reference results"),
 "C11": ("fault_enumeration", "Producer: trailers of every wrapped stream compared with reference CRC-32/ISIZE/Adler-32 of the input, incl. one-shot calls with output space around the stored-block bound and an Adler saturation schedule. Verifier: single-bit flips, substitutions, truncations and trailer edits of valid wrapped streams, with splits inside the trailer; success accepted only if the trailer bytes present match the reference checksum of the delivered bytes; state->crc compared after completion.",
         "reference CRC/Adler anchored to published check values; *_NO_HDR modes do not verify (documented)",
         "single-fault injection over wrapped streams + checksum oracle recomputed from delivered bytes"),
 "C05": ("exploration", "Every kernel variant and the codec (one-shot and streaming) run with each buffer in its own mapping bounded by inaccessible pages, consumed chunks made PROT_NONE, canaries around every buffer, context invariants, and the all-C build under ASan + bounds; a fault or damaged canary is attributed to the buffer and the faulting library symbol.",
         "declared ranges follow the headers (gf tables 32*k*rows, documented alignment/multiples); in-buffer over-reads are invisible to page protection",
         "MMU guard pages + released-chunk histories + canaries + ASan/bounds, over generated workloads"),
 "C15": ("exploration", "(a) every dispatch slot is resolved by running the resolvers directly, then every writable page of libisal.so is made read-only before the first API call; a serial pass and 16 threads with independent contexts and shared read-only inputs run 12 API scenarios (incl. inflate of streams with injected grammar faults): any write to library data faults, results must equal the serial ones; (b) first calls raced from 2/4/16 threads in fresh processes; (c) un-warmed threaded workload on the all-C build under ThreadSanitizer; (e) every scenario repeated with 5 garbage prefills of context/level_buf/output/output structs at two addresses and after reset / re-init reuse histories: all observable results identical.",
         "the universal quantifier over interleavings is replaced by the no-shared-writes observation plus stress; documented caller obligations (zeroed histogram) respected",
         "hardware write protection of library data + differential prefill/address/reuse monitor + ThreadSanitizer + racing cold starts + valgrind memcheck definedness tracking"),
 "C16": ("exploration", "The real resolvers run under the x86 trap flag with CPUID/XGETBV emulated for every configuration of a dependency-closed space (covering subset in quick, complete in thorough); for every distinct slot assignment a battery over all public APIs is single-step traced, executed instructions are classified from the binary's disassembly and must be available in every configuration mapping to that assignment; untraced codec implementations are covered by a disassembly sweep; deterministic results must agree across assignments.",
         "mapping of untested extensions to CPU generations (SSSE3/POPCNT/BMI); EVEX implies full AVX-512 G1; host supports all simulated configurations",
         "runtime observation of resolver decisions under simulated CPUs + single-step instruction tracing (disassembly sweep for the untraced remainder)"),
 "C18": ("exploration", "Thousands of histograms from 13 adversarial families through both builders, plus per-table worst-case literal+length+distance group data and constant-run-first data: stored header parsed by an independent parser (complete codes), every symbol the encoder emits decoded by the reference, level-0 round trips (reference + zlib) under each level-0 kernel, install rules probed across stream states.",
         "encoder lookup observed through igzip/huffman.h helpers; reference decoder trusted",
         "runtime differential oracle over generated histograms + independent header parse + per-symbol decode"),
 "C19": ("exploration", "Header writers compared byte for byte with an independent RFC 1952/1950 writer incl. too-small-output behaviour; readers fed independent bytes under every chunking with overflow resume and guard-page buffers; arbitrary bytes must give documented status codes and the same accept/reject verdict and end position as the independent parser; reference-written headers are also consumed through isal_inflate at every split point.",
         "FCHECK may be 0 or 31 when both valid; realloc semantics on overflow resume",
         "runtime differential oracle (independent header codec) + chunking histories + guard pages"),
 "C03": ("exploration", "Every exported encode/dot-product variant (and the dispatchers under simulated CPU levels through the real resolvers) executed on tens of thousands of generated cases with guard-page-placed buffers and compared byte for byte with an independent shift-and-xor GF(2^8) matrix product; held on the executions listed in the evidence, nothing is claimed about cases not run.",
         "trusts the independent reference (self-tested against field axioms), the host CPU executing every variant, and ec_init_tables (decided separately by C12)",
         "runtime differential oracle + guard pages/canaries on every kernel variant"),
 "C04": ("exploration", "Every exported CRC/Adler variant run over every length 0..1100, block-size neighbourhoods, large buffers, all split points of short buffers and random splits, compared with a bit-at-a-time reference anchored to published check values.",
         "trusts the Rocksoft-model reference and the catalogue check values; per-routine init/xorout convention read from the headers",
         "runtime differential oracle (bitwise CRC/Adler reference) + composition monitor + guard pages"),
 "C08": ("exploration", "Every xor/pq gen/check variant run on generated arrays (vects 3..257, documented length multiples and alignments) against Horner evaluation in an independent GF(2^8); checks must accept reference-consistent arrays and flag every injected single-byte corruption; out-of-contract vects with all vectors unmapped.",
         "trusts the reference field; documented alignment/length contract respected",
         "runtime differential oracle + single-byte fault injection + guard pages/unmapped vectors"),
 "C09": ("exploration", "gf_invert_matrix judged by an independent determinant and product on thousands of structured matrices; generator matrices compared with the closed formulas; every survivor set for all small (m,k) and minor enumeration for the documented Vandermonde families and Cauchy, recovered through the real encode path under every simulated CPU level, erased rows only and all k blocks with the full inverse into a reused table buffer.",
         "trusts the independent GF(2^8) reference; equivalence of singular parity minors and undecodable survivor sets",
         "runtime differential oracle, complete enumeration of small configurations, sampled beyond"),
 "C12": ("exploration", "Complete enumeration of the finite domain (all operand pairs, all constants, all table entries, GFNI affine form on all pairs) in the default and GF_LARGE_TABLES builds against an independent shift-and-xor field.",
         "trusts the 20-line reference multiplication and its self-test; GF2P8AFFINEQB semantics cross-checked with the real instruction",
         "exhaustive runtime comparison with an independent reference"),
 "C13": ("exploration", "Every exported multiply-accumulate/update variant and gf_vect_mul_* run on generated update histories (permuted order, repeated sources); parity compared with the reference after every single update and with the reference full encode at the end.",
         "same trusted base as C03", "runtime history monitor (per-update delta oracle) + guard pages/canaries"),
 "C20": ("exploration", "Every zero-detect variant run over every length 0..1100, alignments, placements at inaccessible pages, every single non-zero byte position for short regions, neighbours alternately 00/FF; judged by the definition.",
         "host CPU executes every variant", "runtime oracle by definition + guard pages, near-exhaustive sweep"),
}
ENGINES = [
 ("eng_ec", "harness/eng_ec.c", ["C03", "C13", "C05"], "direct calls of every EC kernel variant with guard-page placement, reference GF(2^8) oracle, update histories; dispatched entry points also called as written in source through erasure_code.h / gf_vect_mul.h"),
 ("eng_crc", "harness/eng_crc.c", ["C04", "C05"], "every CRC/Adler variant vs bitwise reference, split composition; dispatched entry points also called through crc.h / crc64.h / igzip_lib.h"),
 ("eng_raid", "harness/eng_raid.c", ["C08", "C05"], "xor/pq gen/check variants vs reference, corruption injection, out-of-contract arguments; dispatched entry points also called through raid.h"),
 ("eng_mem", "harness/eng_mem.c", ["C20", "C05"], "zero detect sweep over every variant, the dispatcher and the call as written in source through mem_routines.h"),
 ("eng_deflate", "harness/eng_deflate.c", ["C01", "C07", "C10", "C11", "C14", "C17", "C05"], "compression driver: one-shot/streaming with adversarial schedules, reference inflate + zlib oracles, event log, flush-point and window monitors"),
 ("eng_inflate", "harness/eng_inflate.c", ["C02", "C06", "C07", "C11", "C05"], "decompression driver over grammar-generated (incl. near-maximal dynamic headers and the library default header with foreign tokens), foreign, mutated and random streams; stateless and streaming schedules; reference verdict oracle"),
 ("eng_huff", "harness/eng_huff.c", ["C18", "C05"], "custom Huffman tables: histogram families, header parser, per-symbol decode, round trips, install rules"),
 ("eng_hdr", "harness/eng_hdr.c", ["C19", "C05"], "gzip/zlib header writers and readers vs independent codec; chunking, overflow resume, arbitrary bytes"),
 ("eng_disp", "harness/eng_disp.c", ["C16"], "resolvers under simulated CPUID/XGETBV, API battery under the trap-flag instruction tracer; driver vlib/disp.py classifies executed instructions"),
 ("eng_thr", "harness/eng_thr.c", ["C15"], "API scenarios with digests: prefill/address/reuse differential, read-only library pages with 16 threads, racing cold starts, TSan workload"),
 ("eng_big", "harness/eng_big.c", ["C10"], "thorough tier: compression streams of 2^32 + delta bytes at levels 0-3 under four CPU levels, decoded on the fly by zlib; counters modulo 2^32; bounded termination"),
 ("eng_gfmath", "harness/eng_gfmath.c", ["C09", "C12"], "scalar GF arithmetic (exhaustive), inversion, generators, erasure patterns"),
]
WIP = "check not registered yet (implementation in progress; the technique applies - see DESIGN.md section 3)"
NA = {}

def main():
    props = [json.loads(l)["id"] for l in open(os.path.join(V, "properties.jsonl"))]
    checks = []
    for pid in props:
        if pid not in CHECKS:
            continue
        cat, text, note, tech = CHECKS[pid]
        checks.append({"property_id": pid, "quick_cmd": "python3 vcheck.py %s --tier quick" % pid, "thorough_cmd": "python3 vcheck.py %s --tier thorough" % pid,
                       "evidence_file": "/verif/evidence/%s.json" % pid, "replay_cmd_template": "python3 vcheck.py %s --replay {path}" % pid, "engine": "vcheck",
                       "level_claimed": {"category": cat, "text": text, "design_ref": "DESIGN.md section 3 (%s)" % pid}, "level_note": note, "technique": tech})
    na = [{"property_id": p, "reason": NA.get(p, WIP)} for p in props if p not in CHECKS]
    m = {"version": 1, "setup_cmd": "python3 tools/setup.py",
         "hooks": {"guard": "INTEL_ISA_L_VERIF", "enable": "every build passes D=INTEL_ISA_L_VERIF to Makefile.unx (gcc and nasm)", "baseline_off_cmd": "make -C /repo -j8 check", "source_commits": [], "add_only": True},
         "engines": [{"name": n, "path": p, "serves_properties": sp, "kind_free_text": k} for n, p, sp, k in ENGINES if any(x in CHECKS for x in sp)],
         "checks": checks, "not_applicable": na, "notes": "see DESIGN.md; known_findings.json lists genuine defects (fixed or recorded)"}
    json.dump(m, open(os.path.join(V, "MANIFEST.json"), "w"), indent=1)
    print("MANIFEST.json: %d checks, %d not_applicable" % (len(checks), len(na)))

if __name__ == "__main__":
    main()
