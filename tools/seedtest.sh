#!/bin/bash
# tools/seedtest.sh <patch.diff> <prop> [<prop>...] : apply a seeded change to /repo, run the quick checks, undo it.
p=$1; shift
if ! git -C /repo diff --quiet; then echo "repo dirty"; exit 2; fi
git -C /repo apply "$p" || { echo "patch does not apply"; exit 2; }
for c in "$@"; do
  out=$(cd /verif && python3 vcheck.py $c --tier ${TIER:-quick} 2>&1); rc=$?
  echo "== $c rc=$rc"; echo "$out" | grep -E "VIOLATION|HARNESS|INCONCL|held" | cut -c1-330 | head -${LINES_MAX:-4}
done
git -C /repo checkout -- .
