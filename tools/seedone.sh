#!/bin/bash
# tools/seedone.sh <dir-with-patch.diff> <prop>... : run checks of the working /verif against a scratch worktree of /repo HEAD with the patch applied
d=$1; shift
wt=/tmp/one-$$; export VERIF_BUILD=/tmp/onebuild-$$ VERIF_EVIDENCE=/tmp/oneevid-$$ VERIF_REPLAYS=/tmp/onereplays-$$
git -C /repo worktree add -f $wt HEAD >/dev/null 2>&1
if git -C $wt apply $d/patch.diff 2>/dev/null; then
  for p in "$@"; do o=$(cd /verif && VERIF_REPO=$wt timeout 1800 python3 vcheck.py $p --tier ${VERIF_TIER:-quick} 2>&1); rc=$?; echo "$d $p rc=$rc $(echo "$o" | grep -m1 -o 'key=[^ ]*') $(echo "$o" | tail -1 | cut -c1-120)"; done
else echo "$d patch-does-not-apply"; fi
git -C /repo worktree remove --force $wt >/dev/null 2>&1; rm -rf $VERIF_BUILD $VERIF_EVIDENCE $VERIF_REPLAYS
