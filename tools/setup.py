#!/usr/bin/env python3
"""setup: verify that the toolchain the checks need is present (everything else is rebuilt by each check from /repo)."""
import shutil, subprocess, sys, os
need = ["gcc", "nasm", "make", "nm", "objdump", "ar"]
missing = [t for t in need if not shutil.which(t)]
if missing:
    print("missing tools:", missing); sys.exit(1)
os.makedirs("/verif/.build", exist_ok=True); os.makedirs("/verif/evidence", exist_ok=True); os.makedirs("/verif/replays", exist_ok=True)
print("setup ok")
