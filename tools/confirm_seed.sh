#!/bin/bash
# tools/confirm_seed.sh <dir-with patch.diff+demo.c> : confirm a seeded change in a scratch worktree of /repo HEAD:
#   demo passes on the clean tree; patch applies, compiles, 16 pinned tests pass; demo fails with the patch.
d=$1; id=$(echo $d | tr '/' '_'); wt=/tmp/confirm-$id-$$
git -C /repo worktree add -f $wt HEAD >/dev/null 2>&1 || { echo "$d worktree-failed"; exit 2; }
res=""
( cd $wt && make -f Makefile.unx -j4 lib >/dev/null 2>&1 ) || res="$res build-clean-failed"
demo() { if [ -f $d/run.sh ]; then bash $d/run.sh $wt >/dev/null 2>&1; else gcc -O1 -g -I$wt/include -I$wt/igzip $d/demo.c $wt/bin/isa-l.a -lz -lpthread -ldl -o $wt/demo_bin >/dev/null 2>&1 && ( cd $wt && timeout 300 ./demo_bin >/dev/null 2>&1 ); fi; }
demo; r0=$?
if git -C $wt apply $d/patch.diff 2>/dev/null; then
  ( cd $wt && make -f Makefile.unx clean >/dev/null 2>&1; make -f Makefile.unx -j4 lib >/dev/null 2>&1 ) || res="$res build-patched-failed"
  demo; r1=$?
  nt=$(cd $wt && make -f Makefile.unx -j4 check 2>&1 | grep -c "Completed run"); nf=$(cd $wt && make -f Makefile.unx check 2>&1 | grep -ci "fail")
  echo "$d clean_demo=$r0 patched_demo=$r1 tests_completed=$nt fail_lines=$nf $res"
else
  echo "$d patch-does-not-apply clean_demo=$r0"
fi
git -C /repo worktree remove --force $wt >/dev/null 2>&1
