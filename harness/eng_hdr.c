/* eng_hdr.c - C19: gzip/zlib header writers emit the RFC 1952 / RFC 1950 layout (compared byte for byte with an
 * independent writer), refuse too-small output without side effects; readers recover the fields from independently
 * produced bytes for any chunking, resume after name/comment/extra overflow, stop exactly at the first byte of
 * compressed data and survive arbitrary bytes with documented status codes only. */
#include "v.h"
#include "refinflate.h"
#include "refhdr.h"
#include "gen_syms.h"
#include "igzip_lib.h"
#include "cpusim.h"

static gslot *s_zs, *s_out, *s_st, *s_in, *s_extra, *s_name, *s_comment, *s_hdr, *s_ic[4];
static uint8_t *ref, *extra_src; static char *name_src, *comment_src;
static long st_writes, st_reads, st_resumes, st_small, st_splits, st_arbitrary, st_ret[16], st_verdict_ok, st_verdict_rej, st_via_inflate, st_dict_after;

static void fault_key(const char *what) { v_describe_fault(); char key[200]; snprintf(key, sizeof key, "fault:%s:%s:%s", v_fault_sym(), v_fault_slot(), v_fault.sig == SIGALRM ? "hang" : v_fault.sig == SIGABRT ? "abort" : "access"); v_viol(key, "%s: %s", what, v_fault_txt); }
static void gen_fields(vrng *r, refgz_t *h)
{
	memset(h, 0, sizeof *h);
	h->text = vrn(r, 2); h->hcrc = vrn(r, 2); h->mtime = (uint32_t[]){ 0, 1, 0x01020304, 0xffffffffu, vr32(r) }[vrn(r, 5)]; h->xfl = (uint8_t) vr32(r); h->os = (uint8_t) vr32(r);
	if (vrn(r, 2)) { h->has_extra = 1; h->extra_len = (uint32_t[]){ 0, 1, 255, 256, 65535, vrn(r, 300), vrn(r, 65536) }[vrn(r, 7)]; vr_fill(r, extra_src, h->extra_len); h->extra = extra_src; }
	if (vrn(r, 2)) { size_t l = (size_t[]){ 0, 1, 255, 4096, vrn(r, 40), vrn(r, 5000) }[vrn(r, 6)]; for (size_t i = 0; i < l; i++) name_src[i] = (char) (1 + vrn(r, 255)); name_src[l] = 0; h->name = name_src; }
	if (vrn(r, 2)) { size_t l = (size_t[]){ 0, 1, 255, 4096, vrn(r, 40), vrn(r, 5000) }[vrn(r, 6)]; for (size_t i = 0; i < l; i++) comment_src[i] = (char) (1 + vrn(r, 255)); comment_src[l] = 0; h->comment = comment_src; }
}
/* ------------------------------------------------------------------ writers */
static void gzip_write_case(long idx, vrng *r)
{
	refgz_t h; gen_fields(r, &h); size_t want = refhdr_gzip(ref, &h);
	struct isal_zstream *zs = (struct isal_zstream *) gs_place(s_zs, sizeof *zs, G_START, 0); struct isal_gzip_header *gh = (struct isal_gzip_header *) gs_place(s_hdr, (sizeof *gh + 15) & ~15ul, G_END, 0);
	int sz = vrn(r, 6); size_t cap = sz == 0 ? want : sz == 1 ? want + 1 + vrn(r, 100) : sz == 2 ? (want ? want - 1 : 0) : sz == 3 ? 0 : sz == 4 ? vrn(r, (uint32_t) want + 1) : want;
	uint8_t *out = gs_place(s_out, cap, vrn(r, 3) ? G_END : G_START, 0); memset(out, 0x5c, cap);
	uint8_t *ex = NULL; char *nm = NULL, *cm = NULL;
	if (h.has_extra) { ex = gs_place(s_extra, h.extra_len, G_END, 0); memcpy(ex, h.extra, h.extra_len); }
	if (h.name) { size_t l = strlen(h.name) + 1; nm = (char *) gs_place(s_name, l, G_END, 0); memcpy(nm, h.name, l); }
	if (h.comment) { size_t l = strlen(h.comment) + 1; cm = (char *) gs_place(s_comment, l, G_END, 0); memcpy(cm, h.comment, l); }
	v_setcase(idx, "write gzip header: text=%d hcrc=%d time=%08x xfl=%02x os=%02x extra=%d/%u name=%zd comment=%zd avail_out=%zu (needs %zu)", h.text, h.hcrc, h.mtime, h.xfl, h.os, h.has_extra, h.extra_len, h.name ? (ssize_t) strlen(h.name) : -1, h.comment ? (ssize_t) strlen(h.comment) : -1, cap, want);
	uint32_t rc; static struct isal_zstream snap;
	if (V_TRY(20)) {
		vr_fill(r, gh, sizeof *gh);                 /* a struct that was used before (e.g. received a parsed header): init must make it behave like a fresh one */
		isal_deflate_init(zs); isal_gzip_header_init(gh);
		gh->text = h.text; gh->time = h.mtime; gh->xflags = h.xfl; gh->os = h.os; if (h.hcrc || vrn(r, 2)) gh->hcrc = h.hcrc;   /* "no header CRC" is the initialised default */
		gh->extra = ex; gh->extra_len = h.extra_len; gh->extra_buf_len = h.extra_len + (vrn(r, 2) ? vrn(r, 500) : 0);   /* a buffer larger than the field (e.g. a parsed header being re-emitted) */ gh->name = nm; gh->name_buf_len = nm ? (uint32_t) strlen(nm) + 1 : 0; gh->comment = cm; gh->comment_buf_len = cm ? (uint32_t) strlen(cm) + 1 : 0;
		if (h.has_extra && !ex) gh->extra = (uint8_t *) gh;       /* zero-length extra field: a non-NULL pointer selects FEXTRA */
		zs->next_out = out; zs->avail_out = (uint32_t) cap; zs->total_out = 7;
		memcpy(&snap, zs, sizeof snap);
		rc = isal_write_gzip_header(zs, gh); V_END;
	} else { fault_key("isal_write_gzip_header"); goto out; }
	st_writes++;
	if (cap < want) {
		st_small++;
		if (rc != want) v_viol("gzip-writer:required-size", "output too small: returned %u, required size is %zu", rc, want);
		else if (memcmp(&snap, zs, sizeof snap)) v_viol("gzip-writer:stream-modified-on-failure", "stream struct changed although the header did not fit");
		else for (size_t i = 0; i < cap; i++) if (out[i] != 0x5c) { v_viol("gzip-writer:output-written-on-failure", "output byte %zu written although the header did not fit", i); break; }
	} else {
		if (rc != 0) v_viol("gzip-writer:refused", "returned %u with %zu bytes of room for %zu", rc, cap, want);
		else if (zs->next_out != out + want || zs->avail_out != cap - want || zs->total_out != 7 + want) v_viol("gzip-writer:counters", "next_out/avail_out/total_out not advanced by the header size %zu", want);
		else if (memcmp(out, ref, want)) { size_t x = 0; while (out[x] == ref[x]) x++; char a[40], b[40]; v_hex(a, sizeof a, out + (x > 4 ? x - 4 : 0), 12); v_hex(b, sizeof b, ref + (x > 4 ? x - 4 : 0), 12); char key[120]; snprintf(key, sizeof key, "gzip-writer:bytes:%s", x < 10 ? "fixed-part" : "optional-part"); v_viol(key, "header differs from RFC 1952 layout at byte %zu: wrote ..%s.. expected ..%s..", x, a, b); }
		else { for (size_t i = want; i < cap; i++) if (out[i] != 0x5c) { v_viol("gzip-writer:wrote-beyond-header", "byte %zu after the header was modified", i); break; } v_distinct(v_hash64(ref, want, 1)); if (v_nsamples < 2 && want > 20) { char a[64]; v_hex(a, sizeof a, out, 24); v_sample("%s -> bytes %s.. equal the independent RFC 1952 writer", v_case, a); } }
	}
	{ long d = gs_check(s_out, 4096); if (d != GS_OK) { v_viol("oob-write:next_out", "canary damaged at %+ld", d); gs_repaint_all(s_out); } }
out:
	gs_reset(s_zs); gs_reset(s_hdr); gs_reset(s_out); gs_reset(s_extra); gs_reset(s_name); gs_reset(s_comment);
}
static void zlib_write_case(long idx, vrng *r)
{
	int info = vrn(r, 8), level = vrn(r, 4), fdict = vrn(r, 2); uint32_t did = vrn(r, 2) ? 0x01020304u : vr32(r); size_t want = fdict ? 6 : 2;
	struct isal_zstream *zs = (struct isal_zstream *) gs_place(s_zs, sizeof *zs, G_START, 0); struct isal_zlib_header zh;
	size_t cap = (size_t[]){ want, want + 5, want - 1, 0, 1 }[vrn(r, 5)]; uint8_t *out = gs_place(s_out, cap, vrn(r, 3) ? G_END : G_START, 0); memset(out, 0x5c, cap);
	v_setcase(idx, "write zlib header: info=%d level=%d dict_flag=%d dict_id=%08x avail_out=%zu", info, level, fdict, did, cap);
	uint32_t rc; static struct isal_zstream snap;
	if (V_TRY(20)) { isal_deflate_init(zs); isal_zlib_header_init(&zh); zh.info = info; zh.level = level; zh.dict_flag = fdict; zh.dict_id = did; zs->next_out = out; zs->avail_out = (uint32_t) cap; memcpy(&snap, zs, sizeof snap); rc = isal_write_zlib_header(zs, &zh); V_END; } else { fault_key("isal_write_zlib_header"); goto out; }
	st_writes++;
	if (cap < want) { st_small++; if (rc != want) v_viol("zlib-writer:required-size", "returned %u, required %zu", rc, want); else if (memcmp(&snap, zs, sizeof snap)) v_viol("zlib-writer:stream-modified-on-failure", "stream struct changed"); else for (size_t i = 0; i < cap; i++) if (out[i] != 0x5c) { v_viol("zlib-writer:output-written-on-failure", "output written"); break; } }
	else if (rc != 0) v_viol("zlib-writer:refused", "returned %u", rc);
	else {
		if (zs->next_out != out + want || zs->total_out != want) v_viol("zlib-writer:counters", "counters not advanced by %zu", want);
		if (out[0] != (8 | info << 4)) v_viol("zlib-writer:cmf", "CMF=%02x expected %02x", out[0], 8 | info << 4);
		else if ((out[1] >> 6) != level || ((out[1] >> 5) & 1) != fdict) v_viol("zlib-writer:flg", "FLG=%02x: FLEVEL/FDICT wrong", out[1]);
		else if (((out[0] << 8) | out[1]) % 31) v_viol("zlib-writer:fcheck", "CMF/FLG %02x%02x is not a multiple of 31", out[0], out[1]);
		else if (fdict && (out[2] != (uint8_t) (did >> 24) || out[3] != (uint8_t) (did >> 16) || out[4] != (uint8_t) (did >> 8) || out[5] != (uint8_t) did)) v_viol("zlib-writer:dictid-byte-order", "DICTID %08x written as %02x %02x %02x %02x; RFC 1950 stores it most significant byte first", did, out[2], out[3], out[4], out[5]);
		else v_distinct(v_hash64(out, want, 2));
	}
out:
	gs_reset(s_zs); gs_reset(s_out);
}
/* ------------------------------------------------------------------ readers */
static void count_ret(int rc) { if (rc >= -8 && rc < 8) st_ret[rc + 8]++; }
static void gzip_read_case(long idx, vrng *r)
{
	refgz_t h; gen_fields(r, &h); size_t hl = refhdr_gzip(ref, &h), tail = 1 + vrn(r, 40); vr_fill(r, ref + hl, tail); size_t total = hl + tail;
	struct inflate_state *st = (struct inflate_state *) gs_place(s_st, sizeof *st, G_START, 0); struct isal_gzip_header *gh = (struct isal_gzip_header *) gs_place(s_hdr, (sizeof *gh + 15) & ~15ul, G_END, 0);
	/* buffer sizes: ample, exact, or undersized (then grown on overflow) */
	size_t nl = h.name ? strlen(h.name) + 1 : 0, cl = h.comment ? strlen(h.comment) + 1 : 0;
	size_t ecap = vrn(r, 3) == 0 ? vrn(r, h.extra_len + 1) : h.extra_len + vrn(r, 2) * vrn(r, 10), ncap = vrn(r, 3) == 0 ? vrn(r, (uint32_t) nl + 1) : nl + vrn(r, 2) * vrn(r, 10), ccap = vrn(r, 3) == 0 ? vrn(r, (uint32_t) cl + 1) : cl + vrn(r, 2) * vrn(r, 10);
	int use_e = vrn(r, 6) != 0, use_n = vrn(r, 6) != 0, use_c = vrn(r, 6) != 0;
	int mode = vrn(r, 4); if (hl > 1500 && mode == 2) mode = 3;
	long split = mode == 1 ? (long) vrn(r, (uint32_t) hl + 1) : -1;      /* 0 all at once, 1 one split, 2 byte by byte (short headers), 3 random chunks */
	v_setcase(idx, "read gzip header: flags text=%d hcrc=%d extra=%d/%u name=%zu comment=%zu hdrlen=%zu chunking=%d split=%ld bufs e=%zu/%d n=%zu/%d c=%zu/%d", h.text, h.hcrc, h.has_extra, h.extra_len, nl, cl, hl, mode, split, ecap, use_e, ncap, use_n, ccap, use_c);
	uint8_t *eb = use_e ? gs_place(s_extra, ecap, G_END, 0) : NULL; char *nb = use_n ? (char *) gs_place(s_name, ncap, G_END, 0) : NULL, *cb = use_c ? (char *) gs_place(s_comment, ccap, G_END, 0) : NULL;
	size_t given = 0; int rc = 0, calls = 0, irot = 0; gslot *icur = NULL;
	if (V_TRY(30)) {
		isal_inflate_init(st); isal_gzip_header_init(gh);
		gh->extra = eb; gh->extra_buf_len = (uint32_t) ecap; gh->name = nb; gh->name_buf_len = (uint32_t) ncap; gh->comment = cb; gh->comment_buf_len = (uint32_t) ccap;
		st->avail_in = 0;
		for (;;) {
			if (++calls > 300000) { V_END; v_viol("gzip-reader:no-termination", "header not parsed after %d calls", calls); goto out; }
			if (st->avail_in == 0 && given < total) {
				size_t c = mode == 0 ? total : mode == 1 ? (given == 0 && calls == 1 ? (size_t) split : total - given) : mode == 2 ? 1 : 1 + vrn(r, 64); if (c > total - given) c = total - given; if (c > 60000) c = 60000;
				if (icur) { gs_reset(icur); gs_release(icur); } icur = s_ic[irot++ % 4]; if (icur->released) gs_reacquire(icur);
				uint8_t *p = gs_place(icur, c, vrn(r, 2) ? G_END : G_START, 0); memcpy(p, ref + given, c); st->next_in = p; st->avail_in = (uint32_t) c; given += c;
			}
			uint32_t ain = st->avail_in;
			rc = isal_read_gzip_header(st, gh); count_ret(rc); st_reads++;
			if (rc == ISAL_DECOMP_OK) break;
			if (rc == ISAL_END_INPUT) { if (st->avail_in != 0) { V_END; v_viol("gzip-reader:end-input-with-input-left", "ISAL_END_INPUT returned with avail_in=%u", st->avail_in); goto out; } if (given >= total) { V_END; v_viol("gzip-reader:wants-more-than-header", "ISAL_END_INPUT after the whole header and %zu more bytes were supplied", tail); goto out; } continue; }
			if (rc == ISAL_EXTRA_OVERFLOW || rc == ISAL_NAME_OVERFLOW || rc == ISAL_COMMENT_OVERFLOW) {
				/* grow the overflowing buffer (realloc semantics: old content kept) and call again */
				st_resumes++;
				if (rc == ISAL_EXTRA_OVERFLOW) { if (!use_e || ecap >= h.extra_len) { V_END; v_viol("gzip-reader:spurious-overflow", "ISAL_EXTRA_OVERFLOW with a buffer of %zu for %u bytes", ecap, h.extra_len); goto out; } static uint8_t t[65536]; memcpy(t, eb, ecap); size_t n2 = ecap + 1 + vrn(r, h.extra_len - (uint32_t) ecap + 4); eb = gs_place(s_extra, n2, G_END, 0); memcpy(eb, t, ecap); ecap = n2; gh->extra = eb; gh->extra_buf_len = (uint32_t) ecap; }
				else if (rc == ISAL_NAME_OVERFLOW) { if (!use_n || ncap >= nl) { V_END; v_viol("gzip-reader:spurious-overflow", "ISAL_NAME_OVERFLOW with a buffer of %zu for %zu bytes", ncap, nl); goto out; } static char t[8192]; memcpy(t, nb, ncap); size_t n2 = ncap + 1 + vrn(r, (uint32_t) (nl - ncap) + 4); nb = (char *) gs_place(s_name, n2, G_END, 0); memcpy(nb, t, ncap); ncap = n2; gh->name = nb; gh->name_buf_len = (uint32_t) ncap; }
				else { if (!use_c || ccap >= cl) { V_END; v_viol("gzip-reader:spurious-overflow", "ISAL_COMMENT_OVERFLOW with a buffer of %zu for %zu bytes", ccap, cl); goto out; } static char t[8192]; memcpy(t, cb, ccap); size_t n2 = ccap + 1 + vrn(r, (uint32_t) (cl - ccap) + 4); cb = (char *) gs_place(s_comment, n2, G_END, 0); memcpy(cb, t, ccap); ccap = n2; gh->comment = cb; gh->comment_buf_len = (uint32_t) ccap; }
				continue;
			}
			V_END; { char key[100]; snprintf(key, sizeof key, "gzip-reader:rejects-valid-header:%d", rc); v_viol(key, "returned %d on an RFC 1952 conformant header (call %d, avail_in was %u)", rc, calls, ain); } goto out;
		}
		V_END;
	} else { fault_key("isal_read_gzip_header"); goto out; }
	if (mode) st_splits++;
	/* fields and position */
	size_t consumed = given - st->avail_in;
	if (consumed != hl) v_viol("gzip-reader:position", "stopped after %zu bytes; the first byte of compressed data is at %zu", consumed, hl);
	else if (gh->text != (uint32_t) h.text || gh->time != h.mtime || gh->xflags != h.xfl || gh->os != h.os) v_viol("gzip-reader:fixed-fields", "text/time/xflags/os recovered as %u/%08x/%02x/%02x", gh->text, gh->time, gh->xflags, gh->os);
	else if (h.has_extra && gh->extra_len != h.extra_len) v_viol("gzip-reader:extra_len", "extra_len=%u expected %u", gh->extra_len, h.extra_len);
	else if (h.has_extra && use_e && memcmp(eb, h.extra, h.extra_len)) v_viol("gzip-reader:extra-bytes", "extra field content differs");
	else if (h.name && use_n && (strnlen(nb, ncap) != nl - 1 || memcmp(nb, h.name, nl))) v_viol("gzip-reader:name", "name differs (got %zu chars, expected %zu)", strnlen(nb, ncap), nl - 1);
	else if (h.comment && use_c && (strnlen(cb, ccap) != cl - 1 || memcmp(cb, h.comment, cl))) v_viol("gzip-reader:comment", "comment differs (got %zu chars, expected %zu)", strnlen(cb, ccap), cl - 1);
	else { v_distinct(v_hash64(ref, hl, 3 + mode * 7 + (uint64_t) split * 131)); if (v_nsamples < 4 && hl > 30 && mode) v_sample("%s -> fields recovered, next_in at first deflate byte after %d calls", v_case, calls); }
	for (gslot **g = (gslot *[]){ s_extra, s_name, s_comment, NULL }; *g; g++) { long d = gs_check(*g, 4096); if (d != GS_OK) { char key[100]; snprintf(key, sizeof key, "oob-write:%s-buffer", (*g)->name); v_viol(key, "canary damaged at %+ld", d); gs_repaint_all(*g); } }
out:
	for (int i = 0; i < 4; i++) { if (s_ic[i]->released) gs_reacquire(s_ic[i]); gs_reset(s_ic[i]); }
	gs_reset(s_st); gs_reset(s_hdr); gs_reset(s_extra); gs_reset(s_name); gs_reset(s_comment);
}
static void zlib_read_case(long idx, vrng *r)
{
	int info = vrn(r, 8), level = vrn(r, 4), fdict = vrn(r, 2); uint32_t did = vrn(r, 2) ? 0x01020304u : vr32(r);
	size_t hl = refhdr_zlib(ref, info, level, fdict, did), tail = 1 + vrn(r, 10); vr_fill(r, ref + hl, tail); size_t total = hl + tail;
	struct inflate_state *st = (struct inflate_state *) gs_place(s_st, sizeof *st, G_START, 0); static struct isal_zlib_header zh;
	int mode = vrn(r, 3); long split = mode == 1 ? (long) vrn(r, (uint32_t) hl + 1) : -1;
	v_setcase(idx, "read zlib header: info=%d level=%d fdict=%d dictid=%08x chunking=%d split=%ld", info, level, fdict, did, mode, split);
	size_t given = 0; int rc = 0, calls = 0, irot = 0; gslot *icur = NULL;
	if (V_TRY(30)) {
		isal_inflate_init(st); isal_zlib_header_init(&zh); st->avail_in = 0;
		for (;;) {
			if (++calls > 1000) { V_END; v_viol("zlib-reader:no-termination", "not parsed after %d calls", calls); goto out; }
			if (st->avail_in == 0 && given < total) { size_t c = mode == 0 ? total : mode == 1 ? (given == 0 && calls == 1 ? (size_t) split : total - given) : 1; if (c > total - given) c = total - given;
				if (icur) { gs_reset(icur); gs_release(icur); } icur = s_ic[irot++ % 4]; if (icur->released) gs_reacquire(icur); uint8_t *p = gs_place(icur, c, G_END, 0); memcpy(p, ref + given, c); st->next_in = p; st->avail_in = (uint32_t) c; given += c; }
			rc = isal_read_zlib_header(st, &zh); count_ret(rc); st_reads++;
			if (rc == ISAL_DECOMP_OK) break;
			if (rc == ISAL_END_INPUT) { if (given >= total) { V_END; v_viol("zlib-reader:wants-more-than-header", "ISAL_END_INPUT after the whole header was supplied"); goto out; } continue; }
			V_END; { char key[100]; snprintf(key, sizeof key, "zlib-reader:rejects-valid-header:%d", rc); v_viol(key, "returned %d on an RFC 1950 conformant header", rc); } goto out;
		}
		V_END;
	} else { fault_key("isal_read_zlib_header"); goto out; }
	if (mode) st_splits++;
	if (fdict) { /* the application now supplies the dictionary the header asks for: the state must accept it */
		static uint8_t dd[300]; int rd = 99; if (V_TRY(20)) { rd = isal_inflate_set_dict(st, dd, sizeof dd); V_END; } else { fault_key("isal_inflate_set_dict after zlib header"); goto out; }
		if (rd != ISAL_DECOMP_OK) { v_viol("zlib-reader:state-after-fdict-header", "isal_inflate_set_dict returned %d after the header with FDICT was read (chunking mode %d)", rd, mode); goto out; } st_dict_after++; }
	size_t consumed = given - st->avail_in;
	if (consumed != hl) v_viol("zlib-reader:position", "stopped after %zu bytes, header is %zu", consumed, hl);
	else if (zh.info != (uint32_t) info || zh.level != (uint32_t) level || zh.dict_flag != (uint32_t) fdict) v_viol("zlib-reader:fields", "info/level/dict_flag recovered as %u/%u/%u", zh.info, zh.level, zh.dict_flag);
	else if (fdict && zh.dict_id != did) v_viol("zlib-reader:dictid-byte-order", "bytes %02x %02x %02x %02x (RFC 1950: most significant first = %08x) read as %08x", ref[2], ref[3], ref[4], ref[5], did, zh.dict_id);
	else v_distinct(v_hash64(ref, hl, 5 + mode));
out:
	for (int i = 0; i < 4; i++) { if (s_ic[i]->released) gs_reacquire(s_ic[i]); gs_reset(s_ic[i]); }
	gs_reset(s_st);
}
/* arbitrary bytes as headers: documented status only, in bounds, terminates */
static void arbitrary_case(long idx, vrng *r)
{
	int gz = vrn(r, 2); size_t n;
	if (vrn(r, 2)) { n = 1 + vrn(r, 400); vr_fill(r, ref, n); if (gz && vrn(r, 2)) { ref[0] = 0x1f; ref[1] = 0x8b; ref[2] = 8; } }
	else { if (gz) { refgz_t h; gen_fields(r, &h); if (h.extra_len > 2000) h.extra_len = 2000; n = refhdr_gzip(ref, &h); } else n = refhdr_zlib(ref, vrn(r, 8), vrn(r, 4), vrn(r, 2), vr32(r)); int flips = 1 + vrn(r, 3); for (int k = 0; k < flips; k++) ref[vrn(r, (uint32_t) n)] ^= (uint8_t) (1u << vrn(r, 8)); if (vrn(r, 3) == 0) n = 1 + vrn(r, (uint32_t) n); }
	struct inflate_state *st = (struct inflate_state *) gs_place(s_st, sizeof *st, G_START, 0); struct isal_gzip_header *gh = (struct isal_gzip_header *) gs_place(s_hdr, (sizeof *gh + 15) & ~15ul, G_END, 0); static struct isal_zlib_header zh;
	size_t ecap = vrn(r, 300), ncap = vrn(r, 100), ccap = vrn(r, 100);
	uint8_t *eb = gs_place(s_extra, ecap, G_END, 0); char *nb = (char *) gs_place(s_name, ncap, G_END, 0), *cb = (char *) gs_place(s_comment, ccap, G_END, 0);
	v_setcase(idx, "arbitrary bytes as %s header, %zu bytes, buffers %zu/%zu/%zu", gz ? "gzip" : "zlib", n, ecap, ncap, ccap);
	size_t given = 0; int calls = 0, irot = 0, idle = 0, last_rc = 99; gslot *icur = NULL;
	if (V_TRY(30)) {
		isal_inflate_init(st); isal_gzip_header_init(gh); isal_zlib_header_init(&zh); gh->extra = eb; gh->extra_buf_len = (uint32_t) ecap; gh->name = nb; gh->name_buf_len = (uint32_t) ncap; gh->comment = cb; gh->comment_buf_len = (uint32_t) ccap; st->avail_in = 0;
		for (;;) {
			if (++calls > 5000) { V_END; v_viol("reader:no-termination:arbitrary", "no verdict after %d calls", calls); goto out; }
			if (st->avail_in == 0 && given < n) { size_t c = 1 + vrn(r, 50); if (c > n - given) c = n - given; if (icur) { gs_reset(icur); gs_release(icur); } icur = s_ic[irot++ % 4]; if (icur->released) gs_reacquire(icur); uint8_t *p = gs_place(icur, c, G_END, 0); memcpy(p, ref + given, c); st->next_in = p; st->avail_in = (uint32_t) c; given += c; }
			uint32_t ain = st->avail_in; int sb = st->block_state;
			int rc = gz ? isal_read_gzip_header(st, gh) : isal_read_zlib_header(st, &zh); count_ret(rc); st_reads++; last_rc = rc;
			if (st->avail_in > ain) { V_END; v_viol("reader:avail_in-grew", "avail_in %u -> %u", ain, st->avail_in); goto out; }
			if (rc == ISAL_DECOMP_OK || rc < 0) { if (rc < 0 && rc != ISAL_INVALID_WRAPPER && rc != ISAL_UNSUPPORTED_METHOD && rc != ISAL_INCORRECT_CHECKSUM) { V_END; v_viol("reader:undocumented-status", "returned %d", rc); goto out; } break; }
			if (rc == ISAL_END_INPUT) { if (given >= n && st->avail_in == 0) break; if (st->avail_in == ain && st->block_state == sb && ain) { if (++idle > 2) { V_END; v_viol("reader:no-progress", "ISAL_END_INPUT with %u bytes available and nothing consumed", ain); goto out; } } else idle = 0; continue; }
			if (rc == ISAL_EXTRA_OVERFLOW || rc == ISAL_NAME_OVERFLOW || rc == ISAL_COMMENT_OVERFLOW) { if (!gz) { V_END; v_viol("reader:undocumented-status", "zlib reader returned %d", rc); goto out; } break; }
			V_END; v_viol("reader:undocumented-status", "returned %d", rc); goto out;
		}
		V_END;
	} else { fault_key(gz ? "isal_read_gzip_header(arbitrary)" : "isal_read_zlib_header(arbitrary)"); goto out; }
	st_arbitrary++;
	{ /* the verdict itself, against the independent header parser (reserved FLG bits and CINFO > 7 are not judged) */
	  static rwrap_t W; int e = rwrap_header(&W, gz ? RW_GZIP : RW_ZLIB, ref, n); char key[120];
	  size_t pos = given - st->avail_in - (size_t) (st->read_in_length > 0 ? st->read_in_length / 8 : 0);
	  if (last_rc == ISAL_DECOMP_OK) {
		if (e == RWE_MAGIC || e == RWE_METHOD || e == RWE_HCRC || e == RWE_FCHECK || e == RWE_SHORT) { snprintf(key, sizeof key, "reader:accepts-invalid-header:%s:%s", gz ? "gzip" : "zlib", e == RWE_MAGIC ? "magic" : e == RWE_METHOD ? "method" : e == RWE_HCRC ? "hcrc" : e == RWE_FCHECK ? "fcheck" : "truncated"); v_viol(key, "ISAL_DECOMP_OK for bytes the independent parser rejects (%d): %02x %02x %02x %02x", e, ref[0], ref[1], n > 2 ? ref[2] : 0, n > 3 ? ref[3] : 0); }
		else if (e == RWE_OK && pos != W.hdr_len) { snprintf(key, sizeof key, "reader:end-position:%s", gz ? "gzip" : "zlib"); v_viol(key, "reader stopped at %zu, the header is %zu bytes long", pos, W.hdr_len); }
		st_verdict_ok++;
	  } else if (last_rc == ISAL_INVALID_WRAPPER || last_rc == ISAL_UNSUPPORTED_METHOD || last_rc == ISAL_INCORRECT_CHECKSUM) {
		if (e == RWE_OK) { snprintf(key, sizeof key, "reader:rejects-valid-header:%s:%d", gz ? "gzip" : "zlib", last_rc); v_viol(key, "returned %d for a header the independent parser accepts", last_rc); }
		st_verdict_rej++;
	  } else if (last_rc == ISAL_END_INPUT && e == RWE_OK && given >= n && !W.fdict) { snprintf(key, sizeof key, "reader:never-finishes:%s", gz ? "gzip" : "zlib"); v_viol(key, "ISAL_END_INPUT although a complete valid header (%zu bytes) was supplied", W.hdr_len); }
	}
	for (gslot **g = (gslot *[]){ s_extra, s_name, s_comment, NULL }; *g; g++) { long d = gs_check(*g, 4096); if (d != GS_OK) { char key[100]; snprintf(key, sizeof key, "oob-write:%s-buffer", (*g)->name); v_viol(key, "canary damaged at %+ld on arbitrary input", d); gs_repaint_all(*g); } }
	v_distinct(v_hash64(ref, n, 11 + gz));
out:
	for (int i = 0; i < 4; i++) { if (s_ic[i]->released) gs_reacquire(s_ic[i]); gs_reset(s_ic[i]); }
	gs_reset(s_st); gs_reset(s_hdr); gs_reset(s_extra); gs_reset(s_name); gs_reset(s_comment);
}
/* the same headers in front of an (empty) deflate body, consumed by isal_inflate(): the decoder parses the wrapper through the same readers and
 * has to carry their resume state from call to call - every split point of the header, byte-by-byte delivery, fresh mapping per chunk */
static void inflate_hdr_case(long idx, vrng *r)
{
	int gz = vrn(r, 4) != 0; size_t n;
	if (gz) { refgz_t h; gen_fields(r, &h); if (h.extra_len > 600) h.extra_len = vrn(r, 600); if (h.name && strlen(h.name) > 300) ((char *) h.name)[vrn(r, 300)] = 0; if (h.comment && strlen(h.comment) > 300) ((char *) h.comment)[vrn(r, 300)] = 0; n = refhdr_gzip(ref, &h); }
	else n = refhdr_zlib(ref, vrn(r, 8), vrn(r, 4), 0, 0);
	size_t hl = n; ref[n++] = 0x03; ref[n++] = 0x00;                                     /* final fixed block holding only end-of-block */
	if (gz) { memset(ref + n, 0, 8); n += 8; } else { ref[n++] = 0; ref[n++] = 0; ref[n++] = 0; ref[n++] = 1; }   /* CRC-32 0 / ISIZE 0, Adler-32 1 */
	size_t tail = vrn(r, 3); for (size_t i = 0; i < tail; i++) ref[n + i] = (uint8_t) vr32(r);
	struct inflate_state *st = (struct inflate_state *) gs_place(s_st, sizeof *st, G_START, 0); uint8_t *out = gs_place(s_out, 64, G_END, 0);
	long nsplit = hl <= 1400 ? (long) hl + 2 : 40;
	for (long k = -1; k < nsplit; k++) {   /* k = -1: one byte per call; otherwise two pieces cut at k (or at a random point for long headers) */
		size_t cut = k < 0 ? 0 : hl <= 1400 ? (size_t) k : vrn(r, (uint32_t) hl + 1);
		v_setcase(idx, "%s header of %zu bytes + empty deflate body + trailer through isal_inflate, %s %zu", gz ? "gzip" : "zlib", hl, k < 0 ? "one byte per call" : "first call delivers", cut);
		size_t given = 0; int calls = 0, irot = 0, rc = 0; gslot *icur = NULL;
		if (V_TRY(30)) {
			isal_inflate_init(st); st->crc_flag = gz ? ISAL_GZIP : ISAL_ZLIB; st->next_out = out; st->avail_out = 64; st->avail_in = 0;
			while (st->block_state != ISAL_BLOCK_FINISH && ++calls < 5000) {
				if (st->avail_in == 0) { if (given >= n + tail) break; size_t c = k < 0 ? 1 : given == 0 ? (cut ? cut : 1) : n + tail - given; if (icur) { gs_reset(icur); gs_release(icur); } icur = s_ic[irot++ % 4]; if (icur->released) gs_reacquire(icur); uint8_t *p = gs_place(icur, c, G_END, 0); memcpy(p, ref + given, c); st->next_in = p; st->avail_in = (uint32_t) c; given += c; }
				rc = isal_inflate(st); if (rc < 0) break;
			}
			V_END;
		} else { fault_key("isal_inflate(header split)"); goto out; }
		st_via_inflate++;
		size_t pos = given - st->avail_in - (size_t) (st->read_in_length > 0 ? st->read_in_length / 8 : 0);
		if (rc < 0) { char key[100]; snprintf(key, sizeof key, "inflate-header-split:rejects-valid:%s:%d", gz ? "gzip" : "zlib", rc); v_viol(key, "isal_inflate returned %d", rc); goto out; }
		if (st->block_state != ISAL_BLOCK_FINISH) { char key[100]; snprintf(key, sizeof key, "inflate-header-split:never-finishes:%s", gz ? "gzip" : "zlib"); v_viol(key, "all %zu bytes supplied, block_state %d", n + tail, st->block_state); goto out; }
		if (st->total_out != 0 || pos != n) { char key[100]; snprintf(key, sizeof key, "inflate-header-split:end-position:%s", gz ? "gzip" : "zlib"); v_viol(key, "finished at input position %zu (stream is %zu bytes), total_out %u", pos, n, st->total_out); goto out; }
		for (int i = 0; i < 4; i++) { if (s_ic[i]->released) gs_reacquire(s_ic[i]); gs_reset(s_ic[i]); }
	}
	v_distinct(v_hash64(ref, hl, 21 + gz));
out:
	for (int i = 0; i < 4; i++) { if (s_ic[i]->released) gs_reacquire(s_ic[i]); gs_reset(s_ic[i]); }
	gs_reset(s_st); gs_reset(s_out);
}
/* avail_in is a 32-bit count: values of 2^31 and above are ordinary (a 3 GiB mapping of a file).  The readers are given a valid header at the
 * start of a buffer of 2 GiB + 4 MiB (one 2 MiB block mapped over and over) with avail_in covering all of it */
static void huge_avail_in(void)
{
	vrng r; vr_seed(&r, vopt.seed, 91, 1);
	for (int gz = 1; gz >= 0; gz--) for (int rep = 0; rep < 3; rep++) {
		size_t hl; if (gz) { refgz_t h; gen_fields(&r, &h); if (h.extra_len > 300) h.extra_len = 300; if (rep == 0) { h.has_extra = 0; h.name = h.comment = NULL; h.hcrc = 0; } hl = refhdr_gzip(ref, &h); } else hl = refhdr_zlib(ref, rep * 2 + 1, rep, rep == 2, 0x01020304);
		uint8_t *big = v_alias_map((2ull << 30) + (4u << 20), 0, ref, hl + 8); if (!big) { v_set("huge_avail_in", "skipped: aliased mapping refused"); return; }
		struct inflate_state *st = (struct inflate_state *) gs_place(s_st, sizeof *st, G_END, 0); static struct isal_gzip_header gh; static struct isal_zlib_header zh;
		uint8_t *eb = gs_place(s_extra, 400, G_END, 0); char *nb = (char *) gs_place(s_name, 6000, G_END, 0), *cb = (char *) gs_place(s_comment, 6000, G_END, 0);
		v_setcase(700000000l + gz * 10 + rep, "%s header of %zu bytes at the start of a 2 GiB + 4 MiB buffer, avail_in = 0x%x", gz ? "gzip" : "zlib", hl, 0x80000000u + (3u << 20));
		int rc = 99;
		if (V_TRY(120)) { isal_inflate_init(st); isal_gzip_header_init(&gh); isal_zlib_header_init(&zh); gh.extra = eb; gh.extra_buf_len = 400; gh.name = nb; gh.name_buf_len = 6000; gh.comment = cb; gh.comment_buf_len = 6000;
			st->next_in = big; st->avail_in = 0x80000000u + (3u << 20); rc = gz ? isal_read_gzip_header(st, &gh) : isal_read_zlib_header(st, &zh); V_END;
		} else { fault_key(gz ? "isal_read_gzip_header(avail_in >= 2^31)" : "isal_read_zlib_header(avail_in >= 2^31)"); munmap(big, (2ull << 30) + (4u << 20) + 4096); gs_reset(s_st); continue; }
		st_reads++; v_count("huge_avail_in_reads", gz ? "gzip" : "zlib", 1);
		size_t pos = (0x80000000u + (3u << 20)) - st->avail_in;
		if (rc != ISAL_DECOMP_OK) { char key[100]; snprintf(key, sizeof key, "reader:rejects-valid-header:%s:%d:huge-avail_in", gz ? "gzip" : "zlib", rc); v_viol(key, "returned %d with avail_in >= 2^31", rc); }
		else if (pos != hl) { char key[100]; snprintf(key, sizeof key, "reader:end-position:%s:huge-avail_in", gz ? "gzip" : "zlib"); v_viol(key, "stopped at %zu, the header is %zu bytes long", pos, hl); }
		{ long d = gs_check(s_st, 4096); if (d != GS_OK) { v_viol("oob-write:inflate_state", "canary next to the inflate_state damaged at %+ld", d); gs_repaint_all(s_st); } }
		munmap(big, (2ull << 30) + (4u << 20) + 4096); gs_reset(s_st); gs_reset(s_extra); gs_reset(s_name); gs_reset(s_comment);
	}
}
/* name / comment strings longer than 65535 bytes (the format sets no limit), read back in 4096-byte pieces: the reader keeps its write
 * offset between calls, a 16-bit offset would wrap */
static void long_string_case(void)
{
	vrng r; vr_seed(&r, vopt.seed, 92, 1);
	for (int which = 0; which < 2; which++) {
		size_t L = 65536 + 17 + vrn(&r, 6000); char *big = malloc(L + 1), *got = malloc(L + 4096); uint8_t *hdr = malloc(L + 200000); if (!big || !got || !hdr) v_harness_fail("malloc");
		for (size_t i = 0; i < L; i++) big[i] = (char) (1 + (i * 7 + i / 251) % 255); big[L] = 0;
		refgz_t h; memset(&h, 0, sizeof h); h.os = 3; h.hcrc = (int) vrn(&r, 2); if (which) h.comment = big; else h.name = big; size_t hl = refhdr_gzip(hdr, &h);
		struct inflate_state *st = (struct inflate_state *) gs_place(s_st, sizeof *st, G_START, 0); static struct isal_gzip_header gh;
		v_setcase(710000000l + which, "gzip header with a %s of %zu bytes read in 4096-byte pieces", which ? "comment" : "name", L);
		size_t given = 0; int rc = ISAL_END_INPUT, calls = 0;
		if (V_TRY(60)) { isal_inflate_init(st); isal_gzip_header_init(&gh); if (which) { gh.comment = got; gh.comment_buf_len = (uint32_t) (L + 4096); } else { gh.name = got; gh.name_buf_len = (uint32_t) (L + 4096); } st->avail_in = 0;
			while (rc == ISAL_END_INPUT && ++calls < 1000) { if (st->avail_in == 0) { if (given >= hl) break; size_t c = hl - given < 4096 ? hl - given : 4096; st->next_in = hdr + given; st->avail_in = (uint32_t) c; given += c; } rc = isal_read_gzip_header(st, &gh); }
			V_END; } else { fault_key("isal_read_gzip_header(long string)"); goto next; }
		st_reads += calls; v_count("long_string_headers", which ? "comment" : "name", 1);
		if (rc != ISAL_DECOMP_OK) { char key[100]; snprintf(key, sizeof key, "reader:rejects-valid-header:gzip:%d:long-%s", rc, which ? "comment" : "name"); v_viol(key, "returned %d for a header whose %s is %zu bytes long", rc, which ? "comment" : "name", L); }
		else if (strlen(got) != L || memcmp(got, big, L)) { size_t x = 0; while (x < L && got[x] == big[x]) x++; v_viol(which ? "reader:fields:long-comment" : "reader:fields:long-name", "string of %zu bytes comes back with length %zu, first difference at %zu", L, strlen(got), x); }
	next:	free(big); free(got); free(hdr); gs_reset(s_st);
	}
}
int main(int argc, char **argv)
{
	v_init(argc, argv);
	if (refcrc_selftest()) v_harness_fail("refcrc self-test failed");
	s_zs = gs_new("isal_zstream", sizeof(struct isal_zstream) + 8192); s_out = gs_new("next_out", 90000); s_st = gs_new("inflate_state", sizeof(struct inflate_state) + 8192); s_in = gs_new("next_in", 90000);
	s_extra = gs_new("extra", 70000); s_name = gs_new("name", 12000); s_comment = gs_new("comment", 12000); s_hdr = gs_new("gzip_header", 4096); for (int i = 0; i < 4; i++) s_ic[i] = gs_new("in_chunk", 70000);
	ref = malloc(100000); extra_src = malloc(70000); name_src = malloc(8192); comment_src = malloc(8192);
	long n = (long) ((vopt.thorough ? 4000000 : 60000) * vopt.scale);
	if (V_NDISPATCHED > 0) { cpusim_init(); const cpucfg *c0 = cpusim_find("avx512+g2"); if (c0 && cpusim_host_can(c0)) cpusim_apply(c0); }
	if (vopt.shard == 1 % vopt.nshards && vopt.only < 0 && !strcmp(vopt.prop, "C19")) long_string_case(); else if (vopt.only >= 710000000l && vopt.only < 720000000l) { long_string_case(); return v_finish(); }
	if (vopt.shard == 0 && vopt.only < 0 && !strcmp(vopt.prop, "C19")) huge_avail_in(); else if (vopt.only >= 700000000l && vopt.only < 710000000l) { huge_avail_in(); return v_finish(); }
	/* the header CRC16 is computed by whichever crc32_gzip_refl kernel the CPU level selects: the cases are spread over four levels */
	static const char *lvn[4] = { "avx512+g2", "avx", "sse", "base" };
	for (int l = 0; l < 4; l++) {
	if (V_NDISPATCHED > 0) { const cpucfg *c = cpusim_find(lvn[l]); if (!c || !cpusim_host_can(c)) continue; cpusim_apply(c); v_set("cpu_levels", lvn[l]); } else if (l) break;
	for (long idx = 0; idx < n; idx++) { if (!v_mine(idx) || (V_NDISPATCHED > 0 && (idx / 16) % 4 != l)) continue; vrng r; vr_seed(&r, vopt.seed, 80, idx);
		switch (idx % 8) { case 0: case 1: gzip_write_case(idx, &r); break; case 2: zlib_write_case(idx, &r); break; case 3: case 4: case 5: gzip_read_case(idx, &r); break; case 6: zlib_read_case(idx, &r); break; default: if ((idx / 8) % 3 == 0) inflate_hdr_case(idx, &r); else arbitrary_case(idx, &r); }
		if (v_nviol > v_viol_cap) break; }
	}
	/* systematic: every split point of a header that uses every optional field */
	for (int k = 0; k < (vopt.thorough ? 40 : 6); k++) { long idx = 900000000l + k; if (!v_mine(idx)) continue; /* covered through gzip_read_case mode 1 with explicit splits below */
		vrng r; vr_seed(&r, vopt.seed, 81, idx); (void) r; }
	v_stat("evaluations", st_writes + st_reads); v_stat("header_split_histories_through_isal_inflate", st_via_inflate); v_stat("set_dict_accepted_after_fdict_header", st_dict_after); v_stat("arbitrary_headers_accepted_and_cross_checked", st_verdict_ok); v_stat("arbitrary_headers_rejected_and_cross_checked", st_verdict_rej); v_stat("header_writes", st_writes); v_stat("too_small_output_cases", st_small); v_stat("reader_calls", st_reads); v_stat("overflow_resumes", st_resumes); v_stat("chunked_reads", st_splits); v_stat("arbitrary_inputs", st_arbitrary);
	for (int c = 0; c < 16; c++) if (st_ret[c]) { char e[16]; snprintf(e, sizeof e, "%d", c - 8); v_count("reader_status_codes", e, st_ret[c]); }
	return v_finish();
}
