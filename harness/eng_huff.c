/* eng_huff.c - C18: custom Huffman tables built from any histogram are valid and usable.
 * Monitors: creation succeeds; the stored dynamic header parses (independent parser) to complete prefix codes of
 * depth <= 15; the codes the encoder will emit for every literal, every length 3..258 and the distances of the window
 * decode (reference) to exactly that symbol; level-0 compression with the table round-trips (reference + zlib), one-shot
 * and streaming with flushes; tables may only be installed in ZSTATE_NEW_HDR. */
#include "v.h"
#include "refinflate.h"
#include "cpusim.h"
#include <zlib.h>
#include "igzip_lib.h"
#include "huffman.h"

#ifndef IGZIP_HIST_SIZE
#define IGZIP_HIST_SIZE ISAL_DEF_HIST_SIZE
#endif
#define X(s, n, isa) extern char ksym_##s[] __asm__(#s);
V_HISTO_LIST(X)
#undef X
typedef void (*fn_hist)(uint8_t *, int, struct isal_huff_histogram *);
static struct { const char *name; fn_hist fn; const char *isa; } collectors[] = {
#define X(s, n, isa) { #s, (fn_hist) ksym_##s, isa },
	V_HISTO_LIST(X)
#undef X
};
#define NCOLL ((int) (sizeof collectors / sizeof collectors[0]))
#include "visa.h"

static gslot *s_ht, *s_hg, *s_ctx, *s_in, *s_out;
static uint8_t *data, *tstream, *expect, *dec, *cout, *dec2;
static long st_tables, st_deep, st_subset, st_roundtrips, st_symbols, st_set_refused, st_set_accepted, st_fallback, st_fam[16], st_worst, st_worst_groups57, st_group_bits_max; static uint32_t rt_group_bits; static long rt_groups_over_56;

typedef struct { uint8_t *b; size_t bits; } bw_t;
static inline void wb(bw_t *w, uint64_t v, int n) { for (int i = 0; i < n; i++) { if ((v >> i) & 1) w->b[w->bits >> 3] |= (uint8_t) (1 << (w->bits & 7)); w->bits++; } }
static void fault_key(const char *what) { v_describe_fault(); char key[200]; snprintf(key, sizeof key, "fault:%s:%s:%s", v_fault_sym(), v_fault_slot(), v_fault.sig == SIGALRM ? "hang" : v_fault.sig == SIGABRT ? "abort" : "access"); v_viol(key, "%s: %s", what, v_fault_txt); }

/* unconstrained Huffman depth of a histogram (to know when length limiting was needed) */
static int huff_depth(const uint64_t *h, int n)
{
	static double w[600]; static int par[600], alive[600]; int m = 0;
	for (int i = 0; i < n; i++) if (h[i]) { w[m] = (double) h[i]; par[m] = -1; alive[m] = 1; m++; }
	if (m < 2) return m; int leaves = m;
	for (int k = 0; k < leaves - 1; k++) { int a = -1, b = -1; for (int i = 0; i < m; i++) if (alive[i]) { if (a < 0 || w[i] < w[a]) { b = a; a = i; } else if (b < 0 || w[i] < w[b]) b = i; } w[m] = w[a] + w[b]; par[m] = -1; alive[m] = 1; alive[a] = alive[b] = 0; par[a] = par[b] = m; m++; }
	int d = 0; for (int i = 0; i < leaves; i++) { int c = 0, p = i; while (par[p] >= 0) { p = par[p]; c++; } if (c > d) d = c; }
	return d;
}
static void gen_hist(vrng *r, struct isal_huff_histogram *hg, int fam, size_t *datalen)
{
	uint64_t *ll = hg->lit_len_histogram, *dd = hg->dist_histogram; memset(ll, 0, sizeof hg->lit_len_histogram); memset(dd, 0, sizeof hg->dist_histogram); *datalen = 0;
	switch (fam) {
	case 0: break;                                                                                  /* all zero */
	case 1: if (vrn(r, 2)) ll[vrn(r, 286)] = 1 + vrn(r, 1000); else dd[vrn(r, 30)] = 1 + vrn(r, 1000); break;  /* single symbol */
	case 2: ll[vrn(r, 286)] = 1 + vr32(r); ll[vrn(r, 286)] = 1 + vrn(r, 5); dd[vrn(r, 30)] = 1; dd[vrn(r, 30)] = 1 + vr32(r); break;
	case 3: for (int i = 0; i < 286; i++) ll[i] = 7; for (int i = 0; i < 30; i++) dd[i] = 7; break;       /* uniform */
	case 4: for (int i = 0; i < 286; i++) ll[i] = 1ull << vrn(r, 44); for (int i = 0; i < 30; i++) dd[i] = 1ull << vrn(r, 44); break;
	case 5: { uint64_t a = 1, b = 1 + vrn(r, 2); int st = vrn(r, 200); for (int i = 0; i < 60; i++) { ll[(st + i * 3) % 286] = a; uint64_t c = a + b; a = b; b = c; if (b >> 43) break; } a = 1; b = 2; for (int i = 0; i < 30; i++) { dd[(i * 7) % 30] = a; uint64_t c = a + b; a = b; b = c; } } break;  /* Fibonacci: depth > 15 */
	case 6: for (int i = 0; i < 286; i++) ll[i] = (1ull << 44) - 1 - vrn(r, 1000); for (int i = 0; i < 30; i++) dd[i] = (1ull << 44) - 1 - vrn(r, 3); break;
	case 7: { int k = 1 + vrn(r, 40); for (int i = 0; i < k; i++) ll[vrn(r, 286)] = 1 + (vr64(r) >> (20 + vrn(r, 43))); k = vrn(r, 8); for (int i = 0; i < k; i++) dd[vrn(r, 30)] = 1 + (vr64(r) >> (20 + vrn(r, 43))); } break;   /* sparse */
	case 8: { uint64_t v = 1; for (int i = 0; i < 286; i++) { ll[i] = v; if (i % 9 == 8 && v < (1ull << 42)) v *= 3; } for (int i = 0; i < 30; i++) dd[i] = 1ull << (i % 40); } break;        /* geometric */
	case 10: for (int i = 0; i < 286; i++) ll[i] = vrn(r, 3) == 0 ? (uint64_t) (1 + vrn(r, 16)) << 32 : vrn(r, 4) == 0 ? 0 : ((uint64_t) 1 << 31) + (vr64(r) >> 30); for (int i = 0; i < 30; i++) dd[i] = (uint64_t) (1 + vrn(r, 9)) << (28 + vrn(r, 8)); break;   /* counts that are multiples of 2^32, moderate skew */
	case 9: for (int i = 0; i < 286; i++) ll[i] = vr64(r) >> (20 + vrn(r, 44)); for (int i = 0; i < 30; i++) dd[i] = vr64(r) >> (20 + vrn(r, 44)); break;
	case 12: { /* deep chains: a Fibonacci chain of literals whose two rarest members are a literal and a length symbol (285 or another), every other length symbol moderately frequent,
	            and a distance chain whose rarest members are far distance symbols: long literal code + long length code + long far-distance code at once */
		uint64_t fib[48]; fib[0] = fib[1] = 1; for (int i = 2; i < 48; i++) fib[i] = fib[i - 1] + fib[i - 2];
		int nchain = 6 + vrn(r, 12), dchain = 8 + vrn(r, 10); uint64_t W = 1 + (vr64(r) >> (44 + vrn(r, 19)));
		int lsym = vrn(r, 3) ? 285 : 257 + (int) vrn(r, 29), lit0 = (int) vrn(r, 256);
		for (int i = 257; i <= 285; i++) ll[i] = vrn(r, 8) ? W : 1 + vrn(r, 3) * W; ll[256] = W;
		ll[lsym] = 1; ll[lit0] = 1; for (int i = 2; i < nchain; i++) ll[(lit0 + i * 37) % 256] = fib[i];
		if (vrn(r, 3) == 0) for (int i = 0; i < 256; i++) if (!ll[i] && vrn(r, 4) == 0) ll[i] = 1 + vrn(r, 2) * W;
		int far0 = vrn(r, 3) ? 29 : 17 + (int) vrn(r, 13); dd[far0] = 1; dd[far0 > 17 ? far0 - 1 : far0 + 1] = 1;
		{ int k = 2; for (int i = 29; i >= 0 && k < dchain; i--) if (!dd[i]) dd[i] = fib[k++]; for (int i = 0; i < 30; i++) if (!dd[i]) dd[i] = fib[dchain < 47 ? dchain : 46]; }
		} break;
	default: { /* collected from data by one of the collector variants */
		size_t n = vrn(r, 4) == 0 ? vrn(r, 300) : vrn(r, 60000); int kind = vrn(r, 4);
		if (kind == 0) vr_fill(r, data, n); else if (kind == 1) memset(data, 'z', n); else { static const char *w[] = { "lorem ", "ipsum ", "dolor ", "sit ", "amet ", "\n", "0123", "e" }; size_t o = 0; while (o < n) { const char *s = w[vrn(r, 8)]; for (; *s && o < n; s++) data[o++] = (uint8_t) *s; if (kind == 3 && vrn(r, 5) == 0 && o < n) data[o++] = (uint8_t) vr32(r); } }
		int c = vrn(r, NCOLL); while (!v_isa_ok(collectors[c].isa)) c = (c + 1) % NCOLL;
		memset(hg, 0, sizeof *hg);
		if (V_TRY(30)) { collectors[c].fn(data, (int) n, hg); V_END; } else { fault_key(collectors[c].name); memset(hg, 0, sizeof *hg); }
		v_count("histogram_collector_calls", collectors[c].name, 1);
		*datalen = n; } break;
	}
}
/* round trip of `n` bytes of `src` with the table at level 0 */
static int roundtrip(struct isal_hufftables *ht, const uint8_t *src, size_t n, vrng *r, const char *what)
{
	struct isal_zstream *s = (struct isal_zstream *) gs_place(s_ctx, sizeof *s, G_START, 0);
	int streaming = vrn(r, 2), wrapper = (int[]){ IGZIP_DEFLATE, IGZIP_GZIP, IGZIP_ZLIB }[vrn(r, 3)]; size_t outl = 0; char key[160];
	uint8_t *in = gs_place(s_in, n, G_END, 0); memcpy(in, src, n);
	size_t ocap = 2 * n + 2000; uint8_t *out = gs_place(s_out, ocap, G_END, 0);
	if (V_TRY(60)) {
		if (streaming) {
			isal_deflate_init(s); s->gzip_flag = wrapper; if (isal_deflate_set_hufftables(s, ht, IGZIP_HUFFTABLE_CUSTOM) != COMP_OK) { V_END; v_viol("set_hufftables-refused", "custom table refused on a fresh stream"); goto out; }
			size_t off = 0; s->next_out = out; s->avail_out = (uint32_t) ocap; int guard = 0;
			do { size_t c = off < n ? 1 + vrn(r, (uint32_t) (n - off)) : 0; s->next_in = in + off; s->avail_in = (uint32_t) c; off += c; s->end_of_stream = off == n; s->flush = (uint16_t) (vrn(r, 3) ? NO_FLUSH : vrn(r, 2) ? SYNC_FLUSH : FULL_FLUSH);
				int rc = isal_deflate(s); if (rc != COMP_OK) { V_END; snprintf(key, sizeof key, "deflate-error:%s", what); v_viol(key, "isal_deflate returned %d", rc); goto out; }
				if (s->avail_in) { V_END; v_viol("harness", "unexpected leftover input with ample output"); goto out; }
			} while (s->internal_state.state != ZSTATE_END && ++guard < 100000);
			outl = s->total_out;
		} else {
			isal_deflate_stateless_init(s); s->gzip_flag = wrapper; s->hufftables = ht; s->flush = (uint16_t) (vrn(r, 4) ? NO_FLUSH : FULL_FLUSH) /* with end_of_stream the stream is terminated either way */; s->end_of_stream = 1; s->next_in = in; s->avail_in = (uint32_t) n; s->next_out = out; s->avail_out = (uint32_t) ocap;
			int rc = isal_deflate_stateless(s); if (rc != COMP_OK) { V_END; snprintf(key, sizeof key, "deflate-error:%s", what); v_viol(key, "isal_deflate_stateless returned %d", rc); goto out; }
			outl = s->total_out;
		}
		V_END;
	} else { fault_key("compress with custom table"); goto out; }
	{
		static rinf_t ri; static rwrap_t rw; int wr = wrapper == IGZIP_DEFLATE ? RW_RAW : wrapper == IGZIP_GZIP ? RW_GZIP : RW_ZLIB;
		int e = rwrap_decode(&rw, &ri, wr, wr != RW_RAW, out, outl, dec, n + 1024, NULL, 0);
		if (e || ri.outlen != n || memcmp(dec, src, n) || rw.total_len != outl) { snprintf(key, sizeof key, "roundtrip-fails:%s:%s", what, e == RWE_BODY ? ri_errname(ri.err) : e ? "wrapper" : "bytes"); v_viol(key, "%s compress with the custom table: reference wrapper error %d deflate error %s, %zu of %zu bytes, stream %zu/%zu", streaming ? "streaming" : "one-shot", e, ri_errname(ri.err), ri.outlen, n, rw.total_len, outl); goto out; }
		z_stream z; memset(&z, 0, sizeof z); if (inflateInit2(&z, wr == RW_RAW ? -15 : wr == RW_GZIP ? 31 : 15) != Z_OK) v_harness_fail("zlib"); z.next_in = out; z.avail_in = (uInt) outl; z.next_out = dec2; z.avail_out = (uInt) (n + 1024); int zr = inflate(&z, Z_FINISH); size_t zo = z.total_out; inflateEnd(&z);
		if (zr != Z_STREAM_END || zo != n || memcmp(dec2, src, n)) { snprintf(key, sizeof key, "roundtrip-fails:%s:zlib", what); v_viol(key, "zlib rejects the stream compressed with the custom table (ret %d)", zr); goto out; }
		st_roundtrips++; rt_group_bits = ri.max_group_bits; rt_groups_over_56 = ri.groups_over_56;
	}
	gs_reset(s_ctx); gs_reset(s_in); gs_reset(s_out); return 0;
out:
	gs_reset(s_ctx); gs_reset(s_in); gs_reset(s_out); return 1;
}
/* the table may be installed only in ZSTATE_NEW_HDR */
static void install_rules(struct isal_hufftables *ht, vrng *r)
{
	struct isal_zstream *s = (struct isal_zstream *) gs_place(s_ctx, sizeof *s, G_START, 0); char key[160];
	size_t n = 200 + vrn(r, 4000); for (size_t i = 0; i < n; i++) data[i] = (uint8_t) ("abcdefgh \n"[vrn(r, 10)]);
	uint8_t *in = gs_place(s_in, n, G_END, 0); memcpy(in, data, n); uint8_t *out = gs_place(s_out, 70000, G_END, 0);
	if (V_TRY(30)) {
		isal_deflate_init(s); s->next_in = in; s->avail_in = (uint32_t) n; s->next_out = out; s->avail_out = vrn(r, 3) ? 1 + vrn(r, 200) : 8 + vrn(r, 16); s->flush = (uint16_t) vrn(r, 3); s->end_of_stream = vrn(r, 4) == 0; if (vrn(r, 5) == 0) { s->avail_in = (uint32_t) vrn(r, 40); s->avail_out = 1 + vrn(r, 12); }
		n = s->avail_in;   /* what the stream is given in total */
		int calls = 1 + vrn(r, 4); for (int c = 0; c < calls; c++) { isal_deflate(s); if (c + 1 < calls) s->avail_out += vrn(r, 40); }
		int st = s->internal_state.state; struct isal_hufftables *before = s->hufftables;
		int type = vrn(r, 6); int rc;
		if (type == 0) { rc = isal_deflate_set_hufftables(s, NULL, IGZIP_HUFFTABLE_CUSTOM); if (rc == COMP_OK) v_viol("set_hufftables:null-custom-accepted", "NULL custom table accepted (state %d)", st); else st_set_refused++; }
		else if (type == 1) { int bad = vrn(r, 2) ? 3 + (int) vrn(r, 100) : -1 - (int) vrn(r, 5); rc = isal_deflate_set_hufftables(s, ht, bad); if (rc == COMP_OK) v_viol("set_hufftables:bad-type-accepted", "type %d accepted", bad); else st_set_refused++; }
		else { int t = (int[]){ IGZIP_HUFFTABLE_CUSTOM, IGZIP_HUFFTABLE_DEFAULT, IGZIP_HUFFTABLE_STATIC }[vrn(r, 3)]; rc = isal_deflate_set_hufftables(s, ht, t);
			if (st != ZSTATE_NEW_HDR) { if (rc == COMP_OK) { snprintf(key, sizeof key, "set_hufftables:accepted-while-block-open:state%d", st); v_viol(key, "table type %d installed in state %d (a block is open)", t, st); } else { st_set_refused++; if (s->hufftables != before) v_viol("set_hufftables:refusal-has-side-effects", "refused but stream->hufftables changed"); } }
			else { if (rc != COMP_OK) v_viol("set_hufftables:refused-in-NEW_HDR", "refused with %d although no block is open", rc); else st_set_accepted++; } }
		{ char e[24]; snprintf(e, sizeof e, "state%d", st); v_count("set_hufftables_states_probed", e, 1); }
		/* whatever the call answered, the stream must still come out right: finish it and decode it (an accepted table has to take effect at a block boundary) */
		int guard = 0; s->end_of_stream = 1; s->flush = NO_FLUSH; s->avail_out = (uint32_t) (70000 - (s->next_out - out));
		while (s->internal_state.state != ZSTATE_END && ++guard < 10000) { if (isal_deflate(s) != COMP_OK) break; }
		size_t produced = (size_t) (s->next_out - out); int ended = s->internal_state.state == ZSTATE_END;
		V_END;
		if (ended) { static rinf_t ri; memset(&ri, 0, sizeof ri); ri.in = out; ri.inlen = produced; ri.out = dec; ri.outcap = n + 1024; int e = rinflate(&ri);
			if (e || ri.outlen != n || memcmp(dec, data, n)) { snprintf(key, sizeof key, "roundtrip-fails:after-set_hufftables:state%d:%s", st, rc == COMP_OK ? "accepted" : "refused"); v_viol(key, "stream does not decode to the input after isal_deflate_set_hufftables returned %d in state %d: err %s out %zu/%zu", rc, st, ri_errname(ri.err), ri.outlen, n); }
			else st_roundtrips++; }
	} else fault_key("isal_deflate_set_hufftables");
	gs_reset(s_ctx); gs_reset(s_in); gs_reset(s_out);
}
/* switch tables at completed flush points: stream must stay valid */
static void switch_at_flush(struct isal_hufftables *ht, vrng *r)
{
	struct isal_zstream *s = (struct isal_zstream *) gs_place(s_ctx, sizeof *s, G_START, 0);
	size_t n = 500 + vrn(r, 20000); for (size_t i = 0; i < n; i++) data[i] = (uint8_t) ("the quick brown fox \n"[vrn(r, 21)]);
	uint8_t *in = gs_place(s_in, n, G_END, 0); memcpy(in, data, n); size_t ocap = 2 * n + 4000; uint8_t *out = gs_place(s_out, ocap, G_END, 0); size_t outl = 0;
	if (V_TRY(60)) {
		isal_deflate_init(s); s->next_out = out; s->avail_out = (uint32_t) ocap; size_t off = 0; int part = 0;
		while (off < n) { size_t c = 1 + vrn(r, (uint32_t) (n - off)); s->next_in = in + off; s->avail_in = (uint32_t) c; off += c; s->end_of_stream = off == n; s->flush = off == n ? NO_FLUSH : (vrn(r, 2) ? SYNC_FLUSH : FULL_FLUSH);
			if (isal_deflate(s) != COMP_OK) { V_END; v_viol("deflate-error:switch", "isal_deflate failed"); goto out; }
			if (off < n) { if (s->internal_state.state != ZSTATE_NEW_HDR) { V_END; v_viol("harness", "flush with ample output did not return to NEW_HDR"); goto out; }
				int t = (part++ % 3); int rc = isal_deflate_set_hufftables(s, ht, t == 0 ? IGZIP_HUFFTABLE_CUSTOM : t == 1 ? IGZIP_HUFFTABLE_STATIC : IGZIP_HUFFTABLE_DEFAULT); if (rc != COMP_OK) { V_END; v_viol("set_hufftables:refused-in-NEW_HDR", "refused after a completed flush"); goto out; } } }
		outl = s->total_out; V_END;
	} else { fault_key("switch tables at flush"); goto out; }
	{ static rinf_t ri; memset(&ri, 0, sizeof ri); ri.in = out; ri.inlen = outl; ri.out = dec; ri.outcap = n + 1024; int rc = rinflate(&ri);
	  if (rc || ri.outlen != n || memcmp(dec, data, n)) v_viol("roundtrip-fails:table-switch-at-flush", "stream with table changes at flush points does not decode: err %s out %zu/%zu", ri_errname(ri.err), ri.outlen, n); else st_roundtrips++; }
out:
	gs_reset(s_ctx); gs_reset(s_in); gs_reset(s_out);
}

/* Data built for this table so that the encoder has to emit, back to back, the literal with the longest code, the length with the most
 * code+extra bits and a distance with the most code+extra bits, at varying bit phases and loop slots: the largest group a kernel may
 * hand to its bit buffer in one write.  lits[0..nl) are the byte values the table can encode. */
static int worst_group(struct isal_hufftables *ht, vrng *r, const int *lits, int nl, const char *what)
{
	if (nl < 3) return 0;
	uint64_t code, len; int X = lits[0], Z = lits[0]; uint64_t xb = 0, zb = 99;
	for (int i = 0; i < nl; i++) { get_lit_code(ht, lits[i], &code, &len); if (len > xb || (len == xb && vrn(r, 3) == 0)) { xb = len; X = lits[i]; } }
	for (int i = 0; i < nl; i++) { if (lits[i] == X) continue; get_lit_code(ht, lits[i], &code, &len); if (len < zb) { zb = len; Z = lits[i]; } }
	int L = 258; { get_len_code(ht, 258, &code, &len); uint64_t best = len; if (vrn(r, 4)) for (int l = 3; l < 258; l++) { get_len_code(ht, l, &code, &len); if (len > best || (len == best && vrn(r, 9) == 0)) { best = len; L = l; } } }
	uint32_t win = IGZIP_HIST_SIZE; int ds = -1; uint64_t db = 0;
	for (int s = 17; s < 30; s++) { if ((uint32_t) RI_DB[s] + 128 + 300 > win || RI_DB[s] < (uint32_t) L + 32) continue; get_dist_code(ht, RI_DB[s], &code, &len); if (len > db || (len == db && vrn(r, 2))) { db = len; ds = s; } }
	if (ds < 0) return 0;
	int K = (int) ((RI_DB[ds] - 16) / (uint32_t) L); if (K > 10) K = 10; if (K < 1) return 0;
	int others[256], no = 0; for (int i = 0; i < nl; i++) if (lits[i] != X && lits[i] != Z) others[no++] = lits[i];
	size_t n = 0; int p0 = vrn(r, 9); for (int i = 0; i < p0; i++) data[n++] = (uint8_t) others[vrn(r, no)];
	size_t b0 = n; for (int i = 0; i < K * L; i++) data[n++] = (uint8_t) others[vrn(r, no)];
	size_t F = RI_DB[ds] - (size_t) K * L + vrn(r, 4); for (size_t i = 0; i < F; i++) data[n++] = (uint8_t) Z;
	for (int k = 0; k < K; k++) { int pad = vrn(r, 3); for (int q = 0; q < pad; q++) data[n++] = (uint8_t) others[vrn(r, no)]; data[n++] = (uint8_t) X; memcpy(data + n, data + b0 + (size_t) k * L, L); n += L; data[n++] = (uint8_t) Z; data[n++] = (uint8_t) Z; }
	rt_group_bits = 0; rt_groups_over_56 = 0;
	int bad = roundtrip(ht, data, n, r, what);
	st_worst++; if (rt_groups_over_56) st_worst_groups57++; if ((long) rt_group_bits > st_group_bits_max) st_group_bits_max = rt_group_bits;
	return bad;
}

/* every histogram collector variant over run-heavy and ordinary data of every length 0..N, the input ending directly before (or starting directly
 * after) an inaccessible page: the match finder's look-ahead and its preloads after a long match must stay inside [in, in+len) */
static long st_hist_guard;
static void hist_guard_sweep(void)
{
	int maxlen = vopt.thorough ? 3000 : 1100;
	for (int c = 0; c < NCOLL; c++) { if (v_isa_ok(collectors[c].isa) != 1) continue;
		for (int kind = 0; kind < 7; kind++) for (int len = 0; len <= maxlen; len++) {
			long idx = 900000000L + ((long) c * 8 + kind) * 10000 + len; if (!v_mine(idx)) continue;
			if (kind >= 5 && len % 5 && !vopt.thorough) continue;
			vrng r; vr_seed(&r, vopt.seed, 71, idx);
			int place = (len & 1) && kind != 0 ? G_START : G_END; if (vrn(&r, 4) == 0) place = G_END;
			uint8_t *in = gs_place(s_in, (size_t) len, place, 0);
			switch (kind) { case 0: memset(in, 0, len); break; case 1: memset(in, 0xff, len); break;
				case 2: for (int i = 0; i < len; i++) in[i] = (uint8_t) "abc"[i % 3]; break;
				case 3: { int p = 1 + vrn(&r, 300); for (int i = 0; i < len; i++) in[i] = (uint8_t) (i < p ? vr32(&r) : in[i - p]); } break;     /* period p: one very long match */
				case 4: { int lit = vrn(&r, 40); for (int i = 0; i < len; i++) in[i] = i < lit ? (uint8_t) vr32(&r) : 0x55; } break;                  /* literals, then a run to the end */
				case 5: for (int i = 0; i < len; i++) in[i] = (uint8_t) "the quick brown fox jumps over the lazy dog\n"[vrn(&r, 44)]; break;
				default: vr_fill(&r, in, len); break; }
			struct isal_huff_histogram *hg = (struct isal_huff_histogram *) gs_place(s_hg, (sizeof *hg + 15) & ~15ul, vrn(&r, 2) ? G_END : G_START, 0); memset(hg, 0, sizeof *hg);
			v_setcase(idx, "%s(in, %d) data kind %d, input %s an inaccessible page", collectors[c].name, len, kind, place == G_END ? "ends directly before" : "starts directly after");
			if (V_TRY(30)) { collectors[c].fn(in, len, hg); V_END; } else { fault_key(collectors[c].name); gs_reset(s_in); gs_reset(s_hg); continue; }
			st_hist_guard++;
			{ long d = gs_check(s_hg, 4096); if (d != GS_OK) { v_viol("oob-write:histogram", "canary next to the histogram damaged at %+ld", d); gs_repaint_all(s_hg); } d = gs_check(s_in, 4096); if (d != GS_OK) { v_viol("oob-write:histogram-input", "canary next to the input damaged at %+ld", d); gs_repaint_all(s_in); } }
			uint64_t tot = 0; for (int i = 0; i < 256; i++) tot += hg->lit_len_histogram[i]; uint64_t ml = 0; for (int i = 257; i < 286; i++) ml += hg->lit_len_histogram[i];
			if (tot + 3 * ml > (uint64_t) len || (len && tot + 258 * ml < (uint64_t) len)) { char key[160]; snprintf(key, sizeof key, "histogram-does-not-cover-input:%s", collectors[c].name); v_viol(key, "%llu literals and %llu matches cannot account for %d bytes", (unsigned long long) tot, (unsigned long long) ml, len); }
			gs_reset(s_in); gs_reset(s_hg);
		}
		v_count("histogram_guard_calls", collectors[c].name, 1);
	}
	v_stat("histogram_collector_calls_at_page_ends", st_hist_guard);
}

static void table_case(long idx, vrng *r)
{
	struct isal_hufftables *ht = (struct isal_hufftables *) gs_place(s_ht, (sizeof *ht + 15) & ~15ul, vrn(r, 2) ? G_END : G_START, 0);
	struct isal_huff_histogram *hg = (struct isal_huff_histogram *) gs_place(s_hg, (sizeof *hg + 15) & ~15ul, vrn(r, 2) ? G_END : G_START, 0);
	int fam = vrn(r, 16), subset = vrn(r, 3) == 0; size_t datalen; char key[200];
	vr_fill(r, ht, sizeof *ht);
	gen_hist(r, hg, fam, &datalen); st_fam[fam <= 10 ? fam : fam == 12 ? 12 : 11]++;
	if (subset && fam >= 11 && vrn(r, 2)) hg->lit_len_histogram[256] = 0;          /* a hand-edited / merged histogram without an end-of-block count */
	static struct isal_huff_histogram keep; memcpy(&keep, hg, sizeof keep);
	int depth_ll = huff_depth(keep.lit_len_histogram, 286), depth_d = huff_depth(keep.dist_histogram, 30);
	v_setcase(idx, "histogram family %d %s builder, data %zu, unconstrained depth lit/len %d dist %d, hist[256]=%llu", fam, subset ? "subset" : "full", datalen, depth_ll, depth_d, (unsigned long long) keep.lit_len_histogram[256]);
	int rc;
	if (V_TRY(60)) { rc = subset ? isal_create_hufftables_subset(ht, hg) : isal_create_hufftables(ht, hg); V_END; } else { fault_key(subset ? "isal_create_hufftables_subset" : "isal_create_hufftables"); goto out; }
	st_tables++; if (subset) st_subset++; if (depth_ll > 15 || depth_d > 15) st_deep++;
	{ long d = gs_check(s_ht, 4096); if (d != GS_OK) { v_viol("oob-write:hufftables", "canary next to the hufftables damaged at %+ld", d); gs_repaint_all(s_ht); } d = gs_check(s_hg, 4096); if (d != GS_OK) { v_viol("oob-write:histogram", "canary next to the histogram damaged at %+ld", d); gs_repaint_all(s_hg); } }
	if (rc) { snprintf(key, sizeof key, "create-failed:%s", subset ? "subset" : "full"); v_viol(key, "returned %d", rc); goto out; }
	/* ---- parse the stored header with the independent parser */
	uint8_t lens[320]; int nlen, ndist;
	{
		static uint8_t hb[ISAL_DEF_MAX_HDR_SIZE + 16]; memset(hb, 0, sizeof hb);
		if (ht->deflate_hdr_count > ISAL_DEF_MAX_HDR_SIZE - 1 || ht->deflate_hdr_extra_bits > 7) { v_viol("header:size-fields", "deflate_hdr_count=%u extra_bits=%u", ht->deflate_hdr_count, ht->deflate_hdr_extra_bits); goto out; }
		memcpy(hb, ht->deflate_hdr, ht->deflate_hdr_count + 1);
		rinf_t ri; memset(&ri, 0, sizeof ri); ri.in = hb; ri.inlen = ht->deflate_hdr_count + 1; size_t hbits = 8 * (size_t) ht->deflate_hdr_count + ht->deflate_hdr_extra_bits;
		ri_bits(&ri, 1); int bt = (int) ri_bits(&ri, 2);
		if (bt != 2) { v_viol("header:not-dynamic", "BTYPE=%d", bt); goto out; }
		if (ri_dyn_header(&ri, lens, &nlen, &ndist)) { snprintf(key, sizeof key, "header:unparsable:%s", ri_errname(ri.err)); v_viol(key, "stored dynamic header rejected by the reference parser at bit %zu", ri.bitpos); goto out; }
		if (ri.bitpos != hbits) { v_viol("header:length-mismatch", "header parses to %zu bits but deflate_hdr_count/extra_bits say %zu", ri.bitpos, hbits); goto out; }
		rh_t t; int left = rh_build(&t, lens, nlen);
		if (left != 0) { snprintf(key, sizeof key, "litlen-code-%s:%s", left < 0 ? "oversubscribed" : "incomplete", subset ? "subset" : "full"); v_viol(key, "lit/len code lengths are not a complete prefix code (unused code space %d)", left); goto out; }
		left = rh_build(&t, lens + nlen, ndist); int nd = 0; for (int i = 0; i < ndist; i++) nd += lens[nlen + i] != 0;
		if (left < 0 || (left > 0 && !(nd == 1 && t.count[1] == 1))) { snprintf(key, sizeof key, "dist-code-%s", left < 0 ? "oversubscribed" : "incomplete"); v_viol(key, "distance code lengths are not a complete prefix code (%d codes, unused %d)", nd, left); goto out; }
	}
	if (subset) for (int i = 0; i < 256; i++) if (keep.lit_len_histogram[i] && !lens[i]) { v_viol("subset:counted-literal-without-code", "literal %d has count %llu but no code in the stored header", i, (unsigned long long) keep.lit_len_histogram[i]); goto out; }
	/* ---- every symbol the encoder can emit with this table, decoded by the reference */
	if (!subset) {
		bw_t w = { tstream, 0 }; memset(tstream, 0, 400000);
		for (unsigned i = 0; i < ht->deflate_hdr_count; i++) wb(&w, ht->deflate_hdr[i], 8); wb(&w, ht->deflate_hdr[ht->deflate_hdr_count], (int) ht->deflate_hdr_extra_bits);
		size_t el = 0; uint64_t code, len;
		for (int i = 0; i < 256; i++) { get_lit_code(ht, i, &code, &len); if (len == 0 || len > 15) { v_viol("lit_table:bad-length", "literal %d has code length %llu", i, (unsigned long long) len); goto out; } wb(&w, code, (int) len); expect[el++] = (uint8_t) i; }
		for (int L = 3; L <= 258; L++) { get_len_code(ht, L, &code, &len); wb(&w, code, (int) len); uint64_t dc, dl; get_dist_code(ht, 1 + (L % 2), &dc, &dl); wb(&w, dc, (int) dl); int dist = 1 + (L % 2); for (int k = 0; k < L; k++) { expect[el] = expect[el - dist]; el++; } }
		uint32_t win = IGZIP_HIST_SIZE; int all = vopt.thorough ? vrn(r, 4) == 0 : vrn(r, 24) == 0; uint32_t step = all ? 1 : 1 + vrn(r, 97);
		for (uint32_t d = 1; d <= win && el + 4 < 380000; d += (d < 600 || all ? 1 : step)) { if (d > el) break; get_len_code(ht, 3, &code, &len); wb(&w, code, (int) len); uint64_t dc, dl; get_dist_code(ht, d, &dc, &dl); if (dl == 0 || dl > 15 + 13) { v_viol("dist_table:bad-length", "distance %u has code+extra length %llu", d, (unsigned long long) dl); goto out; } wb(&w, dc, (int) dl); for (int k = 0; k < 3; k++) { expect[el] = expect[el - d]; el++; } st_symbols++; if (w.bits / 8 > 390000) break; }
		get_lit_code(ht, 256, &code, &len); wb(&w, code, (int) len);
		st_symbols += 256 + 256;
		rinf_t ri; memset(&ri, 0, sizeof ri); ri.in = tstream; ri.inlen = (w.bits + 7) / 8; ri.out = dec; ri.outcap = el + 64;
		int e = rinflate(&ri);
		if (e || ri.outlen != el || memcmp(dec, expect, el)) { size_t x = 0; while (x < el && x < ri.outlen && dec[x] == expect[x]) x++; snprintf(key, sizeof key, "packed-tables-disagree-with-header:%s", x < 256 ? "literal" : x < 33408 ? "length" : "distance"); v_viol(key, "codes from lit_table/len_table/dist_table/dcodes do not decode to their symbols under the stored header: reference err %s, first difference at output %zu of %zu", ri_errname(ri.err), x, el); goto out; }
	}
	/* ---- usable: compress with it */
	if (subset) { /* data restricted to literals that had non-zero counts (any data when there are none: then every symbol gets a code?) */
		int lits[256], nl = 0; for (int i = 0; i < 256; i++) if (keep.lit_len_histogram[i]) lits[nl++] = i;
		if (nl) { size_t n = 1 + vrn(r, 20000); for (size_t i = 0; i < n; i++) data[i] = (uint8_t) lits[vrn(r, nl)]; if (vrn(r, 2)) for (size_t i = 40; i + 40 < n; i += 97) memcpy(data + i, data + i - 33, 20); if (roundtrip(ht, data, n, r, "subset")) goto out;
			for (int rep = 0; rep < 2; rep++) if (worst_group(ht, r, lits, nl, "subset-worst-group")) goto out; }
	} else {
		if (datalen && roundtrip(ht, data, datalen, r, "own-data")) goto out;
		size_t n = vrn(r, 30000); int kind = vrn(r, 3); if (kind == 0) vr_fill(r, data, n); else for (size_t i = 0; i < n; i++) data[i] = (uint8_t) (kind == 1 ? "etaoin shrdlu\n"[vrn(r, 14)] : (i * 7) >> (i & 3));
		if (roundtrip(ht, data, n, r, "other-data")) goto out;
		{ int all[256]; for (int i = 0; i < 256; i++) all[i] = i; for (int rep = 0; rep < 3; rep++) if (worst_group(ht, r, all, 256, "worst-group")) goto out; }
		if (vrn(r, 10) == 0) { /* more than 65535 bytes the table cannot shrink (stored-block fallback with several stored blocks) */
		  size_t nb = 66000 + vrn(r, 70000); vr_fill(r, data, nb); if (roundtrip(ht, data, nb, r, "incompressible-over-64k")) goto out; }
		{ /* a long constant run first (one-shot compression has a shortcut for it that leaves the bit buffer unaligned in front of the stored table header), then other data */
		  size_t run = 4096 + vrn(r, 5000), m = vrn(r, 3000); memset(data, vrn(r, 2) ? 0 : 0xff, run); for (size_t i = 0; i < m; i++) data[run + i] = (uint8_t) (vrn(r, 3) ? "lorem ipsum dolor\n"[vrn(r, 18)] : vr32(r));
		  if (roundtrip(ht, data, run + m, r, "constant-run-first")) goto out; }
		if (vrn(r, 2)) install_rules(ht, r);
		if (vrn(r, 4) == 0) switch_at_flush(ht, r);
	}
	v_distinct(v_hash64(&keep, sizeof keep.lit_len_histogram + sizeof keep.dist_histogram, subset));
	if (v_nsamples < 3 && (depth_ll > 15 || fam == 0)) v_sample("%s -> header parses to complete codes (HLIT %d, HDIST %d), every emitted symbol decodes to itself, level-0 round trips pass", v_case, nlen, ndist);
out:
	gs_reset(s_ht); gs_reset(s_hg);
}
int main(int argc, char **argv)
{
	v_init(argc, argv);
	if (refcrc_selftest() || refadler_selftest()) v_harness_fail("reference checksum self-test failed");
	if (V_NDISPATCHED > 0) cpusim_init();
	s_ht = gs_new("hufftables", sizeof(struct isal_hufftables) + 8192); s_hg = gs_new("histogram", sizeof(struct isal_huff_histogram) + 8192); s_ctx = gs_new("isal_zstream", sizeof(struct isal_zstream) + 8192); s_in = gs_new("next_in", 160000); s_out = gs_new("next_out", 340000);
	data = malloc(160000); tstream = malloc(400000); expect = malloc(400000); dec = malloc(400000); cout = malloc(200000); dec2 = malloc(170000);
	long per = (long) ((vopt.thorough ? 12000 : 260) * vopt.scale);
	hist_guard_sweep();
	/* the level-0 encoder variants: base / 01 / 02 / 04 are chosen by the CPU level */
	static const char *lv[] = { "base", "sse", "avx", "avx2", "avx512+g2" }; int nl = V_NDISPATCHED > 0 ? 5 : 1;
	for (int l = 0; l < nl; l++) {
		if (V_NDISPATCHED > 0) { const cpucfg *c = cpusim_find(lv[l]); if (!c || !cpusim_host_can(c)) continue; cpusim_apply(c); v_set("cpu_levels", lv[l]); if (vopt.shard == 0) cpusim_report(lv[l]); }
		for (long q = 0; q < per * 16 / nl; q++) { long idx = (long) l * 10000000 + q; if (!v_mine(idx)) continue; vrng r; vr_seed(&r, vopt.seed, 70, idx); table_case(idx, &r); if (v_nviol > v_viol_cap) break; }
	}
	v_stat("evaluations", st_tables); v_stat("tables_needing_length_limiting", st_deep); v_stat("subset_tables", st_subset); v_stat("roundtrips", st_roundtrips); v_stat("symbols_decoded", st_symbols); v_stat("set_hufftables_refused", st_set_refused); v_stat("set_hufftables_accepted", st_set_accepted);
	for (int f = 0; f <= 12; f++) { char e[24]; snprintf(e, sizeof e, f != 11 ? "family%d" : "collected-from-data", f); v_count("histogram_families", e, st_fam[f]); }
	v_stat("worst_case_group_workloads", st_worst); v_stat("streams_with_a_literal_length_distance_group_over_56_bits", st_worst_groups57); { char e[24]; snprintf(e, sizeof e, "%ld", st_group_bits_max); v_count("largest_group_bits_by_engine_process", e, 1); }
	return v_finish();
}
