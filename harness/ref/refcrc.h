/* refcrc.h - independent CRC / Adler-32 reference.
 * CRC defined bit by bit from (width, poly, refin/refout, init, xorout) in the Rocksoft model; a byte table is
 * derived from the bitwise definition at start-up only for speed and is itself checked against the bitwise
 * routine and against the published check values of "123456789". */
#ifndef REFCRC_H
#define REFCRC_H
#include <stdint.h>
#include <string.h>
typedef struct {
	const char *name; int width; uint64_t poly; int refl; uint64_t init, xorout; uint64_t check;  /* catalogue parameters */
	uint64_t tab[256]; int ready;
} refcrc_t;
static inline uint64_t refcrc_mask(int w) { return w == 64 ? ~0ull : ((1ull << w) - 1); }
static uint64_t refcrc_reflect(uint64_t v, int w) { uint64_t r = 0; for (int i = 0; i < w; i++) if (v >> i & 1) r |= 1ull << (w - 1 - i); return r; }
/* raw register update, bit at a time.  Register orientation: reflected CRCs keep the register reflected. */
static uint64_t refcrc_bits(const refcrc_t *c, uint64_t reg, const uint8_t *p, size_t n)
{
	uint64_t m = refcrc_mask(c->width);
	if (c->refl) { uint64_t rp = refcrc_reflect(c->poly, c->width); for (size_t i = 0; i < n; i++) { reg ^= p[i]; for (int b = 0; b < 8; b++) reg = (reg & 1) ? (reg >> 1) ^ rp : reg >> 1; } return reg & m; }
	uint64_t top = 1ull << (c->width - 1);
	for (size_t i = 0; i < n; i++) { reg ^= (uint64_t) p[i] << (c->width - 8); for (int b = 0; b < 8; b++) reg = (reg & top) ? ((reg << 1) ^ c->poly) & m : (reg << 1) & m; }
	return reg & m;
}
static void refcrc_prepare(refcrc_t *c)
{
	for (int i = 0; i < 256; i++) { uint8_t b = (uint8_t) i; c->tab[i] = refcrc_bits(c, 0, &b, 1); }
	c->ready = 1;
}
static inline uint64_t refcrc_raw(const refcrc_t *c, uint64_t reg, const uint8_t *p, size_t n)
{
	uint64_t m = refcrc_mask(c->width);
	if (c->refl) { for (size_t i = 0; i < n; i++) reg = c->tab[(reg ^ p[i]) & 0xff] ^ (reg >> 8); return reg & m; }
	for (size_t i = 0; i < n; i++) reg = (c->tab[((reg >> (c->width - 8)) ^ p[i]) & 0xff] ^ (reg << 8)) & m;
	return reg;
}
/* full catalogue CRC of a message */
static uint64_t refcrc_full(const refcrc_t *c, const uint8_t *p, size_t n) { return (refcrc_raw(c, c->init, p, n) ^ c->xorout) & refcrc_mask(c->width); }

enum { RC_T10DIF, RC_IEEE, RC_GZIP, RC_ISCSI, RC_ECMA_REFL, RC_ECMA_NORM, RC_ISO_REFL, RC_ISO_NORM, RC_JONES_REFL, RC_JONES_NORM, RC_ROCKSOFT_REFL, RC_ROCKSOFT_NORM, RC_N };
static refcrc_t refcrc_cat[RC_N] = {
	[RC_T10DIF]       = { "CRC-16/T10-DIF", 16, 0x8bb7, 0, 0, 0, 0xd0db },
	[RC_IEEE]         = { "CRC-32/BZIP2 (normal 0x04C11DB7)", 32, 0x04c11db7, 0, 0xffffffff, 0xffffffff, 0xfc891918 },
	[RC_GZIP]         = { "CRC-32/ISO-HDLC (gzip)", 32, 0x04c11db7, 1, 0xffffffff, 0xffffffff, 0xcbf43926 },
	[RC_ISCSI]        = { "CRC-32/ISCSI (Castagnoli)", 32, 0x1edc6f41, 1, 0xffffffff, 0xffffffff, 0xe3069283 },
	[RC_ECMA_REFL]    = { "CRC-64/XZ", 64, 0x42f0e1eba9ea3693ull, 1, ~0ull, ~0ull, 0x995dc9bbdf1939faull },
	[RC_ECMA_NORM]    = { "CRC-64/WE", 64, 0x42f0e1eba9ea3693ull, 0, ~0ull, ~0ull, 0x62ec59e3f1a4f00aull },
	[RC_ISO_REFL]     = { "CRC-64/GO-ISO", 64, 0x1bull, 1, ~0ull, ~0ull, 0xb90956c775a41001ull },
	[RC_ISO_NORM]     = { "CRC-64 ISO normal (poly 0x1B, init/xorout ~0)", 64, 0x1bull, 0, ~0ull, ~0ull, 0 /* no catalogue entry: anchored via bitwise only */ },
	[RC_JONES_REFL]   = { "CRC-64/REDIS-style Jones reflected, init/xorout ~0", 64, 0xad93d23594c935a9ull, 1, ~0ull, ~0ull, 0 },
	[RC_JONES_NORM]   = { "CRC-64 Jones normal, init/xorout ~0", 64, 0xad93d23594c935a9ull, 0, ~0ull, ~0ull, 0 },
	[RC_ROCKSOFT_REFL] = { "CRC-64/NVME", 64, 0xad93d23594c93659ull, 1, ~0ull, ~0ull, 0xae8b14860a799888ull },
	[RC_ROCKSOFT_NORM] = { "CRC-64 Rocksoft normal, init/xorout ~0", 64, 0xad93d23594c93659ull, 0, ~0ull, ~0ull, 0 },
};
/* Published check value of CRC-64/REDIS (Jones poly, reflected, init 0, xorout 0) anchors the Jones polynomial itself. */
static int refcrc_selftest(void)
{
	static const uint8_t msg[] = "123456789";
	for (int i = 0; i < RC_N; i++) {
		refcrc_t *c = &refcrc_cat[i]; refcrc_prepare(c);
		if (c->check && refcrc_full(c, msg, 9) != c->check) return -(i + 1);
		/* table-driven == bit-by-bit on irregular data and non-symmetric registers */
		uint8_t buf[67]; for (int k = 0; k < 67; k++) buf[k] = (uint8_t) (k * 37 + i * 11 + 3);
		uint64_t r0 = 0x0123456789abcdefull & refcrc_mask(c->width);
		if (refcrc_raw(c, r0, buf, 67) != refcrc_bits(c, r0, buf, 67)) return -(100 + i);
	}
	{ refcrc_t redis = { "CRC-64/REDIS", 64, 0xad93d23594c935a9ull, 1, 0, 0, 0xe9c6d914c4b8d9caull }; refcrc_prepare(&redis); if (refcrc_full(&redis, msg, 9) != redis.check) return -200; }
	return 0;
}
/* Adler-32 straight from RFC 1950 (mod after every byte) */
static uint32_t refadler(uint32_t adler, const uint8_t *p, size_t n)
{
	uint32_t a = adler & 0xffff, b = adler >> 16;
	for (size_t i = 0; i < n; i++) { a += p[i]; if (a >= 65521) a -= 65521; b += a; if (b >= 65521) b -= 65521; }
	return b << 16 | a;
}
static int refadler_selftest(void) { return refadler(1, (const uint8_t *) "123456789", 9) == 0x091e01de ? 0 : -1; }
#endif
