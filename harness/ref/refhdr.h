/* refhdr.h - gzip (RFC 1952) and zlib (RFC 1950) header writers written from the RFC text; the matching
 * parser is rwrap_header() in refinflate.h.  Independent of the library's igzip_wrapper.h. */
#ifndef REFHDR_H
#define REFHDR_H
#include <stdint.h>
#include <string.h>
#include "refcrc.h"
typedef struct {
	int text, hcrc; uint32_t mtime; uint8_t xfl, os;
	int has_extra; const uint8_t *extra; uint32_t extra_len;
	const char *name, *comment;   /* NUL terminated or NULL */
} refgz_t;
/* returns header length */
static size_t refhdr_gzip(uint8_t *o, const refgz_t *h)
{
	size_t p = 0; uint8_t flg = (uint8_t) ((h->text ? 1 : 0) | (h->hcrc ? 2 : 0) | (h->has_extra ? 4 : 0) | (h->name ? 8 : 0) | (h->comment ? 16 : 0));
	o[p++] = 0x1f; o[p++] = 0x8b; o[p++] = 8; o[p++] = flg;
	o[p++] = (uint8_t) h->mtime; o[p++] = (uint8_t) (h->mtime >> 8); o[p++] = (uint8_t) (h->mtime >> 16); o[p++] = (uint8_t) (h->mtime >> 24);
	o[p++] = h->xfl; o[p++] = h->os;
	if (h->has_extra) { o[p++] = (uint8_t) h->extra_len; o[p++] = (uint8_t) (h->extra_len >> 8); memcpy(o + p, h->extra, h->extra_len); p += h->extra_len; }
	if (h->name) { size_t l = strlen(h->name) + 1; memcpy(o + p, h->name, l); p += l; }
	if (h->comment) { size_t l = strlen(h->comment) + 1; memcpy(o + p, h->comment, l); p += l; }
	if (h->hcrc) { uint32_t c = (uint32_t) refcrc_full(&refcrc_cat[RC_GZIP], o, p); o[p++] = (uint8_t) c; o[p++] = (uint8_t) (c >> 8); }
	return p;
}
/* zlib: CINFO (0..7), FLEVEL (0..3), optional DICTID, FCHECK so that (CMF*256+FLG) % 31 == 0; DICTID most significant byte first */
static size_t refhdr_zlib(uint8_t *o, int cinfo, int flevel, int fdict, uint32_t dictid)
{
	uint8_t cmf = (uint8_t) (8 | cinfo << 4), flg = (uint8_t) (flevel << 6 | (fdict ? 32 : 0));
	flg = (uint8_t) (flg + (31 - ((cmf << 8) | flg) % 31) % 31);
	o[0] = cmf; o[1] = flg; if (!fdict) return 2;
	o[2] = (uint8_t) (dictid >> 24); o[3] = (uint8_t) (dictid >> 16); o[4] = (uint8_t) (dictid >> 8); o[5] = (uint8_t) dictid; return 6;
}
static size_t reftrl_gzip(uint8_t *o, const uint8_t *data, size_t n)
{
	uint32_t c = (uint32_t) refcrc_full(&refcrc_cat[RC_GZIP], data, n), l = (uint32_t) n;
	for (int i = 0; i < 4; i++) { o[i] = (uint8_t) (c >> (8 * i)); o[4 + i] = (uint8_t) (l >> (8 * i)); } return 8;
}
static size_t reftrl_zlib(uint8_t *o, const uint8_t *data, size_t n) { uint32_t a = refadler(1, data, n); o[0] = (uint8_t) (a >> 24); o[1] = (uint8_t) (a >> 16); o[2] = (uint8_t) (a >> 8); o[3] = (uint8_t) a; return 4; }
#endif
