/* refgf.h - independent GF(2^8) arithmetic, polynomial x^8+x^4+x^3+x^2+1 (0x11D).
 * Shares no code or table with the library: products by shift-and-xor, inverse by search. */
#ifndef REFGF_H
#define REFGF_H
#include <stdint.h>
#include <string.h>
static uint8_t refgf_tab[256][256];
static uint8_t refgf_invtab[256];
static inline uint8_t refgf_mul_slow(uint8_t a, uint8_t b)
{
	unsigned r = 0, x = a;
	for (int i = 0; i < 8; i++) { if (b & (1u << i)) r ^= x; x <<= 1; if (x & 0x100) x ^= 0x11d; }
	return (uint8_t) r;
}
static int refgf_ready;
/* returns 0 when the field axioms hold for the reference itself (oracle self-test) */
static int refgf_init(void)
{
	if (refgf_ready) return 0;
	for (int a = 0; a < 256; a++) for (int b = 0; b < 256; b++) refgf_tab[a][b] = refgf_mul_slow((uint8_t) a, (uint8_t) b);
	for (int a = 1; a < 256; a++) { int n = 0; for (int b = 1; b < 256; b++) if (refgf_tab[a][b] == 1) { refgf_invtab[a] = (uint8_t) b; n++; } if (n != 1) return -1; }
	/* axioms: commutative, identity, zero, distributive on a sample, associativity on a sample; generator 2 has order 255 */
	for (int a = 0; a < 256; a++) { if (refgf_tab[a][1] != a || refgf_tab[a][0] != 0) return -2; for (int b = 0; b < 256; b++) if (refgf_tab[a][b] != refgf_tab[b][a]) return -3; }
	for (int a = 0; a < 256; a += 7) for (int b = 0; b < 256; b += 5) for (int c = 0; c < 256; c += 3) {
		if (refgf_tab[a][b ^ c] != (refgf_tab[a][b] ^ refgf_tab[a][c])) return -4;
		if (refgf_tab[refgf_tab[a][b]][c] != refgf_tab[a][refgf_tab[b][c]]) return -5;
	}
	unsigned x = 1, ord = 0; do { x = refgf_tab[x][2]; ord++; } while (x != 1 && ord < 300); if (ord != 255) return -6;
	if (refgf_tab[0x80][2] != 0x1d) return -7;   /* x^7 * x = x^8 = x^4+x^3+x^2+1 */
	refgf_ready = 1; return 0;
}
static inline uint8_t refgf_mul(uint8_t a, uint8_t b) { return refgf_tab[a][b]; }
static inline uint8_t refgf_inv(uint8_t a) { return refgf_invtab[a]; }
static inline uint8_t refgf_pow(uint8_t a, unsigned e) { uint8_t r = 1; while (e--) r = refgf_tab[r][a]; return r; }
/* determinant by Gaussian elimination on a copy (field, so no fractions needed) */
static uint8_t refgf_det(const uint8_t *m, int n)
{
	static uint8_t w[256 * 256]; memcpy(w, m, (size_t) n * n); uint8_t det = 1;
	for (int c = 0; c < n; c++) {
		int p = -1; for (int r = c; r < n; r++) if (w[r * n + c]) { p = r; break; }
		if (p < 0) return 0;
		if (p != c) for (int j = 0; j < n; j++) { uint8_t t = w[c * n + j]; w[c * n + j] = w[p * n + j]; w[p * n + j] = t; }  /* char 2: sign irrelevant */
		det = refgf_mul(det, w[c * n + c]); uint8_t iv = refgf_inv(w[c * n + c]);
		for (int r = c + 1; r < n; r++) if (w[r * n + c]) { uint8_t f = refgf_mul(w[r * n + c], iv); for (int j = c; j < n; j++) w[r * n + j] ^= refgf_mul(f, w[c * n + j]); }
	}
	return det;
}
/* c = a(n x m) * b(m x p) */
static void refgf_matmul(const uint8_t *a, const uint8_t *b, uint8_t *c, int n, int m, int p)
{
	for (int i = 0; i < n; i++) for (int j = 0; j < p; j++) { uint8_t s = 0; for (int k = 0; k < m; k++) s ^= refgf_mul(a[i * m + k], b[k * p + j]); c[i * p + j] = s; }
}
#endif
