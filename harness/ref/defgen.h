/* defgen.h - generator of deflate streams straight from the RFC 1951 grammar.
 * Emits the bit stream and, independently of any decoder, the bytes it must decode to (known from the token list).
 * Optional single grammar-level fault injection with >= 64 valid bytes following it. */
#ifndef DEFGEN_H
#define DEFGEN_H
#include <stdint.h>
#include <string.h>
#include "v.h"

enum { DGF_NONE = 0, DGF_BTYPE3, DGF_LENNLEN, DGF_HLIT, DGF_HDIST, DGF_CL_OVERSUB, DGF_LL_OVERSUB, DGF_DIST_OVERSUB, DGF_REP_NOPREV, DGF_REP_OVERRUN, DGF_NO_EOB,
       DGF_BAD_LENSYM, DGF_BAD_DISTSYM, DGF_UNASSIGNED, DGF_FARDIST, DGF_NODIST_MATCH, DGF_UNASSIGNED_DIST, DGF_NFAULTS };
static const char *dgf_name[] = { "none", "btype3", "len-nlen", "hlit>29", "hdist>29", "codelen-code-oversubscribed", "litlen-oversubscribed", "dist-oversubscribed", "repeat-no-previous", "repeat-overrun", "no-eob-code",
				  "litlen-286/287", "dist-30/31", "unassigned-code", "distance-too-far", "length-symbol-without-distance-codes", "unassigned-distance-code" };
typedef struct {
	/* knobs */
	size_t max_out;       /* cap on expected output */
	int max_blocks;
	int fault;            /* DGF_* to inject into one block (the first eligible), 0 for a valid stream */
	int want_deep;        /* force code depth >= 13 in dynamic blocks */
	int want_far;         /* prefer long distances */
	/* optional "foreign header" block family: a dynamic block whose header bits (from bit 1, i.e. after BFINAL) are copied verbatim from
	 * pre_hdr, and whose tokens use the codes that header defines (pre_l = the nlen + ndist code lengths an independent parser read from
	 * it).  Only placed where the block starts on a byte boundary (first block, or right after a stored block). */
	const uint8_t *pre_hdr; size_t pre_hdr_bits; const uint8_t *pre_l; int pre_nlen, pre_ndist; int npre;
	/* results */
	uint8_t *buf; size_t cap, bits;     /* stream */
	uint8_t *exp; size_t explen;        /* expected output */
	int fault_done; size_t fault_bit;   /* where the fault was placed */
	size_t valid_out_before_fault;
	int nblocks, nstored, nfixed, ndyn, deep, single_dist, no_dist, rep16_after_zero_run, maxdist; long ntok;
} defgen_t;
static inline void dg_pb(defgen_t *g, uint32_t v, int n) { for (int i = 0; i < n; i++) { if (g->bits / 8 >= g->cap) return; if ((v >> i) & 1) g->buf[g->bits >> 3] |= (uint8_t) (1 << (g->bits & 7)); g->bits++; } }
static inline void dg_pcode(defgen_t *g, uint32_t code, int len) { for (int i = len - 1; i >= 0; i--) { if (g->bits / 8 >= g->cap) return; if ((code >> i) & 1) g->buf[g->bits >> 3] |= (uint8_t) (1 << (g->bits & 7)); g->bits++; } }
/* random complete prefix code: lengths for nsym used symbols, depth <= maxd; shape 0 random, 1 chain (deep/skewed), 2 balanced */
static void dg_lengths(vrng *r, uint8_t *len, int nsym, int maxd, int shape)
{
	if (nsym == 1) { len[0] = 1; return; }
	uint8_t d[320]; int n = 2; d[0] = d[1] = 1;
	while (n < nsym) {
		int pick = -1;
		if (shape == 1) { int best = -1; for (int i = 0; i < n; i++) if (d[i] < maxd && d[i] > best) { best = d[i]; pick = i; } }
		else if (shape == 2) { int best = 99; for (int i = 0; i < n; i++) if (d[i] < best) { best = d[i]; pick = i; } if (best >= maxd) pick = -1; }
		else { for (int t = 0; t < 50 && pick < 0; t++) { int i = vrn(r, n); if (d[i] < maxd) pick = i; } if (pick < 0) for (int i = 0; i < n; i++) if (d[i] < maxd) { pick = i; break; } }
		if (pick < 0) break;
		d[pick]++; d[n] = d[pick]; n++;
	}
	for (int i = n - 1; i > 0; i--) { int j = vrn(r, i + 1); uint8_t t = d[i]; d[i] = d[j]; d[j] = t; }
	for (int i = 0; i < nsym; i++) len[i] = d[i];
}
static void dg_canon(const uint8_t *len, int n, uint16_t *code)
{
	int bl[17] = { 0 }, next[17]; for (int i = 0; i < n; i++) bl[len[i]]++; bl[0] = 0;
	int c = 0; for (int b = 1; b < 16; b++) { c = (c + bl[b - 1]) << 1; next[b] = c; }
	for (int i = 0; i < n; i++) if (len[i]) code[i] = (uint16_t) next[len[i]]++;
}
static const uint16_t DG_LB[29] = {3,4,5,6,7,8,9,10,11,13,15,17,19,23,27,31,35,43,51,59,67,83,99,115,131,163,195,227,258}, DG_LX[29] = {0,0,0,0,0,0,0,0,1,1,1,1,2,2,2,2,3,3,3,3,4,4,4,4,5,5,5,5,0};
static const uint16_t DG_DB[30] = {1,2,3,4,5,7,9,13,17,25,33,49,65,97,129,193,257,385,513,769,1025,1537,2049,3073,4097,6145,8193,12289,16385,24577}, DG_DX[30] = {0,0,0,0,1,1,2,2,3,3,4,4,5,5,6,6,7,7,8,8,9,9,10,10,11,11,12,12,13,13};
/* emit ntok tokens with the given codes; ll/dl = 0 means "symbol has no code" */
static void dg_tokens(defgen_t *g, vrng *r, const uint8_t *ll, const uint16_t *lc, const uint8_t *dl, const uint16_t *dc, int ntok)
{
	int lits[256], nl = 0, lens[29], nle = 0, dists[30], nd = 0;
	for (int i = 0; i < 256; i++) if (ll[i]) lits[nl++] = i;
	for (int i = 0; i < 29; i++) if (ll[257 + i]) lens[nle++] = i;
	for (int i = 0; i < 30; i++) if (dl[i]) dists[nd++] = i;
	int litrun = 0;
	for (int t = 0; t < ntok; t++) {
		if (g->bits / 8 + 16 >= g->cap) return;
		int do_match = nle && nd && g->explen > 0 && !litrun && vrn(r, 3) == 0;
		if (!litrun && vrn(r, 40) == 0) litrun = vrr(r, 4, 300);   /* long literal runs exercise multi-symbol packing */
		if (do_match) {
			int ls = lens[vrn(r, nle)], ds = -1;
			for (int k = 0; k < 20; k++) { int c = g->want_far && k < 10 ? dists[nd - 1 - vrn(r, nd < 4 ? nd : 4)] : dists[vrn(r, nd)]; if (DG_DB[c] <= g->explen) { ds = c; break; } }
			if (ds >= 0) {
				uint32_t lx = DG_LX[ls] ? vr32(r) & ((1u << DG_LX[ls]) - 1) : 0, dx = DG_DX[ds] ? vr32(r) & ((1u << DG_DX[ds]) - 1) : 0;
				if (vrn(r, 4) == 0) dx = (1u << DG_DX[ds]) - 1;    /* top of the range: e.g. distance 32768 */
				uint32_t dist = DG_DB[ds] + dx; if (dist > g->explen) { dx = (uint32_t) (g->explen - DG_DB[ds]); dist = DG_DB[ds] + dx; }
				uint32_t len = DG_LB[ls] + lx;
				if (g->explen + len > g->max_out) return;
				dg_pcode(g, lc[257 + ls], ll[257 + ls]); dg_pb(g, lx, DG_LX[ls]); dg_pcode(g, dc[ds], dl[ds]); dg_pb(g, dx, DG_DX[ds]);
				for (uint32_t i = 0; i < len; i++) { g->exp[g->explen] = g->exp[g->explen - dist]; g->explen++; }
				if ((int) dist > g->maxdist) g->maxdist = (int) dist;
				g->ntok++; continue;
			}
		}
		if (!nl) continue;
		int s = lits[vrn(r, nl)]; if (g->explen + 1 > g->max_out) return;
		dg_pcode(g, lc[s], ll[s]); g->exp[g->explen++] = (uint8_t) s; g->ntok++; if (litrun) litrun--;
	}
}
static void dg_fixed_tables(uint8_t *ll, uint16_t *lc, uint8_t *dl, uint16_t *dc)
{
	int i; for (i = 0; i < 144; i++) ll[i] = 8;
	for (; i < 256; i++) ll[i] = 9;
	for (; i < 280; i++) ll[i] = 7;
	for (; i < 288; i++) ll[i] = 8;
	for (i = 0; i < 32; i++) dl[i] = 5;
	dg_canon(ll, 288, lc); dg_canon(dl, 32, dc);
}
/* after a fault: a run of valid, simple data so that "needs more input" is not a legitimate answer */
static void dg_padding_block(defgen_t *g, vrng *r, int last)
{
	uint8_t ll[288], dl[32]; uint16_t lc[288], dc[32]; dg_fixed_tables(ll, lc, dl, dc);
	dg_pb(g, last, 1); dg_pb(g, 1, 2);
	for (int i = 0; i < 96; i++) { int s = 'a' + vrn(r, 26); if (!g->fault_done) { if (g->explen >= g->max_out) break; g->exp[g->explen++] = (uint8_t) s; } dg_pcode(g, lc[s], ll[s]); }
	dg_pcode(g, lc[256], ll[256]);
}
/* dynamic block; returns 0 */
static void dg_dynamic(defgen_t *g, vrng *r, int last, int fault)
{
	uint8_t ll[288] = { 0 }, dl[32] = { 0 }; uint16_t lc[288] = { 0 }, dc[32] = { 0 };
	int used[288], nu = 0; char mark[288] = { 0 };
	used[nu++] = 256; mark[256] = 1;
	int nlit = vrn(r, 4) == 0 ? 1 + (int) vrn(r, 3) : 1 + (int) vrn(r, 256); if (vrn(r, 20) == 0) nlit = 0;
	for (int i = 0; i < nlit; i++) { int s = vrn(r, 256); if (!mark[s]) { mark[s] = 1; used[nu++] = s; } }
	int nlen = vrn(r, 30); for (int i = 0; i < nlen; i++) { int s = 257 + vrn(r, 29); if (!mark[s]) { mark[s] = 1; used[nu++] = s; } }
	if (fault == DGF_LL_OVERSUB || fault == DGF_UNASSIGNED || fault == DGF_FARDIST) while (nu < 6) { int s = vrn(r, 200); if (!mark[s]) { mark[s] = 1; used[nu++] = s; } }
	if (fault == DGF_UNASSIGNED_DIST) while (nu < 6) { int s = vrn(r, 200); if (!mark[s]) { mark[s] = 1; used[nu++] = s; } }
	if ((fault == DGF_FARDIST || fault == DGF_UNASSIGNED_DIST) && !mark[257]) { mark[257] = 1; used[nu++] = 257; nlen = 1; }
	if (fault == DGF_NODIST_MATCH) { while (nu < 4) { int s = vrn(r, 200); if (!mark[s]) { mark[s] = 1; used[nu++] = s; } } if (!mark[260]) { mark[260] = 1; used[nu++] = 260; } }
	int haslen = 0; for (int i = 0; i < nu; i++) if (used[i] > 256) haslen = 1;
	int shape = vrn(r, 3), maxd = (g->want_deep || vrn(r, 3) == 0) ? 15 : 7 + (int) vrn(r, 9); while ((1 << maxd) < nu) maxd++;
	if (g->want_deep && nu >= 14) shape = 1;
	uint8_t tl[288]; dg_lengths(r, tl, nu, maxd, shape);
	for (int i = 0; i < nu; i++) ll[used[i]] = tl[i];
	for (int i = 0; i < nu; i++) if (tl[i] >= 13) { g->deep++; break; }
	int ndu = 0, dused[30]; int nd = !haslen ? (int) vrn(r, 2) : 1 + (int) vrn(r, 30); if (vrn(r, 10) == 0) nd = haslen ? 1 : 0;
	if (fault == DGF_DIST_OVERSUB && nd < 3) nd = 5;
	if (fault == DGF_FARDIST) nd = 30;
	if (fault == DGF_UNASSIGNED_DIST) nd = 30;   /* many distance codes, deep: codes longer than a decoder's first-level lookup */
	if (fault == DGF_NODIST_MATCH) nd = 0;
	char dm[30] = { 0 }; for (int i = 0; i < nd; i++) { int s = fault == DGF_FARDIST ? i : (g->want_far && i < 4 ? 29 - i : (int) vrn(r, 30)); if (!dm[s]) { dm[s] = 1; dused[ndu++] = s; } }
	if (ndu == 1) g->single_dist++;
	if (ndu == 0) g->no_dist++;
	if (ndu == 1) dl[dused[0]] = 1;
	else if (ndu > 1) { uint8_t td[30]; int md = 5 + (int) vrn(r, 11); while ((1 << md) < ndu) md++; if (fault == DGF_UNASSIGNED_DIST) md = 12 + (int) vrn(r, 4); dg_lengths(r, td, ndu, md, fault == DGF_UNASSIGNED_DIST ? 1 : vrn(r, 3)); for (int i = 0; i < ndu; i++) dl[dused[i]] = td[i]; }
	/* --- faults on the code sets (the token codes below are still computed from the unbroken sets where possible) */
	uint8_t ll_hdr[288], dl_hdr[32]; memcpy(ll_hdr, ll, 288); memcpy(dl_hdr, dl, 32);
	int unassigned_sym = -1;
	if (fault == DGF_LL_OVERSUB) { int longest = 0; for (int i = 0; i < 286; i++) if (ll_hdr[i] > ll_hdr[longest]) longest = i; if (ll_hdr[longest] > 1) ll_hdr[longest]--; else fault = 0; }
	if (fault == DGF_DIST_OVERSUB) { int longest = 0; for (int i = 0; i < 30; i++) if (dl_hdr[i] > dl_hdr[longest]) longest = i; if (ndu > 1 && dl_hdr[longest] > 1) dl_hdr[longest]--; else fault = 0; }
	if (fault == DGF_NO_EOB) ll_hdr[256] = 0;
	if (fault == DGF_UNASSIGNED) { /* drop a literal (not EOB) from the header: the set becomes incomplete and its code unassigned; then use it */
		for (int i = 0; i < nu; i++) if (used[i] < 256) { unassigned_sym = used[i]; break; }
		if (unassigned_sym >= 0) { /* canonical codes shift when a length disappears: compute codes from the header set, and emit the dropped symbol's OLD slot = the last code of its length in the new set + 1 */
			ll_hdr[unassigned_sym] = 0; } else fault = 0; }
	if (fault == DGF_UNASSIGNED_DIST) { /* drop one of the longest distance codes from the header: the distance set becomes incomplete, the last code of that length unassigned */
		int longest = -1; for (int i = 0; i < 30; i++) if (dl_hdr[i] && (longest < 0 || dl_hdr[i] > dl_hdr[longest] || (dl_hdr[i] == dl_hdr[longest] && vrn(r, 2)))) longest = i;
		if (ndu > 2 && longest >= 0) dl_hdr[longest] = 0; else fault = 0; }
	dg_canon(ll_hdr, 288, lc); dg_canon(dl_hdr, 32, dc);
	/* --- header */
	int hlit = 286; while (hlit > 257 && ll_hdr[hlit - 1] == 0) hlit--; if (vrn(r, 3) == 0) hlit += vrn(r, 286 - hlit + 1);
	int hdist = 30; while (hdist > 1 && dl_hdr[hdist - 1] == 0) hdist--; if (vrn(r, 3) == 0) hdist += vrn(r, 30 - hdist + 1);
	uint8_t seq[330]; int ns = 0; for (int i = 0; i < hlit; i++) seq[ns++] = ll_hdr[i]; for (int i = 0; i < hdist; i++) seq[ns++] = dl_hdr[i];
	/* run-length encode the sequence with random use of 16/17/18 (runs may cross the lit/dist boundary, 16 may repeat a zero) */
	uint8_t cs[400], cx[400]; int nc = 0, clfreq[19] = { 0 };
	for (int i = 0; i < ns;) {
		int v = seq[i], run = 1; while (i + run < ns && seq[i + run] == v) run++;
		int style = vrn(r, 4);
		if (v == 0 && run >= 3 && style) { int take = run > 138 ? 138 : run; if (vrn(r, 3) == 0 && take > 3) take = 3 + vrn(r, take - 2); if (take >= 11) { cs[nc] = 18; cx[nc++] = (uint8_t) (take - 11); } else { cs[nc] = 17; cx[nc++] = (uint8_t) (take - 3); } i += take;
			/* legal but unusual: continue the zero run with code 16 ("repeat previous" = 0) */
			if (i < ns && seq[i] == 0 && ns - i >= 3 && vrn(r, 3) == 0) { int m = 0; while (i + m < ns && seq[i + m] == 0 && m < 6) m++; if (m >= 3) { cs[nc] = 16; cx[nc++] = (uint8_t) (m - 3); i += m; g->rep16_after_zero_run++; } }
			continue; }
		if (v != 0 && run >= 4 && style) { cs[nc] = (uint8_t) v; cx[nc++] = 0; i++; run--; int take = run > 6 ? 6 : run; if (take >= 3) { cs[nc] = 16; cx[nc++] = (uint8_t) (take - 3); i += take; } continue; }
		cs[nc] = (uint8_t) v; cx[nc++] = 0; i++;
	}
	if (fault == DGF_REP_NOPREV) { memmove(cs + 1, cs, nc); memmove(cx + 1, cx, nc); cs[0] = 16; cx[0] = 0; nc++; }
	if (fault == DGF_REP_OVERRUN) {   /* the last code-length symbol becomes a 138-long zero run reaching beyond HLIT+HDIST */
		int cov = cs[nc - 1] < 16 ? 1 : cs[nc - 1] == 18 ? 11 + cx[nc - 1] : 3 + cx[nc - 1];
		if (cov >= 138 && nc > 1) nc--;
		cs[nc - 1] = 18; cx[nc - 1] = 127;
	}
	for (int i = 0; i < nc; i++) clfreq[cs[i]]++;
	int cu[19], ncu = 0; for (int i = 0; i < 19; i++) if (clfreq[i]) cu[ncu++] = i;
	if (ncu == 1) { cu[ncu++] = cu[0] == 0 ? 1 : 0; }      /* keep the code-length code complete (two codes of 1 bit) */
	uint8_t cll[19] = { 0 }, tcl[19]; uint16_t clc[19] = { 0 };
	dg_lengths(r, tcl, ncu, 7, vrn(r, 3)); for (int i = 0; i < ncu; i++) cll[cu[i]] = tcl[i];
	if (fault == DGF_CL_OVERSUB) { int longest = cu[0]; for (int i = 0; i < ncu; i++) if (cll[cu[i]] > cll[longest]) longest = cu[i]; if (cll[longest] > 1) cll[longest]--; else { /* two 1-bit codes: add a third */ for (int i = 0; i < 19; i++) if (!cll[i]) { cll[i] = 1; break; } } }
	dg_canon(cll, 19, clc);
	static const uint8_t ord[19] = {16,17,18,0,8,7,9,6,10,5,11,4,12,3,13,2,14,1,15};
	int hclen = 19; while (hclen > 4 && cll[ord[hclen - 1]] == 0) hclen--;
	dg_pb(g, last, 1); dg_pb(g, 2, 2);
	if (fault == DGF_HLIT) { g->fault_bit = g->bits; dg_pb(g, 30 + vrn(r, 2), 5); g->fault_done = 1; } else dg_pb(g, hlit - 257, 5);
	if (fault == DGF_HDIST) { g->fault_bit = g->bits; dg_pb(g, 30 + vrn(r, 2), 5); g->fault_done = 1; } else dg_pb(g, hdist - 1, 5);
	dg_pb(g, hclen - 4, 4);
	if (fault && fault != DGF_HLIT && fault != DGF_HDIST && fault != DGF_UNASSIGNED && fault != DGF_FARDIST && fault != DGF_NODIST_MATCH && fault != DGF_UNASSIGNED_DIST) { g->fault_bit = g->bits; g->fault_done = 1; }
	for (int i = 0; i < hclen; i++) dg_pb(g, cll[ord[i]], 3);
	for (int i = 0; i < nc; i++) { dg_pcode(g, clc[cs[i]], cll[cs[i]]); if (cs[i] == 16) dg_pb(g, cx[i], 2); else if (cs[i] == 17) dg_pb(g, cx[i], 3); else if (cs[i] == 18) dg_pb(g, cx[i], 7); }
	if (g->fault_done) { /* header already broken: what follows is only filler */ for (int i = 0; i < 80; i++) dg_pb(g, vr32(r), 8); return; }
	/* --- data */
	int ntok = vrn(r, 4) == 0 ? (int) vrn(r, 20) : (int) vrn(r, 3000);
	if (fault == DGF_UNASSIGNED) {
		dg_tokens(g, r, ll_hdr, lc, dl_hdr, dc, ntok / 4);
		/* the unassigned pattern: one past the last assigned code of the longest length (exists because the set is now incomplete) */
		int L = 0; for (int i = 0; i < 288; i++) if (ll_hdr[i] > L) L = ll_hdr[i];
		int lastc = -1; for (int i = 0; i < 288; i++) if (ll_hdr[i] == L && (int) lc[i] > lastc) lastc = lc[i];
		g->fault_bit = g->bits; g->fault_done = 1; g->valid_out_before_fault = g->explen;
		dg_pcode(g, (uint32_t) (lastc + 1), L);
		for (int i = 0; i < 80; i++) dg_pb(g, vr32(r), 8);
		return;
	}
	if (fault == DGF_UNASSIGNED_DIST) {
		dg_tokens(g, r, ll_hdr, lc, dl_hdr, dc, ntok / 4);
		int L = 0; for (int i = 0; i < 30; i++) if (dl_hdr[i] > L) L = dl_hdr[i];
		int lastc = -1; for (int i = 0; i < 30; i++) if (dl_hdr[i] == L && (int) dc[i] > lastc) lastc = dc[i];
		g->fault_bit = g->bits; g->fault_done = 1; g->valid_out_before_fault = g->explen;
		dg_pcode(g, lc[257], ll_hdr[257]);                                  /* length 3 ... */
		{ uint32_t pat = (uint32_t) (lastc + 1); int pl = L; while (pl < 15 && vrn(r, 2)) { pat = pat << 1 | (vrn(r, 2)); pl++; } dg_pcode(g, pat, pl); }   /* ... then bits no distance code owns (possibly continued: still unowned, the set is prefix-free) */
		for (int i = 0; i < 80; i++) dg_pb(g, vr32(r), 8);
		return;
	}
	if (fault == DGF_NODIST_MATCH) {   /* the header is valid (no distance codes at all); a length symbol then has no distance to go with */
		dg_tokens(g, r, ll_hdr, lc, dl_hdr, dc, 1 + ntok / 8);     /* literals only: there are no distance codes */
		g->fault_bit = g->bits; g->fault_done = 1; g->valid_out_before_fault = g->explen;
		dg_pcode(g, lc[260], ll_hdr[260]); dg_pb(g, 0x2d5 | vr32(r), 14);
		for (int i = 0; i < 80; i++) dg_pb(g, vr32(r), 8);
		return;
	}
	if (fault == DGF_FARDIST) {
		dg_tokens(g, r, ll_hdr, lc, dl_hdr, dc, ntok / 4);
		/* a match whose distance exceeds what has been produced */
		int ds = -1; for (int c = 29; c >= 0; c--) if (dl_hdr[c] && DG_DB[c] > g->explen) ds = c;
		if (ds < 0) { /* everything reachable: produce too much output for a far fault; give up on the fault */ dg_pcode(g, lc[256], ll_hdr[256]); return; }
		g->fault_bit = g->bits; g->fault_done = 1; g->valid_out_before_fault = g->explen;
		dg_pcode(g, lc[257], ll_hdr[257]); dg_pcode(g, dc[ds], dl_hdr[ds]); dg_pb(g, (1u << DG_DX[ds]) - 1, DG_DX[ds]);
		for (int i = 0; i < 40; i++) { int s = used[1 + vrn(r, nu - 1)]; if (s < 256) dg_pcode(g, lc[s], ll_hdr[s]); }
		dg_pcode(g, lc[256], ll_hdr[256]);
		return;
	}
	dg_tokens(g, r, ll_hdr, lc, dl_hdr, dc, ntok);
	dg_pcode(g, lc[256], ll_hdr[256]);
}
/* Generate one stream.  buf/exp are caller provided. Returns number of bytes of the stream. */
static size_t defgen(defgen_t *g, vrng *r, uint8_t *buf, size_t cap, uint8_t *exp, size_t max_out)
{
	int fault = g->fault, want_deep = g->want_deep, want_far = g->want_far, mb = g->max_blocks ? g->max_blocks : 5;
	const uint8_t *pre_hdr = g->pre_hdr, *pre_l = g->pre_l; size_t pre_hdr_bits = g->pre_hdr_bits; int pre_nlen = g->pre_nlen, pre_ndist = g->pre_ndist, prev_stored = 1;
	memset(g, 0, sizeof *g); g->pre_hdr = pre_hdr; g->pre_l = pre_l; g->pre_hdr_bits = pre_hdr_bits; g->pre_nlen = pre_nlen; g->pre_ndist = pre_ndist; g->fault = fault; g->want_deep = want_deep; g->want_far = want_far; g->buf = buf; g->cap = cap; g->exp = exp; g->max_out = max_out; memset(buf, 0, cap);
	int nblk = 1 + (int) vrn(r, mb), fault_blk = fault ? (int) vrn(r, nblk) : -1;
	if (fault == DGF_NODIST_MATCH) { if (nblk < 2) nblk = 2; fault_blk = 1 + (int) vrn(r, nblk - 1); }   /* after at least one ordinary block */
	for (int b = 0; b < nblk; b++) {
		if (g->bits / 8 + 70000 > cap || g->explen + 1000 > max_out) { /* out of room: close the stream */ dg_padding_block(g, r, 1); g->nblocks++; break; }
		int last = b == nblk - 1 && !fault, f = b == fault_blk ? fault : 0;
		int type = vrn(r, 8); type = type == 0 ? 0 : type == 1 ? 1 : 2;
		if (f == DGF_BTYPE3) { g->fault_bit = g->bits; dg_pb(g, vrn(r, 2), 1); dg_pb(g, 3, 2); g->fault_done = 1; g->valid_out_before_fault = g->explen; for (int i = 0; i < 80; i++) dg_pb(g, vr32(r), 8); break; }
		if (f == DGF_LENNLEN) type = 0;
		if (f == DGF_BAD_LENSYM || f == DGF_BAD_DISTSYM) type = 1;
		if (f >= DGF_HLIT && f <= DGF_NO_EOB) type = 2;
		if (f == DGF_UNASSIGNED || f == DGF_FARDIST || f == DGF_NODIST_MATCH) type = 2;
		g->nblocks++;
		if (pre_hdr && !fault && prev_stored && (g->bits & 7) == 0 && vrn(r, 3) == 0) {   /* foreign-header block */
			uint8_t ll[288] = { 0 }, dl[32] = { 0 }; uint16_t lc[288] = { 0 }, dc[32] = { 0 };
			memcpy(ll, pre_l, (size_t) pre_nlen); memcpy(dl, pre_l + pre_nlen, (size_t) pre_ndist); dg_canon(ll, 288, lc); dg_canon(dl, 32, dc);
			dg_pb(g, last, 1); for (size_t i = 1; i < pre_hdr_bits; i++) dg_pb(g, (pre_hdr[i >> 3] >> (i & 7)) & 1u, 1);
			dg_tokens(g, r, ll, lc, dl, dc, vrn(r, 4) == 0 ? (int) vrn(r, 20) : (int) vrn(r, 3000)); dg_pcode(g, lc[256], ll[256]);
			g->ndyn++; g->npre++; prev_stored = 0; continue;
		}
		prev_stored = type == 0;
		if (type == 0) {
			g->nstored++;
			dg_pb(g, last, 1); dg_pb(g, 0, 2); g->bits = (g->bits + 7) & ~(size_t) 7;
			int len = vrn(r, 4) == 0 ? 0 : vrn(r, 8) == 0 ? 65535 - (int) vrn(r, 2) : (int) vrn(r, 2000); if (g->explen + len > max_out || g->bits / 8 + len + 100 > cap) len = 0;
			dg_pb(g, len, 16);
			if (f == DGF_LENNLEN) { g->fault_bit = g->bits; g->fault_done = 1; g->valid_out_before_fault = g->explen; dg_pb(g, (~len & 0xffff) ^ (1u << vrn(r, 16)), 16); for (int i = 0; i < 80; i++) dg_pb(g, vr32(r), 8); break; }
			dg_pb(g, ~len & 0xffff, 16);
			for (int i = 0; i < len; i++) { uint8_t v = (uint8_t) vr32(r); dg_pb(g, v, 8); g->exp[g->explen++] = v; }
		} else if (type == 1) {
			g->nfixed++;
			uint8_t ll[288], dl[32], ll2[288]; uint16_t lc[288], dc[32]; dg_fixed_tables(ll, lc, dl, dc); memcpy(ll2, ll, 288); ll2[286] = ll2[287] = 0; dl[30] = dl[31] = 0;
			dg_pb(g, last, 1); dg_pb(g, 1, 2);
			dg_tokens(g, r, ll2, lc, dl, dc, f ? (int) vrn(r, 200) : (int) vrn(r, 3000));
			if (f == DGF_BAD_LENSYM) { g->fault_bit = g->bits; g->fault_done = 1; g->valid_out_before_fault = g->explen; int s = 286 + vrn(r, 2); dg_pcode(g, lc[s], 8); for (int i = 0; i < 80; i++) dg_pb(g, vr32(r), 8); break; }
			if (f == DGF_BAD_DISTSYM) { if (g->explen == 0) { dg_pcode(g, lc['x'], ll[(int) 'x']); g->exp[g->explen++] = 'x'; } g->fault_bit = g->bits; g->fault_done = 1; g->valid_out_before_fault = g->explen; dg_pcode(g, lc[257], ll[257]); dg_pcode(g, 30 + vrn(r, 2), 5); for (int i = 0; i < 80; i++) dg_pb(g, vr32(r), 8); break; }
			dg_pcode(g, lc[256], ll[256]);
		} else {
			g->ndyn++;
			if (f) g->valid_out_before_fault = g->explen;
			dg_dynamic(g, r, last, f);
			if (g->fault_done) break;
			if (f && !g->fault_done) { /* fault could not be realised in this block: try the next one */ fault_blk = b + 1; if (b == nblk - 1) nblk++; }
		}
	}
	if (fault && !g->fault_done) return 0;
	return (g->bits + 7) / 8;
}
/* A stream whose last block carries a dynamic header close to the longest one RFC 1951 allows (about 283 of the possible 285.75 bytes): all 286 + 30
 * code lengths present and written without run-length symbols, and a code-length code in which the two lengths that occur 283 times cost 7 bits each.
 * Preceded by a short stored block; the first token of the big block is a match that reaches back to the very first output byte, so that anything a
 * decoder damages while it buffers the header across calls (its own history included) shows in the output.  Returns the stream length in bytes. */
static size_t dg_maxhdr_stream(defgen_t *g, vrng *r, uint8_t *buf, size_t cap, uint8_t *exp, size_t max_out)
{
	memset(g, 0, sizeof *g); g->buf = buf; g->cap = cap; g->exp = exp; g->max_out = max_out; memset(buf, 0, cap < 70000 ? cap : 70000);
	int pre = 1 + (int) vrn(r, vrn(r, 2) ? 100 : 3000);
	dg_pb(g, 0, 1); dg_pb(g, 0, 2); g->bits = (g->bits + 7) & ~(size_t) 7; dg_pb(g, (uint32_t) pre, 16); dg_pb(g, ~(uint32_t) pre & 0xffff, 16);
	for (int i = 0; i < pre; i++) { uint8_t v = (uint8_t) vr32(r); dg_pb(g, v, 8); g->exp[g->explen++] = v; }
	g->nblocks = 2; g->nstored = 1; g->ndyn = 1;
	/* lit/len: 1 x 7, 224 x 8, 59 x 9, 2 x 10 bits (Kraft sum exactly 1); distance: 1..6 once each, 8 x 10, 16 x 11 bits (exactly 1) */
	uint8_t ll[288] = { 0 }, dl[32] = { 0 }; uint16_t lc[288] = { 0 }, dc[32] = { 0 }; int k = 0;
	ll[k++] = 7; for (int i = 0; i < 224; i++) ll[k++] = 8; for (int i = 0; i < 59; i++) ll[k++] = 9; ll[k++] = 10; ll[k++] = 10;
	for (int i = 285; i > 0; i--) { int j = (int) vrn(r, (uint32_t) i + 1); uint8_t t = ll[i]; ll[i] = ll[j]; ll[j] = t; }
	k = 0; for (int i = 1; i <= 6; i++) dl[k++] = (uint8_t) i; for (int i = 0; i < 8; i++) dl[k++] = 10; for (int i = 0; i < 16; i++) dl[k++] = 11;
	for (int i = 29; i > 0; i--) { int j = (int) vrn(r, (uint32_t) i + 1); uint8_t t = dl[i]; dl[i] = dl[j]; dl[j] = t; }
	dg_canon(ll, 288, lc); dg_canon(dl, 32, dc);
	/* code-length code: lengths 1..4 cost 1..4 bits, 5 costs 6, and 6 7 8 9 10 11 cost 7 bits each (Kraft: 64+32+16+8+2+6 = 128/128) */
	uint8_t cll[19] = { 0 }; uint16_t clc[19] = { 0 }; cll[1] = 1; cll[2] = 2; cll[3] = 3; cll[4] = 4; cll[5] = 6; for (int i = 6; i <= 11; i++) cll[i] = 7;
	dg_canon(cll, 19, clc);
	static const uint8_t ord[19] = {16,17,18,0,8,7,9,6,10,5,11,4,12,3,13,2,14,1,15};
	size_t hdr_start = g->bits;
	dg_pb(g, 1, 1); dg_pb(g, 2, 2); dg_pb(g, 29, 5); dg_pb(g, 29, 5); dg_pb(g, 18 - 4, 4);
	for (int i = 0; i < 18; i++) dg_pb(g, cll[ord[i]], 3);
	for (int i = 0; i < 286; i++) dg_pcode(g, clc[ll[i]], cll[ll[i]]);
	for (int i = 0; i < 30; i++) dg_pcode(g, clc[dl[i]], cll[dl[i]]);
	g->fault_bit = g->bits - hdr_start;    /* reused as: header length in bits */
	/* first token: a match reaching the first output byte (length symbol 257 + n, distance = everything produced so far) */
	{ int ls = (int) vrn(r, 29), ds = 0; uint32_t len = DG_LB[ls], dist = (uint32_t) g->explen; if (len > 258) len = 258;
	  for (int c = 0; c < 30; c++) if (DG_DB[c] <= dist) ds = c;
	  uint32_t dx = dist - DG_DB[ds]; if (dx >= (1u << DG_DX[ds])) { dx = (1u << DG_DX[ds]) - 1; dist = DG_DB[ds] + dx; }
	  dg_pcode(g, lc[257 + ls], ll[257 + ls]); dg_pb(g, 0, DG_LX[ls]); dg_pcode(g, dc[ds], dl[ds]); dg_pb(g, dx, DG_DX[ds]);
	  for (uint32_t i = 0; i < len; i++) { g->exp[g->explen] = g->exp[g->explen - dist]; g->explen++; } g->ntok++; }
	dg_tokens(g, r, ll, lc, dl, dc, (int) vrn(r, 400));
	dg_pcode(g, lc[256], ll[256]);
	return (g->bits + 7) / 8;
}
#endif
