/* refinflate.h - independent, instrumented RFC 1951 decoder (bit at a time, canonical decode by counting as in
 * the RFC text), plus RFC 1950 / RFC 1952 wrapper parsing.  Shares no code or table with the library.
 * Lenient exactly where RFC 1951 is: incomplete code sets are accepted as long as no unassigned code is used. */
#ifndef REFINFLATE_H
#define REFINFLATE_H
#include <stdint.h>
#include <string.h>
#include <stdlib.h>
#include "refcrc.h"

enum {  /* error classes of the reference */
	RI_OK = 0, RI_EOF, RI_BADCODE /* unassigned code used */, RI_OUTFULL, RI_BADLENSYM /* 286/287 */, RI_BADDISTSYM /* 30/31 */,
	RI_FARDIST /* distance beyond start of output+dictionary */, RI_LENNLEN, RI_HLIT /* HLIT>29 (286+) or HDIST>29 */, RI_CLCODE /* code-length code over-subscribed / incomplete */,
	RI_REPNOPREV, RI_REPOVERRUN, RI_NOEOB, RI_LLOVERSUB, RI_DISTOVERSUB, RI_BTYPE3, RI_WINDOW /* distance > window limit */, RI_DISTNOCODE /* match used but no distance code defined */
};
static const char *ri_errname(int e)
{
	static const char *n[] = { "ok", "eof", "unassigned-code", "outfull", "bad-len-symbol", "bad-dist-symbol", "distance-too-far", "len-nlen", "hlit-hdist-range", "codelen-code-invalid",
				   "repeat-without-previous", "repeat-overrun", "no-end-of-block-code", "litlen-oversubscribed", "dist-oversubscribed", "btype3", "window-exceeded", "no-distance-code" };
	return e >= 0 && e < (int) (sizeof n / sizeof n[0]) ? n[e] : "?";
}
#define RI_MAXBLOCKS 4096
typedef struct {
	/* inputs */
	const uint8_t *in; size_t inlen; uint8_t *out; size_t outcap;
	const uint8_t *dict; size_t dictlen;    /* preset dictionary logically before out[0] */
	uint32_t window;                        /* 0 = 32768; otherwise distances above it are an error */
	int prefix_mode;                        /* input may end at a block boundary: return 1 */
	size_t mark;                            /* output position; matches reaching before it are recorded in reach_before_mark */
	/* results */
	size_t bitpos, outlen, end_bit; int err; int last_btype; int saw_final;
	uint32_t maxdist; size_t reach_before_mark, reach_before_start; long nblocks, nmatch, nlit; int maxcodelen_lit, maxcodelen_dist;
	struct { uint8_t type, final; size_t bit_start, bit_end, out_start; } blk[RI_MAXBLOCKS];
	long nstored, nfixed, ndyn;
	/* largest number of bits of one literal immediately followed by one length/distance pair (encoders that emit such a group with a single bit-buffer write are limited by it) */
	uint32_t max_group_bits, last_lit_bits; int prev_lit; long groups_over_56;
} rinf_t;
typedef struct { uint16_t count[16], sym[320]; } rh_t;
static inline uint32_t ri_bits(rinf_t *r, int n)
{
	uint32_t v = 0;
	for (int i = 0; i < n; i++) { if (r->bitpos >= r->inlen * 8) { if (!r->err) r->err = RI_EOF; return 0; } v |= ((r->in[r->bitpos >> 3] >> (r->bitpos & 7)) & 1u) << i; r->bitpos++; }
	return v;
}
/* returns <0 if over-subscribed, else the number of unused codes (0 = complete) */
static int rh_build(rh_t *h, const uint8_t *len, int n)
{
	int off[16]; memset(h->count, 0, sizeof h->count);
	for (int i = 0; i < n; i++) h->count[len[i]]++;
	if (h->count[0] == n) return 0;
	int left = 1; for (int l = 1; l < 16; l++) { left <<= 1; left -= h->count[l]; if (left < 0) return -1; }
	off[1] = 0; for (int l = 1; l < 15; l++) off[l + 1] = off[l] + h->count[l];
	for (int i = 0; i < n; i++) if (len[i]) h->sym[off[len[i]]++] = (uint16_t) i;
	return left;
}
static int rh_dec(rinf_t *r, const rh_t *h)
{
	int code = 0, first = 0, index = 0;
	for (int l = 1; l < 16; l++) {
		code |= (int) ri_bits(r, 1); if (r->err) return -1;
		int c = h->count[l]; if (code - c < first) return h->sym[index + (code - first)];
		index += c; first += c; first <<= 1; code <<= 1;
	}
	r->err = RI_BADCODE; return -1;
}
static const uint16_t RI_LB[29] = {3,4,5,6,7,8,9,10,11,13,15,17,19,23,27,31,35,43,51,59,67,83,99,115,131,163,195,227,258}, RI_LX[29] = {0,0,0,0,0,0,0,0,1,1,1,1,2,2,2,2,3,3,3,3,4,4,4,4,5,5,5,5,0};
static const uint16_t RI_DB[30] = {1,2,3,4,5,7,9,13,17,25,33,49,65,97,129,193,257,385,513,769,1025,1537,2049,3073,4097,6145,8193,12289,16385,24577}, RI_DX[30] = {0,0,0,0,1,1,2,2,3,3,4,4,5,5,6,6,7,7,8,8,9,9,10,10,11,11,12,12,13,13};
static int ri_codes(rinf_t *r, const rh_t *ll, const rh_t *dd, int have_dist)
{
	for (;;) {
		size_t b0 = r->bitpos;
		int s = rh_dec(r, ll); if (r->err) return -1;
		if (s < 256) { if (r->outlen >= r->outcap) { r->err = RI_OUTFULL; return -1; } r->out[r->outlen++] = (uint8_t) s; r->nlit++; r->last_lit_bits = (uint32_t) (r->bitpos - b0); r->prev_lit = 1; continue; }
		if (s == 256) { r->prev_lit = 0; return 0; }
		s -= 257; if (s >= 29) { r->err = RI_BADLENSYM; return -1; }
		int len = RI_LB[s] + (int) ri_bits(r, RI_LX[s]); if (r->err) return -1;
		if (!have_dist) { r->err = RI_DISTNOCODE; return -1; }
		int d = rh_dec(r, dd); if (r->err) return -1;
		if (d >= 30) { r->err = RI_BADDISTSYM; return -1; }
		uint32_t dist = RI_DB[d] + ri_bits(r, RI_DX[d]); if (r->err) return -1;
		{ uint32_t g = (uint32_t) (r->bitpos - b0) + (r->prev_lit ? r->last_lit_bits : 0); if (g > r->max_group_bits) r->max_group_bits = g; if (g > 56) r->groups_over_56++; r->prev_lit = 0; }
		if (dist > r->outlen + r->dictlen) { r->err = RI_FARDIST; return -1; }
		if (r->window && dist > r->window) { r->err = RI_WINDOW; return -1; }
		if (dist > r->maxdist) r->maxdist = dist;
		r->nmatch++;
		if (dist > r->outlen) { size_t rb = dist - r->outlen; if (rb > r->reach_before_start) r->reach_before_start = rb; }
		if (r->outlen >= r->mark && dist > r->outlen - r->mark) { size_t reach = dist - (r->outlen - r->mark); if (reach > r->reach_before_mark) r->reach_before_mark = reach; }
		if (r->outlen + len > r->outcap) { r->err = RI_OUTFULL; return -1; }
		for (int i = 0; i < len; i++) { r->out[r->outlen] = dist <= r->outlen ? r->out[r->outlen - dist] : r->dict[r->dictlen - (dist - r->outlen)]; r->outlen++; }
	}
}
/* parse HLIT/HDIST/HCLEN and the code length sequence of a dynamic block (after BFINAL/BTYPE); l must hold 320 bytes.
 * returns 0 or -1 with r->err set */
static int ri_dyn_header(rinf_t *r, uint8_t *l, int *pnlen, int *pndist)
{
	int nlen = (int) ri_bits(r, 5) + 257, ndist = (int) ri_bits(r, 5) + 1, ncode = (int) ri_bits(r, 4) + 4; if (r->err) return -1;
	if (nlen > 286 || ndist > 30) { r->err = RI_HLIT; return -1; }
	static const uint8_t ord[19] = {16,17,18,0,8,7,9,6,10,5,11,4,12,3,13,2,14,1,15};
	memset(l, 0, 320); uint8_t cl[19]; memset(cl, 0, 19);
	for (int i = 0; i < ncode; i++) cl[ord[i]] = (uint8_t) ri_bits(r, 3);
	if (r->err) return -1;
	rh_t ch; int e = rh_build(&ch, cl, 19);
	if (e < 0) { r->err = RI_CLCODE; return -1; }
	int idx = 0;
	while (idx < nlen + ndist) {
		int s = rh_dec(r, &ch); if (r->err) return -1;
		if (s < 16) l[idx++] = (uint8_t) s;
		else {
			int rep, v = 0;
			if (s == 16) { if (!idx) { r->err = RI_REPNOPREV; return -1; } v = l[idx - 1]; rep = 3 + (int) ri_bits(r, 2); }
			else if (s == 17) rep = 3 + (int) ri_bits(r, 3);
			else rep = 11 + (int) ri_bits(r, 7);
			if (r->err) return -1;
			if (idx + rep > nlen + ndist) { r->err = RI_REPOVERRUN; return -1; }
			while (rep--) l[idx++] = (uint8_t) v;
		}
	}
	if (!l[256]) { r->err = RI_NOEOB; return -1; }
	*pnlen = nlen; *pndist = ndist; return 0;
}
/* returns 0 when the final block was consumed; 1 (prefix mode) when the input ended exactly at a block boundary; <0 on error (r->err) */
static int rinflate(rinf_t *r)
{
	int last;
	r->err = 0; r->outlen = 0; r->nblocks = r->nmatch = r->nlit = 0; r->maxdist = 0; r->reach_before_mark = r->reach_before_start = 0; r->saw_final = 0; r->nstored = r->nfixed = r->ndyn = 0; r->maxcodelen_lit = r->maxcodelen_dist = 0; r->max_group_bits = r->last_lit_bits = 0; r->prev_lit = 0; r->groups_over_56 = 0;
	do {
		size_t save = r->bitpos;
		if (r->prefix_mode && (r->bitpos + 7) / 8 >= r->inlen && r->bitpos + 3 > r->inlen * 8) { r->end_bit = save; return 1; }
		last = (int) ri_bits(r, 1); int t = (int) ri_bits(r, 2); if (r->err) return -1;
		r->last_btype = t;
		if (r->nblocks < RI_MAXBLOCKS) { r->blk[r->nblocks].type = (uint8_t) t; r->blk[r->nblocks].final = (uint8_t) last; r->blk[r->nblocks].bit_start = save; r->blk[r->nblocks].out_start = r->outlen; }
		if (t == 0) {
			r->nstored++;
			r->bitpos = (r->bitpos + 7) & ~(size_t) 7;
			if (r->bitpos / 8 + 4 > r->inlen) { r->err = RI_EOF; return -1; }
			uint32_t len = r->in[r->bitpos / 8] | r->in[r->bitpos / 8 + 1] << 8, nlen = r->in[r->bitpos / 8 + 2] | r->in[r->bitpos / 8 + 3] << 8;
			if (len != (~nlen & 0xffff)) { r->err = RI_LENNLEN; return -1; }
			r->bitpos += 32;
			if (r->bitpos / 8 + len > r->inlen) { r->err = RI_EOF; return -1; }
			if (r->outlen + len > r->outcap) { r->err = RI_OUTFULL; return -1; }
			memcpy(r->out + r->outlen, r->in + r->bitpos / 8, len); r->outlen += len; r->bitpos += 8 * (size_t) len;
		} else if (t == 1) {
			r->nfixed++;
			uint8_t l[320]; rh_t ll, dd; int i;
			for (i = 0; i < 144; i++) l[i] = 8;
			for (; i < 256; i++) l[i] = 9;
			for (; i < 280; i++) l[i] = 7;
			for (; i < 288; i++) l[i] = 8;
			rh_build(&ll, l, 288); for (i = 0; i < 32; i++) l[i] = 5; rh_build(&dd, l, 32);   /* patterns 30/31 decode to symbols 30/31, which are then refused */
			if (ri_codes(r, &ll, &dd, 1)) return -1;
		} else if (t == 2) {
			r->ndyn++;
			uint8_t l[320]; int nlen, ndist;
			if (ri_dyn_header(r, l, &nlen, &ndist)) return -1;
			int e;
			rh_t ll, dd; e = rh_build(&ll, l, nlen); if (e < 0) { r->err = RI_LLOVERSUB; return -1; }
			e = rh_build(&dd, l + nlen, ndist); if (e < 0) { r->err = RI_DISTOVERSUB; return -1; }
			int have_dist = dd.count[0] != ndist;
			for (int i = 0; i < nlen; i++) if (l[i] > r->maxcodelen_lit) r->maxcodelen_lit = l[i];
			for (int i = 0; i < ndist; i++) if (l[nlen + i] > r->maxcodelen_dist) r->maxcodelen_dist = l[nlen + i];
			if (ri_codes(r, &ll, &dd, have_dist)) return -1;
		} else { r->err = RI_BTYPE3; return -1; }
		if (r->err) return -1;
		if (r->nblocks < RI_MAXBLOCKS) r->blk[r->nblocks].bit_end = r->bitpos;
		r->nblocks++;
	} while (!last);
	r->saw_final = 1; r->end_bit = r->bitpos; return 0;
}

/* ---------------------------------------------------------------- wrappers (RFC 1952 / RFC 1950) */
enum { RW_RAW = 0, RW_GZIP, RW_ZLIB };
enum { RWE_OK = 0, RWE_SHORT /* header/trailer truncated */, RWE_MAGIC, RWE_METHOD, RWE_RESERVED, RWE_HCRC, RWE_FCHECK, RWE_NEEDDICT, RWE_CRC, RWE_ISIZE, RWE_ADLER, RWE_BODY /* deflate error: see rinf err */ };
typedef struct {
	int wrapper; int werr;
	size_t hdr_len, body_end /* byte offset just after the deflate data */, total_len /* incl. trailer */;
	/* gzip fields */
	uint8_t flg, xfl, os; uint32_t mtime; const uint8_t *extra; uint32_t extra_len; const char *name, *comment; size_t name_len, comment_len; int has_hcrc; uint16_t hcrc_stored, hcrc_calc;
	/* zlib */
	uint8_t cmf, zflg; int fdict; uint32_t dictid;
	/* trailer */
	uint32_t t_crc, t_isize, t_adler;
} rwrap_t;
/* parse the header only; returns 0 or an RWE_ code.  For gzip with FHCRC the stored and the computed value are both reported. */
static int rwrap_header(rwrap_t *w, int wrapper, const uint8_t *in, size_t n)
{
	memset(w, 0, sizeof *w); w->wrapper = wrapper;
	if (wrapper == RW_RAW) return 0;
	if (wrapper == RW_ZLIB) {
		if (n < 2) return w->werr = RWE_SHORT;
		w->cmf = in[0]; w->zflg = in[1];
		if ((w->cmf & 15) != 8) return w->werr = RWE_METHOD;
		/* CINFO > 7 is 'not allowed' by RFC 1950 but carries no information a decoder needs: not treated as an error here */
		if (((w->cmf << 8) | w->zflg) % 31) return w->werr = RWE_FCHECK;
		w->fdict = (w->zflg >> 5) & 1; w->hdr_len = 2;
		if (w->fdict) { if (n < 6) return w->werr = RWE_SHORT; w->dictid = (uint32_t) in[2] << 24 | in[3] << 16 | in[4] << 8 | in[5]; w->hdr_len = 6; }
		return 0;
	}
	if (n < 10) return w->werr = RWE_SHORT;
	if (in[0] != 0x1f || in[1] != 0x8b) return w->werr = RWE_MAGIC;
	if (in[2] != 8) return w->werr = RWE_METHOD;
	w->flg = in[3];   /* reserved FLG bits are reported by the caller if it cares (w->flg & 0xe0); not an error here */
	w->mtime = in[4] | in[5] << 8 | in[6] << 16 | (uint32_t) in[7] << 24; w->xfl = in[8]; w->os = in[9];
	size_t p = 10;
	if (w->flg & 4) { if (n < p + 2) return w->werr = RWE_SHORT; w->extra_len = in[p] | in[p + 1] << 8; p += 2; if (n < p + w->extra_len) return w->werr = RWE_SHORT; w->extra = in + p; p += w->extra_len; }
	if (w->flg & 8) { w->name = (const char *) in + p; while (p < n && in[p]) p++; if (p >= n) return w->werr = RWE_SHORT; w->name_len = (size_t) ((const char *) in + p - w->name); p++; }
	if (w->flg & 16) { w->comment = (const char *) in + p; while (p < n && in[p]) p++; if (p >= n) return w->werr = RWE_SHORT; w->comment_len = (size_t) ((const char *) in + p - w->comment); p++; }
	if (w->flg & 2) { if (n < p + 2) return w->werr = RWE_SHORT; w->has_hcrc = 1; w->hcrc_stored = (uint16_t) (in[p] | in[p + 1] << 8); w->hcrc_calc = (uint16_t) (refcrc_full(&refcrc_cat[RC_GZIP], in, p) & 0xffff); p += 2; if (w->hcrc_stored != w->hcrc_calc) { w->hdr_len = p; return w->werr = RWE_HCRC; } }
	w->hdr_len = p; return 0;
}
/* Decode a whole wrapped stream with the reference.  has_hdr=0: no header present (the *_NO_HDR modes), trailer still follows
 * the deflate data for gzip/zlib.  Returns 0 when header, body and trailer are all valid. */
static int rwrap_decode(rwrap_t *w, rinf_t *r, int wrapper, int has_hdr, const uint8_t *in, size_t n, uint8_t *out, size_t outcap, const uint8_t *dict, size_t dictlen)
{
	int e = 0;
	if (has_hdr) { e = rwrap_header(w, wrapper, in, n); if (e) return e; } else { memset(w, 0, sizeof *w); w->wrapper = wrapper; }
	if (w->fdict && !dict) return w->werr = RWE_NEEDDICT;
	memset(r, 0, sizeof *r); r->in = in + w->hdr_len; r->inlen = n - w->hdr_len; r->out = out; r->outcap = outcap; r->dict = dict; r->dictlen = dictlen;
	if (rinflate(r) != 0) return w->werr = RWE_BODY;
	w->body_end = w->hdr_len + (r->end_bit + 7) / 8; w->total_len = w->body_end;
	if (wrapper == RW_GZIP) {
		if (n < w->body_end + 8) return w->werr = RWE_SHORT;
		const uint8_t *t = in + w->body_end; w->t_crc = t[0] | t[1] << 8 | t[2] << 16 | (uint32_t) t[3] << 24; w->t_isize = t[4] | t[5] << 8 | t[6] << 16 | (uint32_t) t[7] << 24; w->total_len += 8;
		if (w->t_crc != (uint32_t) refcrc_full(&refcrc_cat[RC_GZIP], out, r->outlen)) return w->werr = RWE_CRC;
		if (w->t_isize != (uint32_t) r->outlen) return w->werr = RWE_ISIZE;
	} else if (wrapper == RW_ZLIB) {
		if (n < w->body_end + 4) return w->werr = RWE_SHORT;
		const uint8_t *t = in + w->body_end; w->t_adler = (uint32_t) t[0] << 24 | t[1] << 16 | t[2] << 8 | t[3]; w->total_len += 4;
		if (w->t_adler != refadler(1, out, r->outlen)) return w->werr = RWE_ADLER;
	}
	return 0;
}
#endif
