/* eng_disp.c - C16: the real resolvers are run against simulated CPU configurations (CPUID/XGETBV intercepted under the
 * trap flag); mode "enum" walks the dependency-closed configuration space and reports the implementation every entry
 * point resolves to; mode "trace" applies one configuration, runs a battery over every public API with the trap-flag
 * instruction tracer on and reports every executed instruction address plus result digests. The driver classifies the
 * executed instructions (objdump of this very binary) and checks them against what each configuration makes available. */
#include "v.h"
#include "refinflate.h"
#include "refgf.h"
#include "cpusim.h"
#include <zlib.h>
#include "igzip_lib.h"
#include "crc.h"
#include "crc64.h"
#include "erasure_code.h"
#include "gf_vect_mul.h"
#include "raid.h"
#include "mem_routines.h"

/* ---------------------------------------------------------------- configuration space */
static int n_cfg;
typedef void (*cfg_cb)(const cpucfg *c, long id);
static void emit(cfg_cb cb, uint32_t eax, uint32_t c1, uint32_t b7, uint32_t c7, uint32_t x, long *id)
{
	cpucfg c = { "enum", eax, c1, b7, c7, x }; if (cb) cb(&c, *id); (*id)++;
}
/* dependency-closed assignments of the examined bits (see DESIGN.md section 3, C16) */
static long enumerate(cfg_cb cb, int thorough, vrng *r)
{
	long id = 0;
	static const uint32_t sse_lv[4] = { 0, C1_SSE3, C1_SSE3 | C1_SSSE3 | C1_SSE41, C1_SSEALL };
	static const uint32_t xcr[5] = { 0, 1, 3, 7, 0xe7 };
	static const uint32_t g1bits[4] = { CB(17), CB(28), CB(30), CB(31) };        /* DQ CD BW VL (need F) */
	static const uint32_t g2free[3] = { CB(8), CB(9), CB(10) };                  /* GFNI, VAES (needs AVX), VPCLMULQDQ (needs AVX) */
	static const uint32_t g2f[4] = { CB(6), CB(11), CB(12), CB(14) };            /* VBMI2 VNNI BITALG VPOPCNTDQ (need F) */
	for (int s = 0; s < 4; s++) for (int clm = 0; clm < 2; clm++) for (int avo = 0; avo < 2; avo++) for (int ox = 0; ox < 5; ox++) for (int avx = 0; avx < 2; avx++) for (int avx2 = 0; avx2 < 2; avx2++) {
		if (clm && s < 3) continue; if (avo && s < 3) continue; if (avx && s < 3) continue; if (avx2 && !avx) continue;
		uint32_t c1 = sse_lv[s] | (clm ? C1_CLMUL : 0) | (avx ? C1_AVX : 0) | (ox ? C1_OSXSAVE : 0), x = xcr[ox], eax = avo ? EAX_AVOTON : EAX_PLAIN;
		uint32_t b7base = avx2 ? (B7_AVX2 | B7_BMI) : 0;
		int nf = avx2 ? 17 : 1;       /* no AVX512F, or F with each subset of DQ/CD/BW/VL */
		for (int f = 0; f < nf; f++) {
			uint32_t b7 = b7base; int hasf = f > 0; if (hasf) { b7 |= CB(16); for (int k = 0; k < 4; k++) if ((f - 1) >> k & 1) b7 |= g1bits[k]; }
			if (!thorough && hasf && f != 16 && f != 1 && (f - 1) != 0xb && (f - 1) != 0x7 && (f - 1) != 0xd && (f - 1) != 0xe) continue;      /* quick: none / all / each single G1 bit missing */
			for (int gf = 0; gf < 8; gf++) {
				uint32_t c7 = 0; int ok = 1; for (int k = 0; k < 3; k++) if (gf >> k & 1) { if (k > 0 && !avx) ok = 0; if (k == 2 && !clm) ok = 0; /* every VPCLMULQDQ part also has PCLMULQDQ */ c7 |= g2free[k]; } if (!ok) continue;
				int npat = hasf ? 6 : 1;   /* the four F-dependent G2 bits: none, all, each one missing */
				for (int p = 0; p < npat; p++) {
					uint32_t c7b = c7; if (p == 1) for (int k = 0; k < 4; k++) c7b |= g2f[k]; else if (p >= 2) for (int k = 0; k < 4; k++) if (k != p - 2) c7b |= g2f[k];
					if (!thorough && !(gf == 0 || gf == 7 || gf == 1) && !(p <= 1)) continue;
					if (!thorough && (s == 1 || s == 2) && (gf || ox > 1)) continue;
					if (!thorough && avo && (f > 1 || gf > 1 || p > 1)) continue;       /* quick: the Avoton model bit only with the plain feature patterns */
					emit(cb, eax, c1, b7, c7b, x, &id);
				}
			}
		}
	}
	(void) r;
	return id;
}
/* ---------------------------------------------------------------- enum mode */
static uint64_t seen_vec[4096]; static int n_seen;
static long n_resolved;
static void enum_cb(const cpucfg *c, long id)
{
	if (!v_mine(id)) return;
	if (!cpusim_host_can(c)) { v_count("configs", "not_executable_on_host", 1); }
	cpusim_xgetbv_without_osxsave = 0;
	uint64_t h = 1469598103934665603ull; static void *impl[64]; int n = 0;
	for (struct cpusim_entry *e = cpusim_ent; e->name; e++) { void *p = cpusim_resolve(e, c); impl[n++] = p; h = (h ^ (uint64_t) (uintptr_t) p) * 1099511628211ull; n_resolved++; }
	if (cpusim_xgetbv_without_osxsave) { char m[200]; snprintf(m, sizeof m, "cpu c1=%08x b7=%08x c7=%08x xcr0=%x", c->l1_ecx, c->l7_ebx, c->l7_ecx, c->xcr0); v_setcase(id, "%s", m); v_viol("xgetbv-without-osxsave", "a resolver executed XGETBV although CPUID.1:ECX.OSXSAVE is clear (#UD on such a machine)"); }
	printf("{\"t\":\"cfg\",\"id\":%ld,\"eax\":%u,\"c1\":%u,\"b7\":%u,\"c7\":%u,\"x\":%u,\"vec\":\"%016llx\",\"host\":%d}\n", id, c->l1_eax, c->l1_ecx, c->l7_ebx, c->l7_ecx, c->xcr0, (unsigned long long) h, cpusim_host_can(c));
	int known = 0; for (int i = 0; i < n_seen; i++) if (seen_vec[i] == h) known = 1;
	if (!known && n_seen < 4096) {
		seen_vec[n_seen++] = h;
		printf("{\"t\":\"vec\",\"h\":\"%016llx\",\"eax\":%u,\"c1\":%u,\"b7\":%u,\"c7\":%u,\"x\":%u,\"slots\":{", (unsigned long long) h, c->l1_eax, c->l1_ecx, c->l7_ebx, c->l7_ecx, c->xcr0);
		int k = 0; for (struct cpusim_entry *e = cpusim_ent; e->name; e++, k++) printf("%s\"%s\":\"%s\"", k ? "," : "", e->name, cpusim_symname(impl[k]));
		printf("}}\n");
	}
	n_cfg++;
}
/* ---------------------------------------------------------------- trace mode: battery over every public API */
static uint64_t dg;   /* digest of deterministic results */
static void D(uint64_t v) { dg = (dg ^ v) * 0x100000001b3ull + 0x9e3779b97f4a7c15ull; }
static uint8_t bufA[8192 + 256] __attribute__((aligned(64))), bufB[8192 + 256] __attribute__((aligned(64))), bufC[70000] __attribute__((aligned(64))), bufD[70000], bufE[70000];
static long n_battery_calls, n_battery_fail; static int tiny;   /* all-C configuration: loops are byte-wise, short buffers reach everything */
#define T_ON() CPUSIM_TF_ON()
#define T_OFF() CPUSIM_TF_OFF()
static const int LENS[] = { 0, 1, 15, 16, 31, 33, 64, 127, 129, 255, 256, 300, 1024, 3096 };
static void bat_crc(void)
{
	for (unsigned i = 0; i < sizeof LENS / sizeof LENS[0]; i++) for (int al = (int) (i & 1); al <= (int) (i & 1); al++) {
		uint8_t *p = bufA + 3 * al; uint64_t n = LENS[i]; uint64_t r[16]; if (tiny && n > 40) continue;
		T_ON();
		r[0] = crc16_t10dif(0x1234, p, n); r[1] = crc16_t10dif_copy(0x1234, bufB + al, p, n); r[2] = crc32_ieee(0x12345678, p, n); r[3] = crc32_gzip_refl(0x12345678, p, n); r[4] = crc32_iscsi(p, (int) n, 0x12345678);
		r[5] = crc64_ecma_refl(7, p, n); r[6] = crc64_ecma_norm(7, p, n); r[7] = crc64_iso_refl(7, p, n); r[8] = crc64_iso_norm(7, p, n); r[9] = crc64_jones_refl(7, p, n); r[10] = crc64_jones_norm(7, p, n); r[11] = crc64_rocksoft_refl(7, p, n); r[12] = crc64_rocksoft_norm(7, p, n);
		r[13] = isal_adler32(1, p, n); r[14] = (uint64_t) (isal_zero_detect(bufE, n) != 0); r[15] = (uint64_t) (isal_zero_detect(p, n) != 0);
		T_OFF();
		for (int k = 0; k < 16; k++) D(r[k]); D(v_hash64(bufB + al, n, 1)); n_battery_calls += 16;
	}
}
static void bat_ec(void)
{
	static uint8_t coef[6 * 14], tbl[32 * 6 * 14], *src[6], *dst[14]; static uint8_t par[14][1152] __attribute__((aligned(64)));
	for (int i = 0; i < 6 * 14; i++) coef[i] = (uint8_t) (i * 29 + 3);
	for (int j = 0; j < 6; j++) src[j] = bufA + 1100 * j; for (int i = 0; i < 14; i++) dst[i] = par[i];
	static const int lens[] = { 16, 48, 64, 160, 416 }; static const int rws[] = { 1, 2, 3, 4, 5, 6, 7 };   /* k = 4 sources */
	for (unsigned li = 0; li < 5; li++) for (unsigned ri = 0; ri < 7; ri++) {
		int len = lens[li], rows = rws[ri], k = vopt.thorough ? 4 : 3; if (tiny && (len != 48 || (rows != 1 && rows != 7))) continue; if (!vopt.thorough && (li == 2 || (li == 4 && rows < 6))) continue; for (int i = 0; i < rows; i++) memset(par[i], 0, len);
		T_ON(); ec_init_tables(k, rows, coef, tbl); ec_encode_data(len, k, rows, tbl, src, dst); T_OFF(); n_battery_calls += 2;
		for (int i = 0; i < rows; i++) { D(v_hash64(par[i], len, i)); for (int x = 0; x < len; x++) { uint8_t e = 0; for (int j = 0; j < k; j++) e ^= refgf_mul(coef[i * k + j], src[j][x]); if (e != par[i][x]) { n_battery_fail++; v_viol("battery:ec_encode_data-wrong", "rows=%d len=%d", rows, len); x = len; i = rows; } } }
		for (int i = 0; i < rows; i++) memset(par[i], 0, len);
		if (!vopt.thorough && rows != 1 && rows < 6) continue;
		T_ON(); for (int j = 0; j < k; j++) ec_encode_data_update(len, k, rows, j, tbl, src[j], dst); T_OFF(); n_battery_calls += k;
		for (int i = 0; i < rows; i++) D(v_hash64(par[i], len, 100 + i));
	}
	static uint8_t t32[32 * 6]; for (int j = 0; j < 6; j++) gf_vect_mul_init(coef[j], t32 + 32 * j);
	for (unsigned li = 0; li < 5; li++) { int len = lens[li] < 64 ? 64 : lens[li] & ~31; if (tiny && li) continue; memset(par[0], 0, len); T_ON(); gf_vect_dot_prod(len, 6, t32, src, par[0]); gf_vect_mad(len, 6, 2, t32, src[2], par[1]); int r = gf_vect_mul(len, t32, bufA, par[2]); T_OFF(); D(v_hash64(par[0], len, 7)); D(v_hash64(par[2], len, 8)); D(r); n_battery_calls += 3; }
}
static void bat_raid(void)
{
	static void *arr[12]; static const int lens[] = { 32, 96, 128, 160, 1024 };
	uint8_t *base = (uint8_t *) (((uintptr_t) bufC + 63) & ~63ul);
	for (unsigned li = 0; li < 5; li++) for (int v = 4; v <= 9; v += 5) {
		int len = lens[li]; if (tiny && len > 32) continue; for (int i = 0; i < v; i++) arr[i] = base + (size_t) i * 4160;
		T_ON(); int r1 = xor_gen(v, len, arr); int r2 = xor_check(v, len, arr); int r3 = pq_gen(v, len, arr); int r4 = pq_check(v, len, arr); T_OFF(); n_battery_calls += 4;
		D(r1); D(r2); D(r3); D(r4); D(v_hash64(arr[v - 1], len, 3)); D(v_hash64(arr[v - 2], len, 4));
		if (r1 || r2 || r3 || r4) { n_battery_fail++; v_viol("battery:raid-failed", "vects=%d len=%d returned %d %d %d %d", v, len, r1, r2, r3, r4); }
	}
}
static void bat_codec(void)
{
	static struct isal_zstream zs; static struct inflate_state is; static uint8_t lvl[ISAL_DEF_LVL3_DEFAULT] __attribute__((aligned(64)));
	static const size_t lvsz[4] = { 0, ISAL_DEF_LVL1_MIN, ISAL_DEF_LVL2_MIN, ISAL_DEF_LVL3_MIN };
	for (int kind = vopt.thorough ? 0 : 2; kind < 3; kind++) for (int level = 0; level < 4; level++) for (int mode = (kind + level) & 1; mode <= ((kind + level) & 1); mode++) {
		size_t n = kind == 2 ? (vopt.thorough ? 2000 : 700) : 500; if (tiny) n = kind == 2 ? 700 : 260; uint8_t *in = bufD; if (kind == 0) for (size_t i = 0; i < n; i++) in[i] = (uint8_t) ("the quick brown fox jumps over the lazy dog\n"[(i * 7 + i / 13) % 44]); else if (kind == 1) v_fill_tag(in, n, 5); else { for (size_t i = 0; i < n; i++) in[i] = (uint8_t) ("sphinx of black quartz, judge my vow. "[(i * 5 + i / 7) % 38] + (i / 301)); memcpy(in + n / 2, in + 40, n / 3); }
		int rc;
		T_ON();
		if (mode == 0) { isal_deflate_stateless_init(&zs); zs.level = level; zs.level_buf = level ? lvl : 0; zs.level_buf_size = (uint32_t) lvsz[level]; zs.gzip_flag = IGZIP_GZIP; zs.flush = NO_FLUSH; zs.end_of_stream = 1; zs.next_in = in; zs.avail_in = (uint32_t) n; zs.next_out = bufC; zs.avail_out = sizeof bufC; rc = isal_deflate_stateless(&zs); }
		else { isal_deflate_init(&zs); zs.level = level; zs.level_buf = level ? lvl : 0; zs.level_buf_size = (uint32_t) lvsz[level]; zs.gzip_flag = IGZIP_ZLIB; zs.next_out = bufC; zs.avail_out = sizeof bufC; zs.next_in = in; zs.avail_in = (uint32_t) (n / 2); zs.flush = SYNC_FLUSH; zs.end_of_stream = 0; rc = isal_deflate(&zs); zs.next_in = in + n / 2; zs.avail_in = (uint32_t) (n - n / 2); zs.flush = NO_FLUSH; zs.end_of_stream = 1; rc |= isal_deflate(&zs); }
		size_t cl = zs.total_out;
		isal_inflate_init(&is); is.crc_flag = mode == 0 ? ISAL_GZIP : ISAL_ZLIB; is.next_in = bufC; is.avail_in = (uint32_t) cl; is.next_out = bufE; is.avail_out = sizeof bufE; int r2 = isal_inflate(&is);
		T_OFF(); n_battery_calls += 3;
		static rinf_t ri; static rwrap_t rw; static uint8_t rout[8192]; int e = rwrap_decode(&rw, &ri, mode == 0 ? RW_GZIP : RW_ZLIB, 1, bufC, cl, rout, sizeof rout, 0, 0);
		if (rc || e || ri.outlen != n || memcmp(rout, in, n)) { n_battery_fail++; v_viol("battery:compress-roundtrip", "level %d kind %d mode %d: rc=%d reference error %d", level, kind, mode, rc, e); }
		if (r2 || is.block_state != ISAL_BLOCK_FINISH || is.total_out != n || memcmp(bufE, in, n)) { n_battery_fail++; v_viol("battery:inflate-roundtrip", "level %d kind %d mode %d: isal_inflate rc=%d state=%d", level, kind, mode, r2, is.block_state); }
		D(v_hash64(bufE, is.total_out, 9));
	}
	/* a foreign stream with dynamic + fixed + stored blocks, stateless */
	if (vopt.thorough) { z_stream z; memset(&z, 0, sizeof z); deflateInit2(&z, 6, Z_DEFLATED, -15, 8, 0); static uint8_t src[6000]; for (int i = 0; i < 6000; i++) src[i] = (uint8_t) ("abcabcabd\n0123"[(i * 5 + i / 97) % 14]); v_fill_tag(src + 3000, 400, 3);
	  z.next_in = src; z.avail_in = 2500; z.next_out = bufC; z.avail_out = sizeof bufC; deflate(&z, Z_FULL_FLUSH); deflateParams(&z, 0, 0); z.avail_in = 1000; deflate(&z, Z_SYNC_FLUSH); deflateParams(&z, 9, Z_FIXED); z.avail_in = 2500; deflate(&z, Z_FINISH); size_t cl = z.total_out; deflateEnd(&z);
	  T_ON(); isal_inflate_init(&is); is.next_in = bufC; is.avail_in = (uint32_t) cl; is.next_out = bufE; is.avail_out = sizeof bufE; int r2 = isal_inflate_stateless(&is); T_OFF(); n_battery_calls++;
	  if (r2 || is.total_out != 6000 || memcmp(bufE, src, 6000)) { n_battery_fail++; v_viol("battery:inflate-foreign", "isal_inflate_stateless rc=%d out=%u", r2, is.total_out); } D(v_hash64(bufE, is.total_out, 10)); }
	if (vopt.thorough) { static struct isal_huff_histogram hg; static struct isal_hufftables ht; memset(&hg, 0, sizeof hg); T_ON(); isal_update_histogram(bufD, 2000, &hg); int r = isal_create_hufftables(&ht, &hg); T_OFF(); n_battery_calls += 2; D(r); }
}
int main(int argc, char **argv)
{
	v_init(argc, argv);
	if (V_NDISPATCHED <= 0) v_harness_fail("no dispatched entry points in this build");
	if (refgf_init() || refcrc_selftest()) v_harness_fail("reference self-test");
	cpusim_no_interpose = 1;   /* this engine inspects and traces the slots themselves */
	cpusim_init();
	int trace = !strncmp(vopt.mode, "trace:", 6) || !strncmp(vopt.mode, "tracc:", 6), with_codec = !strncmp(vopt.mode, "tracc:", 6);
	if (!trace) {
		vrng r; vr_seed(&r, vopt.seed, 90, 0);
		long total = enumerate(enum_cb, vopt.thorough, &r);
		v_stat("configs_in_space", vopt.shard == 0 ? total : 0); v_stat("evaluations", n_cfg); v_stat("resolver_executions", n_resolved); v_stat("resolver_single_steps", cpusim_steps); v_stat("cpuid_emulated", cpusim_ncpuid); v_stat("xgetbv_emulated", cpusim_nxgetbv);
		return v_finish();
	}
	cpucfg c = { "trace", 0, 0, 0, 0, 0 };
	if (sscanf(vopt.mode + 6, "%x,%x,%x,%x,%x", &c.l1_eax, &c.l1_ecx, &c.l7_ebx, &c.l7_ecx, &c.xcr0) != 5) v_harness_fail("bad trace config");
	if (!cpusim_host_can(&c)) { printf("{\"t\":\"skip\",\"why\":\"configuration not a subset of the host CPU\"}\n"); return v_finish(); }
	v_setcase(0, "battery under cpu eax=%x c1=%08x b7=%08x c7=%08x xcr0=%x", c.l1_eax, c.l1_ecx, c.l7_ebx, c.l7_ecx, c.xcr0);
	cpusim_apply(&c); tiny = !(c.l1_ecx & C1_SSE41);
	extern char __executable_start, etext; cpusim_tr_lo = (uint64_t) &__executable_start; cpusim_tr_hi = (uint64_t) &etext; cpusim_tr_hit = calloc(1, cpusim_tr_hi - cpusim_tr_lo);
	for (int i = 0; i < 8192 + 256; i++) { bufA[i] = (uint8_t) (i * 131 + (i >> 5)); } for (size_t i = 0; i < sizeof bufC; i++) bufC[i] = (uint8_t) (i * 7 + (i >> 9));
	long s0 = cpusim_steps;
	if (V_TRY(900)) { long a = cpusim_steps; bat_crc(); long b = cpusim_steps; bat_ec(); long c2 = cpusim_steps; bat_raid(); long d = cpusim_steps; if (with_codec) bat_codec(); fprintf(stderr, "steps: crc %ld ec %ld raid %ld codec %ld\n", b - a, c2 - b, d - c2, cpusim_steps - d); V_END; }
	else { CPUSIM_TF_OFF(); v_describe_fault(); char key[200]; snprintf(key, sizeof key, "battery-fault:%s:%s", v_fault_sym(), v_fault.sig == SIGILL ? "sigill" : "other"); v_viol(key, "%s", v_fault_txt); }
	printf("{\"t\":\"trace\",\"codec\":%d,\"tiny\":%d,\"steps\":%ld,\"calls\":%ld,\"digest\":\"%016llx\",\"rips\":[", with_codec, tiny, cpusim_steps - s0, n_battery_calls, (unsigned long long) dg);
	int first = 1; for (uint64_t a = 0; a < cpusim_tr_hi - cpusim_tr_lo; a++) if (cpusim_tr_hit[a]) { printf("%s%llu", first ? "" : ",", (unsigned long long) (cpusim_tr_lo + a)); first = 0; }
	printf("]}\n");
	v_stat("evaluations", n_battery_calls);
	return v_finish();
}
