/* eng_thr.c - C15: results depend only on arguments.
 *  mode "prefill": every API scenario is run repeatedly with the context / level_buf / output buffers / output structs
 *                  pre-filled with 00, FF, A5 and random bytes, at two different addresses, and after reset / re-init
 *                  reuse histories; all observable results must be identical to the first run.
 *  mode "ro"     : (shared-library build) after a warm-up that resolves every entry point, every writable page of
 *                  libisal.so is made read-only; 16 threads with independent contexts and shared read-only inputs run the
 *                  scenarios; a write to library data faults, results must equal the serial ones.
 *  mode "threads": same multi-threaded workload without page protection (ThreadSanitizer build).
 *  mode "taint"  : (run under valgrind memcheck) the context, level buffer, output and scratch buffers are marked UNDEFINED before
 *                  every scenario; memcheck's bit-precise definedness tracking follows them through the C and assembly code (AVX2
 *                  level: valgrind's synthetic CPUID has no AVX-512) and the digest of everything observable must come out
 *                  fully defined - i.e. no bit of any result was computed from prior contents of caller memory.
 *  mode "cold"   : racing first calls: fresh child process per entry point, N threads behind a barrier. */
#define _GNU_SOURCE
#include "v.h"
#include "refgf.h"
#include "cpusim.h"
#include "visa.h"
#include "defgen.h"
#include <pthread.h>
#include <link.h>
#include <sys/wait.h>
#include <zlib.h>
#include <valgrind/memcheck.h>
#include "igzip_lib.h"
#include "crc.h"
#include "crc64.h"
#include "erasure_code.h"
#include "gf_vect_mul.h"
#include "raid.h"
#include "mem_routines.h"

#define NSC 16
/* per-thread arena: all memory a scenario hands to the library */
typedef struct { uint8_t *ctx, *lvl, *out, *aux, *aux2; size_t shift; } arena_t;
#define CTXSZ (sizeof(struct isal_zstream) + sizeof(struct inflate_state) + 4096)
#define LVLSZ (ISAL_DEF_LVL3_DEFAULT + 4096)
#define OUTSZ (1u << 18)
#define AUXSZ (1u << 18)
static const uint8_t *IN_TEXT, *IN_RAND, *IN_MIX, *IN_DICT; static size_t IN_N = 20000;   /* shared, read-only inputs */
static uint8_t *cstreams[8]; static size_t cstream_len[8];
#define NHOST 48
static uint8_t *hstreams[NHOST]; static size_t hstream_len[NHOST];                          /* shared streams with one injected grammar fault each (raw deflate) */                                 /* shared compressed streams for inflate */

static void prefill(arena_t *a, int pat, uint64_t seed)
{
	uint8_t *bufs[5] = { a->ctx, a->lvl, a->out, a->aux, a->aux2 }; size_t sz[5] = { CTXSZ, LVLSZ, OUTSZ, AUXSZ, AUXSZ };
	for (int i = 0; i < 5; i++) { if (pat == 4) { for (size_t q = 0; q + 4 <= sz[i]; q += 4) { bufs[i][q] = 9; bufs[i][q + 1] = bufs[i][q + 2] = bufs[i][q + 3] = 0; } continue; } if (pat == 3) v_fill_tag(bufs[i], sz[i] < 70000 ? sz[i] : 70000, seed + i); else memset(bufs[i], pat == 0 ? 0 : pat == 1 ? 0xff : 0xa5, sz[i]); if (pat == 3 && sz[i] > 70000) memset(bufs[i] + 70000, 0x3c, sz[i] - 70000); }
}
static uint64_t H(uint64_t h, const void *p, size_t n) { return v_hash64(p, n, h) * 31 + n; }
/* ------------------------------------------------------------------ scenarios: return a digest of everything observable */
static uint64_t sc_deflate_stateless(arena_t *a, int v)
{
	struct isal_zstream *s = (struct isal_zstream *) (a->ctx + a->shift); uint64_t h = 1; int level = v & 3, wr = (v >> 2) % 5; const uint8_t *in = (v >> 4) & 1 ? IN_MIX : IN_TEXT; size_t n = 3000 + 977 * (v % 7);
	if (v % 5 == 4) { /* a 0x00/0xFF run up to a few bytes before the end, at an address whose low bits differ from arena to arena: the bytes produced must not depend on where the input lies */
		uint8_t *ib = a->aux2 + a->shift + ((a->shift / 64) & 7) + (((uintptr_t) a->aux2 >> 12) & 7); size_t n2 = 64 + (size_t) (v % 50) * 9; memset(ib, (v & 1) ? 0xff : 0, n2); int tl = (v / 5) % 8; for (int i = 0; i < tl; i++) ib[n2 - 1 - i] = (uint8_t) (0x31 + i); in = ib; n = n2; }
	isal_deflate_stateless_init(s); s->level = level; s->level_buf = level ? a->lvl + a->shift : NULL; s->level_buf_size = level ? ISAL_DEF_LVL3_DEFAULT : 0; s->gzip_flag = wr; s->flush = NO_FLUSH; s->end_of_stream = 1;
	s->next_in = (uint8_t *) in; s->avail_in = (uint32_t) n; s->next_out = a->out + a->shift; s->avail_out = OUTSZ - 256;
	int rc = isal_deflate_stateless(s); h = H(h, &rc, 4); h = H(h, &s->total_out, 4); h = H(h, a->out + a->shift, s->total_out); h = H(h, &s->total_in, 4); return h;
}
static uint64_t sc_deflate_stream(arena_t *a, int v)
{
	struct isal_zstream *s = (struct isal_zstream *) (a->ctx + a->shift); uint64_t h = 2; int level = v & 3, wr = (v >> 2) % 5; const uint8_t *in = (v >> 4) & 1 ? IN_MIX : IN_TEXT; size_t n = 2000 + 1371 * (v % 9), off = 0; vrng r; vr_seed(&r, 99, 1, v);
	isal_deflate_init(s); s->level = level; s->level_buf = level ? a->lvl + a->shift : NULL; s->level_buf_size = level ? ISAL_DEF_LVL3_DEFAULT : 0; s->gzip_flag = wr; s->hist_bits = (v % 3) ? 0 : 9 + v % 7;
	uint8_t *out = a->out + a->shift; size_t tot = 0; int guard = 0;
	do { size_t c = off < n ? 1 + vrn(&r, (uint32_t) (n - off)) : 0; s->next_in = (uint8_t *) in + off; s->avail_in = (uint32_t) c; off += c; s->end_of_stream = off == n; s->flush = (uint16_t) (vrn(&r, 3) ? NO_FLUSH : 1 + vrn(&r, 2));
		do { size_t oc = 1 + vrn(&r, 600); s->next_out = out + tot; s->avail_out = (uint32_t) oc; int rc = isal_deflate(s); h = H(h, &rc, 4); tot += oc - s->avail_out; } while ((s->avail_in || s->avail_out == 0) && ++guard < 200000);
	} while (s->internal_state.state != ZSTATE_END && ++guard < 200000);
	h = H(h, out, tot); h = H(h, &s->total_out, 4); return h;
}
static uint64_t sc_inflate(arena_t *a, int v)
{
	struct inflate_state *s = (struct inflate_state *) (a->ctx + a->shift); uint64_t h = 3; int k = v % 8; uint8_t *out = a->out + a->shift;
	isal_inflate_init(s); s->crc_flag = k % 3 == 0 ? ISAL_DEFLATE : k % 3 == 1 ? ISAL_GZIP : ISAL_ZLIB;
	if (v & 8) { s->next_in = cstreams[k]; s->avail_in = (uint32_t) cstream_len[k]; s->next_out = out; s->avail_out = OUTSZ - 256; int rc = isal_inflate_stateless(s); h = H(h, &rc, 4); h = H(h, out, s->total_out); h = H(h, &s->crc, 4); return h; }
	size_t off = 0, tot = 0; vrng r; vr_seed(&r, 98, 1, v); int guard = 0;
	while (s->block_state != ISAL_BLOCK_FINISH && ++guard < 200000) { if (!s->avail_in && off < cstream_len[k]) { size_t c = 1 + vrn(&r, 400); if (c > cstream_len[k] - off) c = cstream_len[k] - off; s->next_in = cstreams[k] + off; s->avail_in = (uint32_t) c; off += c; } size_t oc = 1 + vrn(&r, 3000); s->next_out = out + tot; s->avail_out = (uint32_t) oc; int rc = isal_inflate(s); h = H(h, &rc, 4); tot += oc - s->avail_out; if (rc < 0) break; if (!s->avail_in && off >= cstream_len[k] && s->avail_out) break; }
	h = H(h, out, tot); h = H(h, &s->crc, 4); h = H(h, &s->block_state, 4); return h;
}
/* streams with an injected fault (undefined code words of incomplete sets, over-subscribed sets, far distances, ...): what the decoder makes of
 * them - status, bytes delivered - must not depend on what the inflate_state held before either (stale decode-table entries) */
static uint64_t sc_inflate_hostile(arena_t *a, int v)
{
	struct inflate_state *s = (struct inflate_state *) (a->ctx + a->shift); uint64_t h = 15; int k = v % NHOST; uint8_t *out = a->out + a->shift;
	isal_inflate_init(s); s->crc_flag = ISAL_DEFLATE;
	if (v < NHOST) { s->next_in = hstreams[k]; s->avail_in = (uint32_t) hstream_len[k]; s->next_out = out; s->avail_out = OUTSZ - 256; int rc = isal_inflate_stateless(s); uint32_t w = (OUTSZ - 256) - s->avail_out; h = H(h, &rc, 4); if (rc >= 0) { h = H(h, &w, 4); h = H(h, out, w); } /* after an error return the position fields and whatever a kernel wrote speculatively are not output */ return h; }
	size_t off = 0, tot = 0; vrng r; vr_seed(&r, 97, 1, v); int guard = 0, rc = 0;
	while (s->block_state != ISAL_BLOCK_FINISH && ++guard < 200000) { if (!s->avail_in) { if (off >= hstream_len[k]) break; size_t c = 1 + vrn(&r, 600); if (c > hstream_len[k] - off) c = hstream_len[k] - off; s->next_in = hstreams[k] + off; s->avail_in = (uint32_t) c; off += c; }
		size_t oc = 1 + vrn(&r, 3000); if (tot + oc > OUTSZ - 256) break; s->next_out = out + tot; s->avail_out = (uint32_t) oc; rc = isal_inflate(s); h = H(h, &rc, 4); if (rc < 0) break; tot += oc - s->avail_out; }
	h = H(h, out, tot); h = H(h, &tot, sizeof tot); return h;
}
static uint64_t sc_hufftables(arena_t *a, int v)
{
	struct isal_huff_histogram *hg = (struct isal_huff_histogram *) (a->aux + a->shift); struct isal_hufftables *ht = (struct isal_hufftables *) (a->aux2 + a->shift); uint64_t h = 4;
	memset(hg, 0, sizeof *hg); isal_update_histogram((uint8_t *) (v & 1 ? IN_TEXT : IN_MIX), 4000 + 100 * (v % 20), hg); h = H(h, hg->lit_len_histogram, sizeof hg->lit_len_histogram); h = H(h, hg->dist_histogram, sizeof hg->dist_histogram);
	int rc = v & 2 ? isal_create_hufftables_subset(ht, hg) : isal_create_hufftables(ht, hg); h = H(h, &rc, 4); h = H(h, ht, sizeof *ht);
	struct isal_zstream *s = (struct isal_zstream *) (a->ctx + a->shift); isal_deflate_stateless_init(s); s->hufftables = ht; s->end_of_stream = 1; s->next_in = (uint8_t *) IN_TEXT; s->avail_in = 3000; s->next_out = a->out + a->shift; s->avail_out = OUTSZ - 256; rc = isal_deflate_stateless(s); h = H(h, &rc, 4); h = H(h, a->out + a->shift, s->total_out); return h;
}
static uint64_t sc_dict(arena_t *a, int v)
{
	struct isal_zstream *s = (struct isal_zstream *) (a->ctx + a->shift); struct isal_dict *d = (struct isal_dict *) (a->aux + a->shift); uint64_t h = 5; int level = v & 3;
	isal_deflate_init(s); s->level = level; s->level_buf = level ? a->lvl + a->shift : NULL; s->level_buf_size = level ? ISAL_DEF_LVL3_DEFAULT : 0;
	int rc = v & 4 ? isal_deflate_set_dict(s, (uint8_t *) IN_DICT, 3000 + 100 * (v % 30)) : isal_deflate_process_dict(s, d, (uint8_t *) IN_DICT, 3000 + 100 * (v % 30)); h = H(h, &rc, 4);
	if (!(v & 4) && rc == 0) { rc = isal_deflate_reset_dict(s, d); h = H(h, &rc, 4); }
	s->next_in = (uint8_t *) IN_DICT + 500; s->avail_in = 6000; s->end_of_stream = 1; s->next_out = a->out + a->shift; s->avail_out = OUTSZ - 256; rc = isal_deflate(s); h = H(h, &rc, 4); h = H(h, a->out + a->shift, s->total_out); return h;
}
static uint64_t sc_ec(arena_t *a, int v)
{
	uint64_t h = 6; int k = 3 + v % 6, rows = 1 + v % 7, len = 64 + 37 * (v % 23); uint8_t *coef = a->aux + a->shift, *tbl = a->aux + 4096 + a->shift, *src[10], *dst[8];
	gf_gen_cauchy1_matrix(coef, k + rows, k); h = H(h, coef, (size_t) (k + rows) * k);
	ec_init_tables(k, rows, coef + k * k, tbl);   /* the table bytes themselves are not compared: the GFNI form defines only 8 of the 32 bytes per coefficient */
	for (int j = 0; j < k; j++) src[j] = (uint8_t *) IN_RAND + 1024 * j; for (int i = 0; i < rows; i++) dst[i] = a->out + a->shift + 2048 * i;
	ec_encode_data(len, k, rows, tbl, src, dst); for (int i = 0; i < rows; i++) h = H(h, dst[i], len);
	for (int i = 0; i < rows; i++) memset(dst[i], 0, len); for (int j = 0; j < k; j++) ec_encode_data_update(len, k, rows, j, tbl, src[j], dst); for (int i = 0; i < rows; i++) h = H(h, dst[i], len);
	uint8_t *m = a->aux2 + a->shift, *inv = a->aux2 + 2048 + a->shift; for (int i = 0; i < k * k; i++) m[i] = coef[(i / k + (i / k >= k - 1 ? rows - 1 : 0)) * k + i % k]; int rc = gf_invert_matrix(m, inv, k); h = H(h, &rc, 4); if (!rc) h = H(h, inv, (size_t) k * k);
	uint8_t *t32 = a->aux2 + 8192 + a->shift; gf_vect_mul_init((uint8_t) (v * 7 + 1), t32); h = H(h, t32, 32); rc = gf_vect_mul(len & ~31, t32, (void *) (IN_RAND + 64), a->out + a->shift + 32768); h = H(h, &rc, 4); h = H(h, a->out + a->shift + 32768, len & ~31);
	return h;
}
static uint64_t sc_crc(arena_t *a, int v)
{
	uint64_t h = 7; const uint8_t *p = IN_RAND + (v % 13); uint64_t n = 100 + 331 * (v % 17); uint64_t r[16];
	r[0] = crc16_t10dif(1, p, n); r[1] = crc16_t10dif_copy(1, a->out + a->shift, (uint8_t *) p, n); r[2] = crc32_ieee(1, p, n); r[3] = crc32_gzip_refl(1, p, n); r[4] = crc32_iscsi((unsigned char *) p, (int) n, 1);
	r[5] = crc64_ecma_refl(1, p, n); r[6] = crc64_ecma_norm(1, p, n); r[7] = crc64_iso_refl(1, p, n); r[8] = crc64_iso_norm(1, p, n); r[9] = crc64_jones_refl(1, p, n); r[10] = crc64_jones_norm(1, p, n); r[11] = crc64_rocksoft_refl(1, p, n); r[12] = crc64_rocksoft_norm(1, p, n);
	r[13] = isal_adler32(1, p, n); r[14] = isal_zero_detect((void *) p, n) != 0; r[15] = isal_zero_detect(a->aux + a->shift, 0) != 0; h = H(h, r, sizeof r); h = H(h, a->out + a->shift, n); return h;
}
static uint64_t sc_raid(arena_t *a, int v)
{
	uint64_t h = 8; void *arr[10]; int vects = 4 + v % 5, len = 32 * (1 + v % 40); uint8_t *base = (uint8_t *) (((uintptr_t) a->out + 63) & ~63ul);
	for (int i = 0; i < vects - 2; i++) arr[i] = (void *) (((uintptr_t) IN_RAND + 63 + 2048 * i) & ~63ul); arr[vects - 2] = base; arr[vects - 1] = base + 4096;
	int r1 = pq_gen(vects, len, arr), r2 = pq_check(vects, len, arr); h = H(h, base, len); h = H(h, base + 4096, len); arr[vects - 2] = base + 8192; int r3 = xor_gen(vects - 1, len, arr), r4 = xor_check(vects - 1, len, arr); h = H(h, base + 8192, len);
	int rr[4] = { r1, r2, r3, r4 }; h = H(h, rr, sizeof rr); return h;
}
static uint64_t sc_headers(arena_t *a, int v)
{
	uint64_t h = 9; struct isal_zstream *s = (struct isal_zstream *) (a->ctx + a->shift); struct isal_gzip_header *g = (struct isal_gzip_header *) (a->aux + a->shift); struct isal_zlib_header *z = (struct isal_zlib_header *) (a->aux + 1024 + a->shift);
	isal_deflate_init(s); isal_gzip_header_init(g); g->time = 0x01020304 + v; g->os = 3; g->name = (char *) "file.bin"; g->name_buf_len = 9; g->hcrc = v & 1; s->next_out = a->out + a->shift; s->avail_out = 4096;
	uint32_t rc = isal_write_gzip_header(s, g); h = H(h, &rc, 4); size_t hl = s->total_out; h = H(h, a->out + a->shift, hl);
	isal_zlib_header_init(z); z->info = v % 8; z->level = v % 4; z->dict_flag = v & 1; z->dict_id = 0xa1b2c3d4; rc = isal_write_zlib_header(s, z); h = H(h, &rc, 4); h = H(h, a->out + a->shift + hl, s->total_out - hl);
	struct inflate_state *is = (struct inflate_state *) (a->ctx + sizeof(struct isal_zstream) + 64 + a->shift); struct isal_gzip_header *g2 = (struct isal_gzip_header *) (a->aux2 + a->shift); char *nb = (char *) a->aux2 + 2048 + a->shift;
	isal_inflate_init(is); isal_gzip_header_init(g2); g2->name = nb; g2->name_buf_len = 64; is->next_in = a->out + a->shift; is->avail_in = (uint32_t) hl; int r2 = isal_read_gzip_header(is, g2); h = H(h, &r2, 4); h = H(h, &g2->time, 4); h = H(h, &g2->os, 4); h = H(h, nb, 9); h = H(h, &g2->hcrc, 0);
	return h;
}
/* a histogram struct used for two consecutive chunks (documented multi-buffer use): the counts must not depend on where the chunks live */
static uint64_t sc_histogram_reuse(arena_t *a, int v)
{
	/* first chunk > 32 KiB of data with a short period, second chunk continuing it: a position left in the struct's scratch hash table by
	 * the first call would, in the second call, look back in front of the second chunk - where the first chunk is (arena 0) or is not (arena 1) */
	struct isal_huff_histogram *hg = (struct isal_huff_histogram *) (a->aux + a->shift); uint64_t h = 12; int P = 256 << (v & 3); size_t la = 65536 - 2048 * (size_t) (2 + (v >> 2) % 6), lb = 1500 + 173 * (size_t) (v % 13);
	uint8_t *ca = a->out + 1024 + a->shift, *cb = a->shift ? a->aux2 + 40000 + a->shift : ca + la;
	if (v & 16) { memcpy(ca, IN_TEXT, la); memcpy(cb, IN_TEXT + la, lb); } else { for (size_t i = 0; i < la; i++) ca[i] = IN_RAND[(i % P) + 2100 * (v % 29)]; for (size_t i = 0; i < lb; i++) cb[i] = IN_RAND[((la + i) % P) + 2100 * (v % 29)]; }
	memset(hg, 0, sizeof *hg); isal_update_histogram(ca, (int) la, hg);
	if (v & 32) memset(hg->hash_table, a->lvl[3], sizeof hg->hash_table);   /* 'Tmp space used as a hash table': what a call leaves there must not matter to the next */
	isal_update_histogram(cb, (int) lb, hg);
	h = H(h, hg->lit_len_histogram, sizeof hg->lit_len_histogram); h = H(h, hg->dist_histogram, sizeof hg->dist_histogram); return h;
}
/* reuse histories: a context that was used, then reset / re-initialised, must behave like a fresh one */
static uint64_t run_stream_once(struct isal_zstream *s, arena_t *a, int level, int wr, const uint8_t *in, size_t n, int set_user_fields)
{
	uint64_t h = 10;
	if (set_user_fields) { s->level = level; s->level_buf = level ? a->lvl + a->shift : NULL; s->level_buf_size = level ? ISAL_DEF_LVL3_DEFAULT : 0; s->gzip_flag = wr; s->flush = NO_FLUSH; }
	s->next_in = (uint8_t *) in; s->avail_in = (uint32_t) n; s->end_of_stream = 1; s->next_out = a->out + a->shift; s->avail_out = OUTSZ - 256;
	int rc = isal_deflate(s); h = H(h, &rc, 4); h = H(h, a->out + a->shift, s->total_out); h = H(h, &s->total_out, 4); return h;
}
static uint64_t sc_reuse(arena_t *a, int v)
{
	/* variant bits: 0-1 level, 2-3 wrapper(0,1,3), 4-5 history kind (0 fresh, 1 A;reset;B keeping user fields, 2 A;reset;B re-setting user fields, 3 A;init;B) */
	struct isal_zstream *s = (struct isal_zstream *) (a->ctx + a->shift); int level = v & 3, wr = (int[]){ 0, 1, 3, 1 }[(v >> 2) & 3], hist = (v >> 4) & 3;
	isal_deflate_init(s);
	if (hist) { run_stream_once(s, a, level, wr, IN_MIX, 5000, 1); if (hist == 3) isal_deflate_init(s); else isal_deflate_reset(s); }
	return run_stream_once(s, a, level, wr, IN_TEXT, 7000, hist != 1);
}
static uint64_t sc_reuse_inflate(arena_t *a, int v)
{
	struct inflate_state *s = (struct inflate_state *) (a->ctx + a->shift); int k = v % 8, hist = (v >> 3) & 3; uint64_t h = 11; uint8_t *out = a->out + a->shift;
	isal_inflate_init(s);
	if (hist) { s->crc_flag = (k + 1) % 3 == 0 ? ISAL_DEFLATE : (k + 1) % 3 == 1 ? ISAL_GZIP : ISAL_ZLIB; s->hist_bits = hist == 2 ? 9 : 0; s->next_in = cstreams[(k + 1) % 8]; s->avail_in = (uint32_t) cstream_len[(k + 1) % 8] / (hist == 1 ? 2 : 1); s->next_out = out; s->avail_out = OUTSZ - 256; isal_inflate(s); if (hist == 3) isal_inflate_init(s); else isal_inflate_reset(s); }
	s->crc_flag = k % 3 == 0 ? ISAL_DEFLATE : k % 3 == 1 ? ISAL_GZIP : ISAL_ZLIB; if (hist == 1 || hist == 2) s->hist_bits = 0;   /* after reset the caller re-states its fields; after init (fresh or re-init) it relies on init */
	s->next_in = cstreams[k]; s->avail_in = (uint32_t) cstream_len[k]; s->next_out = out; s->avail_out = OUTSZ - 256; int rc = isal_inflate(s); h = H(h, &rc, 4); h = H(h, out, s->total_out); h = H(h, &s->block_state, 4); h = H(h, &s->crc, 4); return h;
}
typedef uint64_t (*scen_fn)(arena_t *, int);
static struct { const char *name; scen_fn fn; int nvar; int group_mask; /* variants are compared within (v & ~group_mask)==const groups: 0 = each variant only with itself */ } SC[] = {
	{ "deflate_stateless", sc_deflate_stateless, 160, 0 }, { "deflate_streaming", sc_deflate_stream, 160, 0 }, { "inflate", sc_inflate, 16, 0 }, { "inflate_hostile", sc_inflate_hostile, 2 * NHOST, 0 }, { "hufftables", sc_hufftables, 40, 0 }, { "dictionary", sc_dict, 64, 0 },
	{ "erasure_code", sc_ec, 60, 0 }, { "checksums_zero_detect", sc_crc, 60, 0 }, { "raid", sc_raid, 60, 0 }, { "headers", sc_headers, 16, 0 }, { "histogram_reuse", sc_histogram_reuse, 64, 0 }, { "reuse_deflate", sc_reuse, 64, 0x30 }, { "reuse_inflate", sc_reuse_inflate, 32, 0x18 },
};
#define NSCEN ((int) (sizeof SC / sizeof SC[0]))
static arena_t new_arena(void)
{
	arena_t a; a.ctx = mmap(0, CTXSZ + 8192, PROT_READ | PROT_WRITE, MAP_PRIVATE | MAP_ANONYMOUS, -1, 0); a.lvl = mmap(0, LVLSZ + 8192, PROT_READ | PROT_WRITE, MAP_PRIVATE | MAP_ANONYMOUS, -1, 0);
	a.out = mmap(0, OUTSZ + 8192, PROT_READ | PROT_WRITE, MAP_PRIVATE | MAP_ANONYMOUS, -1, 0); a.aux = mmap(0, AUXSZ + 8192, PROT_READ | PROT_WRITE, MAP_PRIVATE | MAP_ANONYMOUS, -1, 0); a.aux2 = mmap(0, AUXSZ + 8192, PROT_READ | PROT_WRITE, MAP_PRIVATE | MAP_ANONYMOUS, -1, 0); a.shift = 0;
	if (a.ctx == MAP_FAILED || a.lvl == MAP_FAILED || a.out == MAP_FAILED || a.aux == MAP_FAILED || a.aux2 == MAP_FAILED) v_harness_fail("arena"); return a;
}
static void make_inputs(void)
{
	uint8_t *t = mmap(0, 4 * 65536, PROT_READ | PROT_WRITE, MAP_PRIVATE | MAP_ANONYMOUS, -1, 0); vrng r; vr_seed(&r, 12345, 0, 0);
	static const char *w[] = { "storage ", "parity ", "block ", "deflate ", "window ", "\n", "0000", "checksum " };
	size_t o = 0; while (o < 65536) { const char *s = w[vrn(&r, 8)]; for (; *s && o < 65536; s++) t[o++] = (uint8_t) *s; } vr_fill(&r, t + 65536, 65536);
	for (size_t i = 0; i < 65536; i++) t[131072 + i] = (i / 700) & 1 ? t[i] : t[65536 + i]; memcpy(t + 131072 + 40000, t + 131072 + 100, 9000);
	memcpy(t + 196608, t + 300, 65536 - 300); IN_TEXT = t; IN_RAND = t + 65536; IN_MIX = t + 131072; IN_DICT = t + 196608;
	/* compressed streams for the inflate scenarios: made with zlib so that this process has not touched the library yet */
	for (int k = 0; k < 8; k++) { cstreams[k] = mmap(0, 65536, PROT_READ | PROT_WRITE, MAP_PRIVATE | MAP_ANONYMOUS, -1, 0); z_stream z; memset(&z, 0, sizeof z); if (deflateInit2(&z, 1 + k, Z_DEFLATED, k % 3 == 0 ? -15 : k % 3 == 1 ? 31 : 15, 8, k == 5 ? Z_FIXED : Z_DEFAULT_STRATEGY) != Z_OK) v_harness_fail("zlib"); z.next_in = (Bytef *) (k & 1 ? IN_MIX : IN_TEXT); z.avail_in = 9000 + 1000 * k; z.next_out = cstreams[k]; z.avail_out = 65536; if (deflate(&z, Z_FINISH) != Z_STREAM_END) v_harness_fail("zlib deflate"); cstream_len[k] = z.total_out; deflateEnd(&z); mprotect(cstreams[k], 65536, PROT_READ); }
	mprotect(t, 4 * 65536, PROT_READ);
	{ static const int pref[] = { DGF_UNASSIGNED_DIST, DGF_UNASSIGNED, DGF_UNASSIGNED_DIST, DGF_NODIST_MATCH, DGF_UNASSIGNED, DGF_BAD_DISTSYM };
	  uint8_t *exp = malloc(70000); uint8_t *pool = mmap(0, (size_t) NHOST * 65536, PROT_READ | PROT_WRITE, MAP_PRIVATE | MAP_ANONYMOUS, -1, 0); uint8_t *tmp = malloc(200000);
	  for (int i = 0; i < NHOST; i++) { defgen_t g; memset(&g, 0, sizeof g); vrng r2; vr_seed(&r2, 4242, 7, i); g.fault = i % 2 ? pref[(i / 2) % 6] : 1 + (i / 2) % (DGF_NFAULTS - 1); g.max_blocks = 3; g.want_deep = i % 3 == 0;
		size_t n = defgen(&g, &r2, tmp, 200000, exp, 30000); if (n > 65000) n = 65000; hstreams[i] = pool + (size_t) i * 65536; memcpy(hstreams[i], tmp, n); hstream_len[i] = n; }
	  mprotect(pool, (size_t) NHOST * 65536, PROT_READ); free(exp); free(tmp); }
}
/* ------------------------------------------------------------------ prefill / address / reuse differential */
static long st_runs, st_scen[NSCEN], st_faults;
static void mode_prefill(void)
{
	arena_t a = new_arena(), b = new_arena();
	long reps = vopt.thorough ? 12 : 2;
	{ const char *lv = strchr(vopt.mode, ':');   /* "prefill:<cpu level>": the dispatcher outcome of a lesser CPU (the _01/_02/_04 codec kernels, sse/avx/avx2 kernels) */
	  if (lv && strcmp(lv + 1, "native")) { const cpucfg *c = cpusim_find(lv + 1); if (!c) v_harness_fail("unknown cpu level %s", lv + 1); if (!cpusim_host_can(c)) { v_set("cpu_levels_skipped", lv + 1); v_stat("evaluations", 1); return; } cpusim_apply(c); v_set("prefill_cpu_levels", lv + 1); } else v_set("prefill_cpu_levels", "native"); }
	for (long rep = 0; rep < reps; rep++) for (int sc = 0; sc < NSCEN; sc++) for (int v = 0; v < SC[sc].nvar; v++) {
		long idx = (rep * NSCEN + sc) * 1000 + v; if (!v_mine(idx)) continue;
		int vv = v + (int) (rep * 7);   /* later repetitions shift the variant parameters */
		if (SC[sc].group_mask) vv = v;
		uint64_t ref = 0; int have = 0;
		for (int pat = 0; pat < 5; pat++) for (int where = 0; where < 2; where++) {
			arena_t *ar = where ? &b : &a; ar->shift = where ? 64 * (1 + (idx % 37)) : 0;
			prefill(ar, pat, vopt.seed * 1000 + idx);
			v_setcase(idx, "scenario %s variant %d prefill=%s arena=%d shift=%zu", SC[sc].name, vv, pat == 0 ? "00" : pat == 1 ? "FF" : pat == 2 ? "A5" : pat == 3 ? "random" : "words=9", where, ar->shift);
			uint64_t d;
			if (V_TRY(20)) { d = SC[sc].fn(ar, vv); V_END; } else { v_describe_fault(); char key[200]; snprintf(key, sizeof key, "fault:%s:%s", SC[sc].name, v_fault_sym()); v_viol(key, "%s", v_fault_txt); if (++st_faults >= 3) goto done; continue; }
			st_runs++; st_scen[sc]++;
			if (!have) { ref = d; have = 1; }
			else if (d != ref) { char key[200]; snprintf(key, sizeof key, "depends-on-%s:%s", where && pat == 0 ? "address" : "prior-contents", SC[sc].name); v_viol(key, "result digest %016llx differs from the first run %016llx (first run: zero-filled arena 0)", (unsigned long long) d, (unsigned long long) ref); break; }
		}
		/* reuse groups: all history kinds of the same (level, wrapper, ...) must agree with the fresh one */
		if (SC[sc].group_mask && (v & SC[sc].group_mask) == 0) {
			a.shift = 0; prefill(&a, 0, 1); uint64_t fresh = 0; int okf = 0;
			if (V_TRY(20)) { fresh = SC[sc].fn(&a, v); okf = 1; V_END; }
			for (int hk = 1; okf && hk < 4; hk++) { int v2 = v | (SC[sc].group_mask & (hk * (SC[sc].group_mask & -SC[sc].group_mask))); if (v2 >= SC[sc].nvar) continue; prefill(&a, 0, 1); uint64_t d = 0;
				v_setcase(idx, "scenario %s variant %d vs fresh variant %d (history kind %d: 1 = use,reset,reuse keeping user fields; 2 = use,reset,re-set user fields; 3 = use,init,reuse)", SC[sc].name, v2, v, hk);
				if (V_TRY(20)) { d = SC[sc].fn(&a, v2); V_END; } else continue; st_runs++;
				if (d != fresh) { char key[200]; snprintf(key, sizeof key, "reused-context-differs:%s:history%d", SC[sc].name, hk); v_viol(key, "a context that was used and then %s does not behave like a fresh one", hk == 3 ? "re-initialised" : "reset"); } }
		}
		v_distinct(v_hash64(&idx, 8, sc));
		if (v_nsamples < 3 && have) v_sample("%s -> 10 runs (5 prefills x 2 addresses) gave digest %016llx", v_case, (unsigned long long) ref);
	}
done:
	for (int sc = 0; sc < NSCEN; sc++) v_count("scenario_runs", SC[sc].name, st_scen[sc]);
	v_stat("evaluations", st_runs);
}
/* ------------------------------------------------------------------ definedness (taint) tracking under valgrind memcheck */
static void mode_taint(void)
{
	if (!RUNNING_ON_VALGRIND) v_harness_fail("mode taint must run under valgrind memcheck");
	arena_t a = new_arena(); long runs = 0, undefined_bytes_marked = 0; int stride = vopt.thorough ? 1 : 4;
	/* self-test of the monitor: a digest that does include an undefined byte must be reported as undefined */
	{ uint8_t probe[64]; memset(probe, 1, sizeof probe); VALGRIND_MAKE_MEM_UNDEFINED(probe + 17, 1); uint64_t d = H(7, probe, sizeof probe); if (!VALGRIND_CHECK_VALUE_IS_DEFINED(d)) v_harness_fail("memcheck did not flag a digest over an undefined byte"); v_stat("monitor_selftest_flagged", 1); }
	for (int sc = 0; sc < NSCEN; sc++) for (int v = 0; v < SC[sc].nvar; v++) {
		long idx = sc * 1000 + v; if ((v + sc + vopt.seed) % stride || !v_mine(idx)) continue;
		a.shift = 64 * (idx % 23); prefill(&a, 3, vopt.seed * 77 + idx);
		{ uint8_t *bufs[5] = { a.ctx, a.lvl, a.out, a.aux, a.aux2 }; size_t sz[5] = { CTXSZ, LVLSZ, OUTSZ, AUXSZ, AUXSZ }; for (int i = 0; i < 5; i++) { VALGRIND_MAKE_MEM_UNDEFINED(bufs[i], sz[i]); undefined_bytes_marked += sz[i]; } }
		v_setcase(idx, "scenario %s variant %d, all caller-provided memory (context, level_buf, output, scratch) marked undefined for memcheck", SC[sc].name, v);
		uint64_t d;
		if (V_TRY(600)) { d = SC[sc].fn(&a, v); V_END; } else { v_describe_fault(); char key[200]; snprintf(key, sizeof key, "fault:%s:%s", SC[sc].name, v_fault_sym()); v_viol(key, "%s", v_fault_txt); continue; }
		runs++; st_scen[sc]++;
		if (VALGRIND_CHECK_VALUE_IS_DEFINED(d)) { char key[200]; snprintf(key, sizeof key, "depends-on-undefined-memory:%s", SC[sc].name); VALGRIND_MAKE_MEM_DEFINED(&d, 8); v_viol(key, "memcheck: some bit of the result digest (%016llx) was computed from memory the caller never initialised", (unsigned long long) d); }
		v_distinct(v_hash64(&idx, 8, 77));
		if (v_nsamples < 2) v_sample("%s -> digest fully defined under memcheck with %zu bytes of caller memory undefined", v_case, (size_t) (CTXSZ + LVLSZ + OUTSZ + 2 * AUXSZ));
	}
	for (int sc = 0; sc < NSCEN; sc++) v_count("taint_scenario_runs", SC[sc].name, st_scen[sc]);
	v_stat("evaluations", runs); v_stat("taint_runs", runs); v_stat("bytes_marked_undefined", undefined_bytes_marked);
}
/* ------------------------------------------------------------------ threads / read-only library pages */
static uint64_t serial_digest[16][NSC][200]; static volatile int thr_mismatch; static int have_baseline;
static struct { uintptr_t lo, hi; } ro_ranges[64]; static int n_ro; static long ro_pages;
static int phdr_cb(struct dl_phdr_info *info, size_t size, void *data)
{
	if (!info->dlpi_name || !strstr(info->dlpi_name, "libisal")) return 0;
	for (int i = 0; i < info->dlpi_phnum; i++) { const ElfW(Phdr) *p = &info->dlpi_phdr[i]; if (p->p_type == PT_LOAD && (p->p_flags & PF_W)) { uintptr_t lo = (info->dlpi_addr + p->p_vaddr) & ~(V_PAGE - 1), hi = (info->dlpi_addr + p->p_vaddr + p->p_memsz + V_PAGE - 1) & ~(V_PAGE - 1); if (n_ro < 64) { ro_ranges[n_ro].lo = lo; ro_ranges[n_ro].hi = hi; n_ro++; ro_pages += (long) ((hi - lo) / V_PAGE); } } }
	*(int *) data = 1; return 0;
}
static void ro_protect(int on) { for (int i = 0; i < n_ro; i++) if (mprotect((void *) ro_ranges[i].lo, ro_ranges[i].hi - ro_ranges[i].lo, on ? PROT_READ : PROT_READ | PROT_WRITE)) v_harness_fail("mprotect library data: %s", strerror(errno)); }
static void ro_fault(int sig, siginfo_t *si, void *uc_)
{
	ucontext_t *uc = uc_; uintptr_t a = (uintptr_t) si->si_addr; int inlib = 0; for (int i = 0; i < n_ro; i++) if (a >= ro_ranges[i].lo && a < ro_ranges[i].hi) inlib = 1;
	Dl_info di; const char *sym = "?"; if (dladdr(si->si_addr, &di) && di.dli_sname) sym = di.dli_sname; Dl_info dr; const char *rs = "?"; if (dladdr((void *) uc->uc_mcontext.gregs[REG_RIP], &dr) && dr.dli_sname) rs = dr.dli_sname;
	char b[400]; int n = snprintf(b, sizeof b, "{\"t\":\"viol\",\"prop\":\"C15\",\"key\":\"%s:%s\",\"msg\":\"signal %d: write to %s at %p (nearest symbol %s) from %s after warm-up\",\"idx\":-1,\"case\":\"multi-threaded workload with library data pages read-only\"}\n{\"t\":\"done\"}\n", inlib ? "write-to-library-data" : "fault-in-threaded-run", inlib ? sym : rs, sig, inlib ? "library-owned data" : "memory", si->si_addr, sym, rs);
	if (write(1, b, n) < 0) { }
	_exit(0);
}
typedef struct { int id; arena_t a; long runs; } thr_arg;
static void thr_work(thr_arg *t, int baseline)
{
	int reps = baseline ? 1 : (vopt.thorough ? 6 : 1);
	for (int rep = 0; rep < reps; rep++) for (int sc = 0; sc < NSCEN; sc++) for (int v = have_baseline ? t->id % 3 : 0; v < SC[sc].nvar && v < 200; v += 3) {
		prefill(&t->a, (t->id + v) % 4, t->id * 1000 + v); t->a.shift = 64 * ((t->id * 5 + v) % 29);
		uint64_t d = SC[sc].fn(&t->a, v);
		if (baseline) { serial_digest[t->id][sc][v] = d; continue; }
		if (!have_baseline) { serial_digest[t->id][sc][v] = d; t->runs++; continue; }
		t->runs++;
		if (d != serial_digest[t->id][sc][v]) { thr_mismatch = 1; char key[200], msg[200]; snprintf(key, sizeof key, "threaded-result-differs:%s", SC[sc].name); snprintf(msg, sizeof msg, "thread %d scenario %s variant %d: digest differs from the serial result computed with the same arguments and buffers", t->id, SC[sc].name, v); flockfile(stdout); v_setcase(v, "thread %d", t->id); v_viol(key, "%s", msg); funlockfile(stdout); return; }
	}
}
static void *thr_main(void *p) { thr_work(p, 0); return 0; }
/* run every resolver directly (stub -> slot -> mbinit -> <fn>_dispatch_init) so that all entry points are resolved before any API
 * call has been made: a lazily initialised library static is then written under page protection */
static long resolve_all_slots(void)
{
	long n = 0;
#define X(s) { uint8_t *st = dlsym(RTLD_DEFAULT, #s); if (st) { if (memcmp(st, "\xf3\x0f\x1e\xfa\xff\x25", 6)) v_harness_fail("stub of %s has unexpected layout", #s); int32_t d; memcpy(&d, st + 6, 4); void **slot = (void **) (st + 10 + d); uint8_t *mb = *slot; if (!memcmp(mb, "\xf3\x0f\x1e\xfa\xe8", 5)) { int32_t rel; memcpy(&rel, mb + 5, 4); ((void (*)(void)) (mb + 9 + rel))(); n++; } } }
	V_DISPATCHED_LIST(X)
#undef X
	return n;
}
/* every exported checksum / RAID / zero-detect kernel variant called directly with short and medium lengths (under page protection) */
#define X(s, n, isa) extern char ksym_##s[] __asm__(#s);
V_CRC16_LIST(X) V_CRC16COPY_LIST(X) V_CRC32IEEE_LIST(X) V_CRC32GZIP_LIST(X) V_CRC32ISCSI_LIST(X) V_CRC64_LIST(X) V_ADLER_LIST(X) V_XORGEN_LIST(X) V_PQGEN_LIST(X) V_XORCHECK_LIST(X) V_PQCHECK_LIST(X) V_ZERODET_LIST(X)
#undef X
static long direct_variant_calls(arena_t *a)
{
	long n = 0; static const int lens[] = { 0, 1, 7, 15, 16, 31, 33, 64, 127, 272, 400, 1040 }; uint8_t *dst = a->out; const uint8_t *p = IN_RAND + 5;
	for (unsigned li = 0; li < sizeof lens / sizeof lens[0]; li++) { uint64_t len = lens[li];
#define X(s, nn, isa) if (v_isa_ok(isa) == 1) { ((uint16_t (*)(uint16_t, const uint8_t *, uint64_t)) ksym_##s)(1, p, len); n++; }
		V_CRC16_LIST(X)
#undef X
#define X(s, nn, isa) if (v_isa_ok(isa) == 1) { ((uint16_t (*)(uint16_t, uint8_t *, const uint8_t *, uint64_t)) ksym_##s)(1, dst, p, len); n++; }
		V_CRC16COPY_LIST(X)
#undef X
#define X(s, nn, isa) if (v_isa_ok(isa) == 1) { ((uint32_t (*)(uint32_t, const uint8_t *, uint64_t)) ksym_##s)(1, p, len); n++; }
		V_CRC32IEEE_LIST(X) V_CRC32GZIP_LIST(X) V_ADLER_LIST(X)
#undef X
#define X(s, nn, isa) if (v_isa_ok(isa) == 1) { ((unsigned (*)(const uint8_t *, int, unsigned)) ksym_##s)(p, (int) len, 1); n++; }
		V_CRC32ISCSI_LIST(X)
#undef X
#define X(s, nn, isa) if (v_isa_ok(isa) == 1) { ((uint64_t (*)(uint64_t, const uint8_t *, uint64_t)) ksym_##s)(1, p, len); n++; }
		V_CRC64_LIST(X)
#undef X
#define X(s, nn, isa) if (v_isa_ok(isa) == 1) { ((int (*)(const void *, size_t)) ksym_##s)(p, len); n++; }
		V_ZERODET_LIST(X)
#undef X
	}
	{ void *arr[6]; uint8_t *base = (uint8_t *) (((uintptr_t) a->out + 8192 + 63) & ~63ul); for (int i = 0; i < 4; i++) arr[i] = (void *) (((uintptr_t) IN_RAND + 63 + 4096 * i) & ~63ul); arr[4] = base; arr[5] = base + 4096; static const int rl[] = { 32, 64, 96, 161, 1024 };
	  for (unsigned li = 0; li < 5; li++) { int len = rl[li];
#define X(s, nn, isa) if (v_isa_ok(isa) == 1) { ((int (*)(int, int, void **)) ksym_##s)(5, len, arr); n++; }
		V_XORGEN_LIST(X) V_XORCHECK_LIST(X)
#undef X
		if (len % 32 == 0) {
#define X(s, nn, isa) if (v_isa_ok(isa) == 1) { ((int (*)(int, int, void **)) ksym_##s)(6, len, arr); n++; }
		V_PQGEN_LIST(X) V_PQCHECK_LIST(X)
#undef X
		} } }
	return n;
}
#if defined(__SANITIZE_THREAD__)
#define THR_CPU_LIMIT 1200
#else
#define THR_CPU_LIMIT 120
#endif
/* the threaded modes have no per-call watchdog: a library call that never returns is turned into a verdict by a process-wide CPU-time limit */
static void thr_hang(int sig) { (void) sig; v_setcase(-1, "mode %s: the workload consumed more than %d s of CPU time (normally a few seconds): a library call does not return", vopt.mode, THR_CPU_LIMIT); v_viol("hang:threaded-workload", "CPU-time watchdog expired"); v_finish(); fflush(stdout); _exit(0); }
static void mode_threads(int protect)
{
	{ struct sigaction sa; memset(&sa, 0, sizeof sa); sa.sa_handler = thr_hang; sigaction(SIGVTALRM, &sa, 0); struct itimerval it; memset(&it, 0, sizeof it); it.it_value.tv_sec = THR_CPU_LIMIT; setitimer(ITIMER_VIRTUAL, &it, 0); }
	int nt = 16; pthread_t th[16]; static thr_arg args[16]; have_baseline = protect;
	if (protect) {
		long nres; const char *lv = strchr(vopt.mode, ':');
		if (lv && strcmp(lv + 1, "native")) { const cpucfg *c = cpusim_find(lv + 1); if (!c) v_harness_fail("unknown cpu level %s", lv + 1); if (!cpusim_host_can(c)) { v_set("cpu_levels_skipped", lv + 1); v_stat("evaluations", 1); return; } cpusim_apply(c); nres = cpusim_n; v_set("cpu_levels", lv + 1); }
		else { nres = resolve_all_slots(); v_set("cpu_levels", "native"); }
		v_stat("entry_points_resolved_before_protection", nres); if (nres < 30) v_harness_fail("only %ld entry points could be resolved directly", nres);
		int found = 0; dl_iterate_phdr(phdr_cb, &found); if (!found || !n_ro) v_harness_fail("libisal.so writable segments not found (not a shared-library build?)");
		struct sigaction sa; memset(&sa, 0, sizeof sa); sa.sa_sigaction = ro_fault; sa.sa_flags = SA_SIGINFO; sigaction(SIGSEGV, &sa, 0); sigaction(SIGBUS, &sa, 0);
		ro_protect(1);
	}
	for (int i = 0; i < nt; i++) { args[i].id = i; args[i].a = new_arena(); args[i].runs = 0; if (protect) thr_work(&args[i], 1); }
	if (protect) v_stat("direct_kernel_variant_calls_under_protection", direct_variant_calls(&args[0].a));   /* serial results (same arguments, same buffers), already under protection */
	have_baseline = protect;
	for (int i = 0; i < nt; i++) pthread_create(&th[i], 0, thr_main, &args[i]);
	long runs = 0; for (int i = 0; i < nt; i++) { pthread_join(th[i], 0); runs += args[i].runs; }
	if (protect) ro_protect(0);
	if (!protect) {   /* no serial baseline (the first calls themselves race): all threads ran the same variants and must agree */
		for (int sc = 0; sc < NSCEN; sc++) for (int v = 0; v < SC[sc].nvar && v < 200; v += 3) for (int i = 1; i < nt; i++) if (serial_digest[i][sc][v] != serial_digest[0][sc][v]) { char key[200]; snprintf(key, sizeof key, "threads-disagree:%s", SC[sc].name); v_setcase(v, "threads 0 and %d, scenario %s variant %d, first calls racing", i, SC[sc].name, v); v_viol(key, "two threads obtained different results for identical arguments"); i = nt; }
	}
	v_stat("evaluations", runs); v_stat("threads", nt); v_stat("library_pages_made_read_only", ro_pages);
	for (long q = 0; q < runs && q < 3000; q++) v_distinct(0x7000000 + q + (protect ? 1 << 20 : 0));
	v_sample("%d threads x %ld scenario runs with independent contexts, shared read-only inputs%s: every digest equal to the serial result", nt, runs, protect ? " and all writable pages of libisal.so mprotect(PROT_READ)" : "");
}
/* ------------------------------------------------------------------ racing cold starts */
static pthread_barrier_t bar; static volatile int cold_bad; static int cold_sc, cold_var;
static void *cold_thr(void *p) { arena_t *a = p; pthread_barrier_wait(&bar); uint64_t d = SC[cold_sc].fn(a, cold_var); uint64_t d2 = SC[cold_sc].fn(a, cold_var); if (d != d2) cold_bad = 1; *(uint64_t *) a->aux2 = d; return 0; }
static void mode_cold(void)
{
	long n = 0, bad = 0;
	for (int sc = 0; sc < NSCEN; sc++) for (int rep = 0; rep < (vopt.thorough ? 12 : 2); rep++) {
		long idx = sc * 100 + rep; if (!v_mine(idx)) continue;
		int nt = (int[]){ 2, 4, 16 }[rep % 3], var = rep * 3 % SC[sc].nvar;
		v_setcase(idx, "cold start: %d threads make the first call(s) of scenario %s concurrently in a fresh process", nt, SC[sc].name);
		fflush(stdout); pid_t pid = fork();
		if (pid == 0) {
			/* child: nothing has been resolved yet in this process image? (the parent made no library call except input preparation, which used deflate level 0..3 only) */
			alarm(900); cold_sc = sc; cold_var = var; pthread_barrier_init(&bar, 0, nt); pthread_t th[16]; static arena_t ar[16]; for (int i = 0; i < nt; i++) { ar[i] = new_arena(); prefill(&ar[i], i % 4, i); ar[i].shift = 0; pthread_create(&th[i], 0, cold_thr, &ar[i]); }
			for (int i = 0; i < nt; i++) pthread_join(th[i], 0);
			int diff = 0; for (int i = 1; i < nt; i++) if (*(uint64_t *) ar[i].aux2 != *(uint64_t *) ar[0].aux2) diff = 1;
			_exit(cold_bad ? 11 : diff ? 12 : 0);
		}
		int st = 0; waitpid(pid, &st, 0); n++;
		if (!WIFEXITED(st) || WEXITSTATUS(st)) { bad++; char key[200]; snprintf(key, sizeof key, "cold-start-race:%s:%s", SC[sc].name, WIFSIGNALED(st) ? "crash" : WEXITSTATUS(st) == 12 ? "threads-disagree" : "unstable-result"); v_viol(key, "child status %x", st); }
		v_distinct(0x8000000 + idx);
	}
	v_stat("evaluations", n); v_stat("cold_start_processes", n);
	v_sample("each scenario's first calls raced from 2/4/16 threads in a fresh process; all threads obtained identical, stable results");
}
int main(int argc, char **argv)
{
	v_init(argc, argv);
	if (!strcmp(vopt.mode, "cold")) {
		/* inputs are prepared with zlib: this process (and its children) has not resolved any entry point yet */
		make_inputs(); mode_cold(); return v_finish();
	}
	make_inputs();
	cpusim_no_interpose = strncmp(vopt.mode, "prefill", 7) != 0;   /* the slot thunks keep a process-wide shadow stack: single-threaded modes only */
	if (!strncmp(vopt.mode, "prefill:", 8) && V_NDISPATCHED > 0) cpusim_init();
	if (!strcmp(vopt.mode, "taint")) mode_taint(); else if (!strncmp(vopt.mode, "ro", 2)) mode_threads(1); else if (!strcmp(vopt.mode, "threads")) mode_threads(0); else mode_prefill();
	return v_finish();
}
