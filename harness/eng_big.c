/* eng_big.c - C10 (thorough tier only): compression streams of 4 GiB and more.  total_in / total_out are 32-bit counters that wrap; the
 * kernels form "total_in + avail_in" and compare positions against it.  Every case compresses 2^32 + delta bytes with the streaming API,
 * pipes the output through zlib's inflate on the fly and compares what comes out with what went in; per call the counters must move by
 * exactly what was consumed / produced (mod 2^32) and the stream has to reach ZSTATE_END within a bounded number of calls after the last
 * input byte.  Input is a 2 MiB block of noise mapped over and over (level 1-3 emit stored blocks for it, so a pass runs at memcpy speed). */
#include "v.h"
#include "visa.h"
#include "cpusim.h"
#include <zlib.h>
#include "igzip_lib.h"

#define BLK (2u << 20)
static long st_streams, st_calls;

static void one(long idx, int level, int wrapper, uint64_t total, int flush_at_end, const char *lvl)
{
	static uint8_t *noise, *out, *dec, *lvlbuf; static struct isal_zstream s;
	if (!noise) { noise = malloc(BLK); out = malloc(1 << 20); dec = malloc(4 << 20); lvlbuf = malloc(ISAL_DEF_LVL3_DEFAULT); vrng r; vr_seed(&r, 77, 1, 1); vr_fill(&r, noise, BLK); }
	v_setcase(idx, "cpu=%s level=%d wrapper=%d stream of 2^32%+lld bytes, %s", lvl, level, wrapper, (long long) (total - (1ull << 32)), flush_at_end ? "SYNC_FLUSH on the last data call, end_of_stream on an empty call" : "end_of_stream with the last data");
	z_stream z; memset(&z, 0, sizeof z); if (inflateInit2(&z, wrapper == IGZIP_GZIP ? 31 : wrapper == IGZIP_ZLIB ? 15 : -15) != Z_OK) v_harness_fail("zlib");
	uint64_t fed = 0, got = 0; long calls = 0, after_last = 0; int zr = Z_OK; char key[160];
	if (V_TRY(1200)) {
		isal_deflate_init(&s); s.level = level; s.level_buf = level ? lvlbuf : NULL; s.level_buf_size = level ? ISAL_DEF_LVL3_DEFAULT : 0; s.gzip_flag = wrapper; s.flush = NO_FLUSH; s.end_of_stream = 0; s.avail_in = 0;
		for (;;) {
			if (s.avail_in == 0 && fed < total) { uint64_t off = fed % BLK, c = BLK - off; if (c > total - fed) c = total - fed; if (total - fed > 64 && total - fed - c < 64 && c > 64) c -= 37;   /* the last piece is small */
				s.next_in = noise + off; s.avail_in = (uint32_t) c; fed += c; if (fed == total) { if (flush_at_end) s.flush = SYNC_FLUSH; else s.end_of_stream = 1; } }
			else if (s.avail_in == 0 && fed == total && !s.end_of_stream) { s.end_of_stream = 1; s.flush = NO_FLUSH; }
			s.next_out = out; s.avail_out = 1 << 20;
			uint32_t ain = s.avail_in, tin = s.total_in, tout = s.total_out;
			int rc = isal_deflate(&s); calls++;
			uint32_t cons = ain - s.avail_in, prod = (1u << 20) - s.avail_out;
			if (rc != COMP_OK) { V_END; snprintf(key, sizeof key, "big-stream:error-return:level%d", level); v_viol(key, "isal_deflate returned %d after %llu bytes", rc, (unsigned long long) fed); goto out; }
			if (s.avail_in > ain || s.total_in != tin + cons || s.total_out != tout + prod) { V_END; snprintf(key, sizeof key, "big-stream:counters-inconsistent:level%d", level); v_viol(key, "after %llu bytes: consumed %u produced %u but total_in %u -> %u, total_out %u -> %u", (unsigned long long) fed, cons, prod, tin, s.total_in, tout, s.total_out); goto out; }
			/* decode what was produced and compare with the source */
			z.next_in = out; z.avail_in = prod;
			do { z.next_out = dec; z.avail_out = 4 << 20; zr = inflate(&z, Z_NO_FLUSH); size_t n = (4u << 20) - z.avail_out;
				for (size_t o = 0; o < n;) { uint64_t off = (got + o) % BLK; size_t c = BLK - off; if (c > n - o) c = n - o; if (got + o + c > total || memcmp(dec + o, noise + off, c)) { V_END; snprintf(key, sizeof key, "big-stream:wrong-bytes:level%d", level); v_viol(key, "decoded data differs from the input near offset %llu", (unsigned long long) (got + o)); goto out; } o += c; }
				got += n;
			} while (zr == Z_OK && (z.avail_in > 0 || z.avail_out == 0));
			if (zr != Z_OK && zr != Z_STREAM_END && zr != Z_BUF_ERROR) { V_END; snprintf(key, sizeof key, "big-stream:not-decodable:level%d", level); v_viol(key, "zlib inflate returned %d after %llu decoded bytes", zr, (unsigned long long) got); goto out; }
			if (s.internal_state.state == ZSTATE_END) break;
			if (fed == total && s.avail_in == 0 && ++after_last > 64) { V_END; snprintf(key, sizeof key, "big-stream:no-termination:level%d", level); v_viol(key, "all %llu bytes consumed and end_of_stream set, but ZSTATE_END not reached after %ld further calls with 1 MiB of output space each (state %d)", (unsigned long long) total, after_last, s.internal_state.state); goto out; }
			if (fed == total && s.avail_in != 0 && cons == 0 && prod == 0 && ++after_last > 64) { V_END; snprintf(key, sizeof key, "big-stream:livelock:level%d", level); v_viol(key, "last %u input bytes are never consumed (total_in %u)", s.avail_in, s.total_in); goto out; }
		}
		V_END;
	} else { v_describe_fault(); snprintf(key, sizeof key, "fault:%s:big-stream:%s", v_fault_sym(), v_fault.sig == SIGALRM ? "hang" : "access"); v_viol(key, "%s", v_fault_txt); goto out; }
	st_calls += calls;
	if (got != total || zr != Z_STREAM_END) { snprintf(key, sizeof key, "big-stream:not-decodable:level%d", level); v_viol(key, "stream complete but zlib decoded %llu of %llu bytes (last return %d)", (unsigned long long) got, (unsigned long long) total, zr); goto out; }
	st_streams++; v_distinct(v_hash64(&total, 8, (uint64_t) level * 16 + (uint64_t) wrapper + (uint64_t) flush_at_end * 64 + v_hash64(lvl, strlen(lvl), 1)));
	if (v_nsamples < 3) v_sample("%s -> %ld calls, counters consistent modulo 2^32, zlib decodes all %llu bytes back to the input", v_case, calls, (unsigned long long) total);
out:
	inflateEnd(&z);
}

int main(int argc, char **argv)
{
	v_init(argc, argv);
	if (V_NDISPATCHED > 0) cpusim_init();
	static const long long deltas[] = { 5, 0, 12, -3, 65536 + 7 }; static const char *levels[] = { "avx512+g2", "sse", "base", "avx2" };
	long idx = 0;
	for (int l = 0; l < 4; l++) for (int level = 0; level <= 3; level++) for (int d = 0; d < 5; d++, idx++) {
		if (!v_mine(idx)) continue;
		if (!vopt.thorough && !(level == 1 && d == 0 && l < 2)) continue;        /* quick (not registered): two streams only */
		if (l >= 2 && (d > 1 || level == 3)) continue;                         /* lesser levels: the two central offsets, levels 0-2 */
		if (level == 0 && d > 1) continue;
		if (V_NDISPATCHED > 0) { const cpucfg *c = cpusim_find(levels[l]); if (!c || !cpusim_host_can(c)) continue; cpusim_apply(c); v_set("cpu_levels", levels[l]); } else if (l) continue;
		one(idx, level, (int[]){ IGZIP_DEFLATE, IGZIP_GZIP, IGZIP_ZLIB }[(idx / 3) % 3], (1ull << 32) + (uint64_t) deltas[d], (int) (idx & 1), V_NDISPATCHED > 0 ? levels[l] : "noarch");
	}
	v_stat("evaluations", st_streams); v_stat("streams_of_4GiB_and_more", st_streams); v_stat("library_calls", st_calls);
	return v_finish();
}
