/* eng_mem.c - C20: zero detection exact for every length, alignment, byte position and variant. Also serves C05. */
#include "v.h"
#include "visa.h"
#include "cpusim.h"
#include <sys/wait.h>
/* the call exactly as an application writes it: through the public header (whatever prototype, macro or inline wrapper it provides) */
#include "mem_routines.h"
static int via_public_header(void *p, size_t n) { return isal_zero_detect(p, n); }

typedef int (*fn_zd)(void *, size_t);
typedef struct { const char *name; fn_zd fn; const char *isa; int ok; long calls; uint64_t resmask, alnmask; long positions; } zsym;
#define X(s, n, isa) extern char ksym_##s[] __asm__(#s);
V_ZERODET_LIST(X)
#undef X
static zsym syms[] = {
#define X(s, n, isa) { #s, (fn_zd) ksym_##s, isa },
	V_ZERODET_LIST(X)
#undef X
	{ "isal_zero_detect@mem_routines.h", via_public_header, "disp" },
};
#define NSYMS ((int) (sizeof syms / sizeof syms[0]))
#define BIG (1u << 20)
static gslot *s_buf;

static void fault(void)
{
	v_describe_fault(); char key[200]; snprintf(key, sizeof key, "fault:%s:%s:%s", v_fault_sym(), v_fault_slot(), v_fault.sig == SIGALRM ? "hang" : v_fault.sig == SIGILL ? "sigill" : "access");
	v_viol(key, "%s", v_fault_txt);
}
static int zcall(zsym *s, uint8_t *p, size_t n, int *rc)
{
	if (V_TRY(20)) { *rc = (int) V_ABI(s->fn, p, n); V_END; s->calls++; return 0; }
	fault(); return -1;
}
/* surroundings of the region inside the slot: set to `v` (up to 96 bytes each side) */
static void paint_out(uint8_t *p, size_t n, uint8_t v)
{
	uint8_t *a = p - 96 < s_buf->lo || (size_t) (p - s_buf->lo) < 96 ? s_buf->lo : p - 96, *e = p + n, *b = (size_t) (s_buf->hi - e) < 96 ? s_buf->hi : e + 96;
	memset(a, v, p - a); memset(e, v, b - e);
}
static void one(long idx, zsym *s, vrng *r, size_t len, int place, int al, const char *lvl, int allpos)
{
	uint8_t *p = gs_place(s_buf, len, place, al); char key[200]; int rc = -1;
	memset(p, 0, len); paint_out(p, len, 0xff);
	v_setcase(idx, "sym=%s level=%s len=%zu place=%d align=%d", s->name, lvl, len, place, (int) ((uintptr_t) p & 63));
	s->resmask |= 1ull << (len & 63); s->alnmask |= 1ull << ((uintptr_t) p & 63);
	if (zcall(s, p, len, &rc)) goto out;
	if (rc != 0) { snprintf(key, sizeof key, "zero-reported-nonzero:%s", s->name); v_viol(key, "all-zero region of %zu bytes (0xFF outside) returned %d", len, rc); }
	if (len == 0) goto out;
	/* single non-zero byte */
	size_t npos = allpos ? len : 24;
	for (size_t t = 0; t < npos; t++) {
		size_t x = allpos ? t : (t < 8 ? t % len : t < 16 ? len - 1 - (t - 8) % len : vrn(r, (uint32_t) len));
		static const uint8_t vals[3] = { 1, 0x80, 0xff }; uint8_t val = allpos ? vals[(t + idx) % 3] : vals[vrn(r, 3)];
		p[x] = val;
		if (t % 2) paint_out(p, len, 0x00); else paint_out(p, len, 0xff);
		if (zcall(s, p, len, &rc)) goto out;
		s->positions++;
		if (rc == 0) { snprintf(key, sizeof key, "nonzero-missed:%s", s->name); v_viol(key, "byte %zu of %zu = %02x not detected", x, len, val); }
		p[x] = 0;
	}
	v_distinct(v_hash64(s->name, strlen(s->name), len * 4099 + ((uintptr_t) p & 63) * 7 + place));
	if (v_nsamples < 2 && len > 100) v_sample("%s -> zero region: 0; each of %zu single-byte positions detected", v_case, npos);
out:
	if (len + 192 < 8192) { gs_paint(s_buf, p - 96 < s_buf->lo ? s_buf->lo : p - 96, p + len + 96 > s_buf->hi ? s_buf->hi : p + len + 96); s_buf->cur = 0; s_buf->curlen = 0; }
	else gs_repaint_all(s_buf);
}
/* a region larger than 4 GiB (len is a size_t): the non-zero byte sits behind the 4 GiB mark, so a length that is truncated to 32 bits anywhere -
 * in a kernel, or in the dispatcher stub that has to keep the arguments alive around the one-time selection on the very FIRST call of a process -
 * misses it.  The region is a MAP_NORESERVE mapping of the shared zero page; each variant runs in a child of its own. */
static void huge_regions(void)
{
	size_t big = (4ull << 30) + (1u << 20) + 40;
	uint8_t *p = mmap(0, big, PROT_READ | PROT_WRITE, MAP_PRIVATE | MAP_ANONYMOUS | MAP_NORESERVE, -1, 0);
	if (p == MAP_FAILED) { v_set("huge_region", "skipped: mmap of 4 GiB + 1 MiB failed"); return; }
	for (int i = 0; i < NSYMS; i++) { if (!syms[i].ok) continue;
		v_setcase(800000000l + i, "sym=%s region of 4 GiB + 1 MiB + 40, single non-zero byte 5 bytes before the end; %s", syms[i].name, strcmp(syms[i].isa, "disp") ? "direct call" : "first, second and third call of a fresh process through the dispatcher");
		fflush(stdout); pid_t pid = fork(); if (pid < 0) continue;
		if (pid == 0) { int bad = 0; alarm(600); p[big - 5] = 0x40; int r1 = syms[i].fn(p, big); if (r1 == 0) bad |= 1;
			if (!strcmp(syms[i].isa, "disp")) { int r2 = syms[i].fn(p, big); if (r2 == 0) bad |= 2; p[big - 5] = 0; int r3 = syms[i].fn(p, big); if (r3 != 0) bad |= 4; }
			_exit(bad); }
		int st = 0; waitpid(pid, &st, 0); syms[i].calls++; char key[200];
		if (!WIFEXITED(st)) { snprintf(key, sizeof key, "huge-region:crash:%s", syms[i].name); v_viol(key, "child status %x", st); }
		else if (WEXITSTATUS(st)) { snprintf(key, sizeof key, "%s:%s:huge-region", WEXITSTATUS(st) & 4 ? "zero-reported-nonzero" : "nonzero-missed", syms[i].name); v_viol(key, "len = 4 GiB + 1 MiB + 40: wrong answers bitmask %d (1 = first call missed the byte, 2 = second call missed it, 4 = all-zero region reported non-zero)", WEXITSTATUS(st)); }
		v_count("huge_region_children", syms[i].name, 1);
	}
	munmap(p, big);
}
int main(int argc, char **argv)
{
	v_init(argc, argv);
	s_buf = gs_new("region", BIG + 8192);
	for (int i = 0; i < NSYMS; i++) { int ok = v_isa_ok(syms[i].isa); if (ok < 0) v_harness_fail("unknown ISA suffix %s", syms[i].isa); syms[i].ok = ok; if (!ok) v_set("skipped_not_executable_on_host", syms[i].name); }
	/* before cpusim takes over the dispatch slots: the children below make the real first call through the untouched stub */
	if (vopt.shard == 0 && vopt.only < 0 && !strcmp(vopt.prop, "C20")) huge_regions(); else if (vopt.only >= 800000000l) { huge_regions(); return v_finish(); }
	if (V_NDISPATCHED > 0) cpusim_init();
	int maxlen = 1100, nal = vopt.thorough ? 64 : 6;
	long idx = 0;
	for (int i = 0; i < NSYMS; i++) for (int len = 0; len <= maxlen; len++) for (int a = 0; a < nal; a++, idx++) {
		if (!v_mine(idx) || !syms[i].ok) continue;
		vrng r; vr_seed(&r, vopt.seed, 30, idx);
		int al = vopt.thorough ? a : (int) vrn(&r, 64), place = a % 3;   /* END, START, NEAR_END(al) */
		int allpos = len <= (vopt.thorough ? 600 : 140) || vrn(&r, 16) == 0;
		one(idx, &syms[i], &r, len, place, al, "-", allpos);
	}
	/* large regions: byte in first/last vector and at loop seams */
	for (int i = 0; i < NSYMS; i++) for (int q = 0; q < (vopt.thorough ? 400 : 40); q++, idx++) {
		if (!v_mine(idx) || !syms[i].ok) continue;
		vrng r; vr_seed(&r, vopt.seed, 31, idx);
		size_t len = 4096 + vrn(&r, BIG - 4096);
		one(idx, &syms[i], &r, len, vrn(&r, 3), vrn(&r, 64), "-", 0);
	}
	if (V_NDISPATCHED > 0) for (int l = 0; l < CPUSIM_NNAMED; l++) {
		const cpucfg *c = &cpusim_named[l]; if (!cpusim_host_can(c)) { v_set("cpu_levels_skipped", c->name); continue; }
		cpusim_apply(c); if (vopt.shard == 0) cpusim_report(c->name); v_set("cpu_levels", c->name);
		for (int i = 0; i < NSYMS; i++) { if (strcmp(syms[i].isa, "disp")) continue;
			for (int q = 0; q < (vopt.thorough ? 4000 : 300); q++) { long id2 = 70000000l + (long) l * 100000 + q; if (!v_mine(id2)) continue; vrng r; vr_seed(&r, vopt.seed, 32, id2); one(id2, &syms[i], &r, vrn(&r, 1101), vrn(&r, 3), vrn(&r, 64), c->name, vrn(&r, 4) == 0); } }
	}
	long long ev = 0;
	for (int i = 0; i < NSYMS; i++) if (syms[i].calls) {
		ev += syms[i].calls; v_count("calls", syms[i].name, syms[i].calls); v_count("judged", syms[i].name, syms[i].calls); v_count("single_byte_positions_tested", syms[i].name, syms[i].positions);
		printf("{\"t\":\"mask\",\"k\":\"len_residues_mod64:%s\",\"v\":%llu}\n", syms[i].name, (unsigned long long) syms[i].resmask);
		printf("{\"t\":\"mask\",\"k\":\"align_mod64:%s\",\"v\":%llu}\n", syms[i].name, (unsigned long long) syms[i].alnmask);
	}
	v_stat("evaluations", ev);
	return v_finish();
}
