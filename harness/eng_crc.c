/* eng_crc.c - C04: every CRC / Adler-32 variant equals its bit-by-bit definition and composes over splits.
 * Also serves C05 (guard-page placement of every buffer) with --prop C05. */
#include "v.h"
#include "visa.h"
#include "refcrc.h"
#include "cpusim.h"

/* the calls exactly as an application writes them: through the public headers (whatever prototype, macro or inline wrapper they provide) */
#include "crc.h"
#include "crc64.h"
#include "igzip_lib.h"
static uint16_t hdr_crc16_t10dif(uint16_t s, const unsigned char *b, uint64_t n) { return crc16_t10dif(s, b, n); }
static uint16_t hdr_crc16_t10dif_copy(uint16_t s, uint8_t *d, uint8_t *b, uint64_t n) { return crc16_t10dif_copy(s, d, b, n); }
static uint32_t hdr_crc32_ieee(uint32_t s, const unsigned char *b, uint64_t n) { return crc32_ieee(s, b, n); }
static uint32_t hdr_crc32_gzip_refl(uint32_t s, const unsigned char *b, uint64_t n) { return crc32_gzip_refl(s, b, n); }
static unsigned int hdr_crc32_iscsi(unsigned char *b, int n, unsigned int s) { return crc32_iscsi(b, n, s); }
static uint32_t hdr_isal_adler32(uint32_t s, const unsigned char *b, uint64_t n) { return isal_adler32(s, b, n); }
#define HDR64(f) static uint64_t hdr_##f(uint64_t s, const unsigned char *b, uint64_t n) { return f(s, b, n); }
HDR64(crc64_ecma_refl) HDR64(crc64_ecma_norm) HDR64(crc64_iso_refl) HDR64(crc64_iso_norm) HDR64(crc64_jones_refl) HDR64(crc64_jones_norm) HDR64(crc64_rocksoft_refl) HDR64(crc64_rocksoft_norm)
enum { K_CRC16, K_CRC16COPY, K_IEEE, K_GZIP, K_ISCSI, K_CRC64, K_ADLER, K_BAM1 };
typedef struct { const char *name; void *fn; int kind; int cat; const char *isa; int ok; long calls; uint64_t resmask, alnmask; uint8_t seen_len[1101]; } csym;
#define X(s, n, isa) extern char ksym_##s[] __asm__(#s);
V_CRC16_LIST(X) V_CRC16COPY_LIST(X) V_CRC32IEEE_LIST(X) V_CRC32GZIP_LIST(X) V_CRC32ISCSI_LIST(X) V_CRC64_LIST(X) V_ADLER_LIST(X)
#undef X
static csym syms[] = {
#define X(s, n, isa) { #s, (void *) ksym_##s, K_CRC16, RC_T10DIF, isa },
	V_CRC16_LIST(X)
#undef X
#define X(s, n, isa) { #s, (void *) ksym_##s, K_CRC16COPY, RC_T10DIF, isa },
	V_CRC16COPY_LIST(X)
#undef X
#define X(s, n, isa) { #s, (void *) ksym_##s, K_IEEE, RC_IEEE, isa },
	V_CRC32IEEE_LIST(X)
#undef X
#define X(s, n, isa) { #s, (void *) ksym_##s, K_GZIP, RC_GZIP, isa },
	V_CRC32GZIP_LIST(X)
#undef X
#define X(s, n, isa) { #s, (void *) ksym_##s, K_ISCSI, RC_ISCSI, isa },
	V_CRC32ISCSI_LIST(X)
#undef X
#define X(s, cat, isa) { #s, (void *) ksym_##s, K_CRC64, cat, isa },
	V_CRC64_LIST(X)
#undef X
#define X(s, n, isa) { #s, (void *) ksym_##s, K_ADLER, 0, isa },
	V_ADLER_LIST(X)
#undef X
	{ "crc16_t10dif@crc.h", (void *) hdr_crc16_t10dif, K_CRC16, RC_T10DIF, "disp" }, { "crc16_t10dif_copy@crc.h", (void *) hdr_crc16_t10dif_copy, K_CRC16COPY, RC_T10DIF, "disp" },
	{ "crc32_ieee@crc.h", (void *) hdr_crc32_ieee, K_IEEE, RC_IEEE, "disp" }, { "crc32_gzip_refl@crc.h", (void *) hdr_crc32_gzip_refl, K_GZIP, RC_GZIP, "disp" },
	{ "crc32_iscsi@crc.h", (void *) hdr_crc32_iscsi, K_ISCSI, RC_ISCSI, "disp" }, { "isal_adler32@igzip_lib.h", (void *) hdr_isal_adler32, K_ADLER, 0, "disp" },
	{ "crc64_ecma_refl@crc64.h", (void *) hdr_crc64_ecma_refl, K_CRC64, RC_ECMA_REFL, "disp" }, { "crc64_ecma_norm@crc64.h", (void *) hdr_crc64_ecma_norm, K_CRC64, RC_ECMA_NORM, "disp" },
	{ "crc64_iso_refl@crc64.h", (void *) hdr_crc64_iso_refl, K_CRC64, RC_ISO_REFL, "disp" }, { "crc64_iso_norm@crc64.h", (void *) hdr_crc64_iso_norm, K_CRC64, RC_ISO_NORM, "disp" },
	{ "crc64_jones_refl@crc64.h", (void *) hdr_crc64_jones_refl, K_CRC64, RC_JONES_REFL, "disp" }, { "crc64_jones_norm@crc64.h", (void *) hdr_crc64_jones_norm, K_CRC64, RC_JONES_NORM, "disp" },
	{ "crc64_rocksoft_refl@crc64.h", (void *) hdr_crc64_rocksoft_refl, K_CRC64, RC_ROCKSOFT_REFL, "disp" }, { "crc64_rocksoft_norm@crc64.h", (void *) hdr_crc64_rocksoft_norm, K_CRC64, RC_ROCKSOFT_NORM, "disp" },
};
#define NSYMS ((int) (sizeof syms / sizeof syms[0]))
#define BUFMAX (1u << 20)
static gslot *s_buf, *s_dst, *s_big;

static uint64_t call(const csym *s, uint64_t seed, uint8_t *buf, uint8_t *dst, uint64_t len)
{
	switch (s->kind) {
	case K_CRC16: return (uint16_t) V_ABI(s->fn, (uint16_t) seed, buf, len);
	case K_CRC16COPY: return (uint16_t) V_ABI(s->fn, (uint16_t) seed, dst, buf, len);
	case K_IEEE: case K_GZIP: return (uint32_t) V_ABI(s->fn, (uint32_t) seed, buf, len);
	case K_ISCSI: return (unsigned) V_ABI(s->fn, buf, (int) len, (unsigned) seed);
	case K_CRC64: return (uint64_t) V_ABI(s->fn, seed, buf, len);
	default: return (uint32_t) V_ABI(s->fn, (uint32_t) seed, buf, len);
	}
}
static uint64_t ref(const csym *s, uint64_t seed, const uint8_t *buf, uint64_t len)
{
	const refcrc_t *c = &refcrc_cat[s->cat];
	switch (s->kind) {
	case K_CRC16: case K_CRC16COPY: return refcrc_raw(c, seed & 0xffff, buf, len);
	case K_IEEE: case K_GZIP: return (~refcrc_raw(c, ~seed & 0xffffffffu, buf, len)) & 0xffffffffu;
	case K_ISCSI: return refcrc_raw(c, seed & 0xffffffffu, buf, len);
	case K_CRC64: return ~refcrc_raw(c, ~seed, buf, len);
	case K_ADLER: return refadler((uint32_t) seed, buf, len);
	default: {
		uint32_t a = seed & 0xffff, b = (uint32_t) seed >> 16; a = a == 65520 ? 0 : a + 1;
		uint32_t r = refadler(b << 16 | a, buf, len); a = r & 0xffff; a = a == 0 ? 65520 : a - 1; return (r & 0xffff0000u) | a; }
	}
}
static int width(const csym *s) { return s->kind <= K_CRC16COPY ? 16 : s->kind == K_CRC64 ? 64 : 32; }
static uint64_t pick_seed(const csym *s, vrng *r)
{
	int w = width(s); uint64_t m = refcrc_mask(w), v;
	switch (vrn(r, 6)) { case 0: v = 0; break; case 1: v = m; break; case 2: v = 1ull << vrn(r, w); break; default: v = vr64(r) & m; }
	if (s->kind == K_ADLER || s->kind == K_BAM1) { uint32_t a = (uint32_t) (v & 0xffff) % 65521, b = (uint32_t) (v >> 16 & 0xffff) % 65521; if (vrn(r, 4) == 0) { a = 65520 - vrn(r, 2); b = 65520 - vrn(r, 3); } if (s->kind == K_ADLER && vrn(r, 3) == 0) { a = 1; b = 0; } v = (uint64_t) b << 16 | a; }
	return v;
}
static void fault(const csym *s)
{
	v_describe_fault(); char key[200]; snprintf(key, sizeof key, "fault:%s:%s:%s", v_fault_sym(), v_fault_slot(), v_fault.sig == SIGALRM ? "hang" : v_fault.sig == SIGILL ? "sigill" : "access");
	v_viol(key, "%s", v_fault_txt);
}
static void fill(vrng *r, uint8_t *b, size_t n, int fam)
{
	switch (fam) { case 0: memset(b, 0xff, n); break; case 1: memset(b, 0, n); break; case 2: for (size_t i = 0; i < n; i++) b[i] = (uint8_t) (0xf0 | vrn(r, 16)); break; default: vr_fill(r, b, n); }
}
/* one case: whole-buffer value vs reference, then split chaining */
static void one(long idx, csym *s, vrng *r, long len, const char *lvl, int force_split)
{
	gslot *g = len + 64 > BUFMAX ? s_big : s_buf; if (!g) return;
	int pl = vrn(r, 3), al = vrn(r, 64), fam = s->kind >= K_ADLER ? vrn(r, 4) : 3 + vrn(r, 2) * 0 + (vrn(r, 8) == 0 ? -3 + (int) vrn(r, 3) : 0);
	if (fam < 0) fam = 0;
	uint8_t *buf = gs_place(g, len, pl, al), *dst = 0;
	fill(r, buf, len, fam);
	uint64_t h0 = v_hash64(buf, len, 5), seed = pick_seed(s, r);
	if (s->kind == K_CRC16COPY) { dst = gs_place(s_dst, len, vrn(r, 3), vrn(r, 64)); }
	v_setcase(idx, "sym=%s level=%s len=%ld seed=%llx place=%d align=%d fill=%d", s->name, lvl, len, (unsigned long long) seed, pl, al, fam);
	uint64_t got = 0, want = ref(s, seed, buf, len);
	if (V_TRY(30)) { got = call(s, seed, buf, dst, len); V_END; } else { fault(s); goto out; }
	s->calls++; s->resmask |= 1ull << (len & 63); s->alnmask |= 1ull << ((uintptr_t) buf & 63); if (len <= 1100) s->seen_len[len] = 1;
	char key[200];
	if (got != want) { snprintf(key, sizeof key, "wrong-value:%s", s->name); v_viol(key, "got %llx want %llx", (unsigned long long) got, (unsigned long long) want); }
	if (v_hash64(buf, len, 5) != h0) { snprintf(key, sizeof key, "source-modified:%s", s->name); v_viol(key, "input buffer changed"); }
	if (dst) { if (memcmp(dst, buf, len)) { snprintf(key, sizeof key, "copy-mismatch:%s", s->name); size_t x = 0; while (dst[x] == buf[x]) x++; v_viol(key, "dst differs from src at byte %zu", x); }
		long d = gs_check(s_dst, 4096); if (d != GS_OK) { snprintf(key, sizeof key, "oob-write:%s:dst", s->name); v_viol(key, "canary damaged at dst%+ld (len %ld)", d, len); gs_repaint_all(s_dst); } }
	{ long d = gs_check(g, 4096); if (d != GS_OK) { snprintf(key, sizeof key, "oob-write:%s:buf", s->name); v_viol(key, "canary damaged at buf%+ld", d); gs_repaint_all(g); } }
	/* composition: feed in 2 or 3 pieces, each result is the next seed */
	if (len >= 1 && (force_split >= 0 || vrn(r, 2))) {
		long a = force_split >= 0 ? force_split : vrn(r, len + 1), b = force_split >= 0 ? len : a + vrn(r, len - a + 1);
		uint64_t c = seed;
		if (V_TRY(30)) {
			c = call(s, c, buf, dst, a); c = call(s, c, buf + a, dst ? dst + a : 0, b - a); if (b < len) c = call(s, c, buf + b, dst ? dst + b : 0, len - b);
			V_END;
		} else { fault(s); goto out; }
		s->calls += 2;
		if (c != want) { snprintf(key, sizeof key, "split-mismatch:%s", s->name); v_viol(key, "pieces [0,%ld) [%ld,%ld) [%ld,%ld) chain to %llx, whole is %llx", a, a, b, b, len, (unsigned long long) c, (unsigned long long) want); }
		if (dst && memcmp(dst, buf, len)) { snprintf(key, sizeof key, "copy-mismatch:%s", s->name); v_viol(key, "dst differs from src after piecewise copy"); }
	}
	if (len > 0) v_distinct(v_hash64(s->name, strlen(s->name), h0 ^ seed * 31 ^ (uint64_t) len << 40 ^ (uint64_t) al << 56));
	if (v_nsamples < 3 && len > 16) v_sample("%s -> %llx equals bitwise reference; split chaining equal", v_case, (unsigned long long) got);
out:
	gs_reset(g); if (dst) gs_reset(s_dst);
}

/* lengths above 4 GiB (the length parameters are 64 bits wide): the whole-buffer value must equal the value chained over two pieces that are
 * each shorter than 4 GiB - a length truncated to 32 bits anywhere changes the first and not the second.  The buffer is a MAP_NORESERVE mapping
 * of the shared zero page with a few bytes set around the 4 GiB mark; table-driven base variants are left out (minutes per pass). */
static void huge_lengths(void)
{
	size_t L = (4ull << 30) + 77, cut = 3ull << 30; uint8_t *p = NULL; long n = 0;
	for (int i = 0; i < NSYMS; i++) {
		long idx = 600000000l + i; if (!v_mine(idx) || !syms[i].ok) continue;
		if (syms[i].kind == K_CRC16COPY || syms[i].kind == K_ISCSI || syms[i].kind == K_BAM1 || !strcmp(syms[i].isa, "base")) continue;
		if (!p) { p = mmap(0, L + 4096, PROT_READ | PROT_WRITE, MAP_PRIVATE | MAP_ANONYMOUS | MAP_NORESERVE, -1, 0); if (p == MAP_FAILED) { v_set("huge_lengths", "skipped: mmap failed"); return; }
			p[0] = 0x31; p[(4ull << 30) - 1] = 0x80; p[(4ull << 30) + 5] = 0x07; p[L - 1] = 0xfe; p[cut - 1] = 0x55; p[cut] = 0xaa; }
		v_setcase(idx, "sym=%s len = 4 GiB + 77 in one call vs chained over 3 GiB + the rest", syms[i].name);
		uint64_t seed = 0x1234567u, whole = 0, chain = 0; char key[200];
		if (V_TRY(600)) { whole = call(&syms[i], seed, p, NULL, L); chain = call(&syms[i], call(&syms[i], seed, p, NULL, cut), p + cut, NULL, L - cut); V_END; } else { fault(&syms[i]); continue; }
		syms[i].calls += 3; n++; v_count("lengths_over_4GiB", syms[i].name, 1);
		if (whole != chain) { snprintf(key, sizeof key, "split-mismatch:%s:over-4GiB", syms[i].name); v_viol(key, "len 4 GiB + 77: one call gives %llx, 3 GiB + rest chained gives %llx", (unsigned long long) whole, (unsigned long long) chain); }
	}
	if (p) munmap(p, L + 4096);
	v_stat("variants_run_over_4GiB", n);
	/* Adler-32 over 640 MiB of 0xFF in ONE call (every variant, the table-free base code included): the sums grow fastest here and the deferred
	 * modulo reductions are at their limit.  The buffer is one 2 MiB block mapped 320 times; the expected value has a closed form. */
	{ uint8_t *ff = NULL; size_t N = 640u << 20;
	  for (int i = 0; i < NSYMS; i++) { long idx = 610000000l + i; if (!v_mine(idx) || !syms[i].ok || syms[i].kind != K_ADLER) continue;
		if (!ff) { ff = v_alias_map(N, 0xff, NULL, 0); if (!ff) { v_set("huge_lengths", "adler 640 MiB skipped: aliased mapping refused"); break; } }
		uint32_t a0 = 1 + (uint32_t) (i * 977 % 65000), b0 = (uint32_t) (i * 31337 % 65521); uint64_t seed = (uint64_t) b0 << 16 | a0;
		unsigned __int128 nn = N; uint32_t ea = (uint32_t) ((a0 + (unsigned __int128) 255 * nn) % 65521), eb = (uint32_t) ((b0 + nn * a0 + (unsigned __int128) 255 * (nn * (nn + 1) / 2)) % 65521); uint64_t want = (uint64_t) eb << 16 | ea, got = 0;
		v_setcase(idx, "sym=%s 640 MiB of 0xFF in one call, seed %08llx", syms[i].name, (unsigned long long) seed);
		if (V_TRY(600)) { got = call(&syms[i], seed, ff, NULL, N); V_END; } else { fault(&syms[i]); continue; }
		syms[i].calls++; v_count("adler_640MiB_of_ff", syms[i].name, 1);
		if (got != want) { char key[200]; snprintf(key, sizeof key, "wrong-value:%s:640MiB-of-ff", syms[i].name); v_viol(key, "got %08llx, closed form gives %08llx", (unsigned long long) got, (unsigned long long) want); }
	  }
	  if (ff) munmap(ff, N + 4096); }
}
int main(int argc, char **argv)
{
	v_init(argc, argv);
	int e = refcrc_selftest(); if (e) v_harness_fail("refcrc self-test failed (%d): reference does not reproduce published check values", e);
	if (refadler_selftest()) v_harness_fail("refadler self-test failed");
	if (V_NDISPATCHED > 0) cpusim_init();
	s_buf = gs_new("buf", BUFMAX); s_dst = gs_new("dst", BUFMAX);
	if (vopt.shard < 4) s_big = gs_new("bigbuf", (vopt.thorough ? 64u : 4u) << 20);
	for (int i = 0; i < NSYMS; i++) {
		if (!strcmp(syms[i].isa, "bam1")) syms[i].kind = K_BAM1;
		int ok = v_isa_ok(syms[i].isa); if (ok < 0) v_harness_fail("unknown ISA suffix '%s' of %s", syms[i].isa, syms[i].name);
		syms[i].ok = ok; if (!ok) v_set("skipped_not_executable_on_host", syms[i].name);
	}
	if (!strcmp(vopt.prop, "C04")) huge_lengths();
	/* A: systematic length sweep 0..1100 per symbol, then random lengths */
	long per = (long) ((vopt.thorough ? 1101 * 12 : 1101 + 500) * vopt.scale);
	for (long q = 0; q < per; q++) for (int i = 0; i < NSYMS; i++) {
		long idx = q * NSYMS + i; if (!v_mine(idx) || !syms[i].ok) continue;
		vrng r; vr_seed(&r, vopt.seed, 10, idx);
		long len;
		if (q % 1601 < 1101) len = q % 1601; else { int c = vrn(&r, 10); len = c < 5 ? vrn(&r, 1101) : c < 8 ? vrn(&r, 70000) : vrn(&r, BUFMAX - 64); }
		if (syms[i].kind >= K_ADLER && vrn(&r, 40) == 0) len = 5552 * vrr(&r, 1, 12) + vrr(&r, -2, 2);
		one(idx, &syms[i], &r, len, "-", -1);
	}
	/* A2: lengths around the block sizes the folding kernels switch on (iSCSI 3x1024/3x512/3x128 blocks, 4K, 8K), all alignments mod 8 */
	{ static const int ctr[] = { 384, 1536, 2048, 3072, 4096, 6144, 8192, 9216 }; int nc = 8; long q = 0;
	  for (int i = 0; i < NSYMS; i++) for (int c = 0; c < nc; c++) for (int d = -40; d <= 72; d++, q++) {
		long idx = 40000000l + q; if (!v_mine(idx) || !syms[i].ok) continue;
		vrng r; vr_seed(&r, vopt.seed, 14, idx); one(idx, &syms[i], &r, ctr[c] + d, "-", -1);
	  }
	  if (vopt.thorough) for (int i = 0; i < NSYMS; i++) for (long len = 1101; len <= 9400; len++, q++) {
		long idx = 40000000l + q; if (!v_mine(idx) || !syms[i].ok) continue;
		vrng r; vr_seed(&r, vopt.seed, 14, idx); one(idx, &syms[i], &r, len, "-", -1);
	  } }
	/* B: every split point of short buffers */
	int maxl = vopt.thorough ? 300 : 70;
	for (int i = 0; i < NSYMS; i++) for (long len = 1; len <= maxl; len++) {
		long idx = 50000000l + (long) i * 1000 + len; if (!v_mine(idx) || !syms[i].ok) continue;
		for (long sp = 0; sp <= len; sp += (vopt.thorough ? 1 : 1 + len / 24)) { vrng r; vr_seed(&r, vopt.seed, 11, idx * 512 + sp); one(idx, &syms[i], &r, len, "-", (int) sp); }
	}
	/* C: Adler modulo schedule on saturated data and multi-MiB buffers; big CRC buffers */
	if (s_big) for (int i = 0; i < NSYMS; i++) {
		long idx = 60000000l + i; if (!syms[i].ok || syms[i].kind == K_CRC16COPY) continue; if ((i % 4) != vopt.shard) continue;
		if (vopt.only >= 0 && vopt.only != idx) continue;
		vrng r; vr_seed(&r, vopt.seed, 12, idx);
		long big = (long) (s_big->hi - s_big->lo) - 64 - vrn(&r, 4096);
		one(idx, &syms[i], &r, big, "-", -1);
	}
	/* D: dispatchers under simulated CPU levels */
	if (V_NDISPATCHED > 0) for (int l = 0; l < CPUSIM_NNAMED; l++) {
		const cpucfg *c = &cpusim_named[l]; if (!cpusim_host_can(c)) { v_set("cpu_levels_skipped", c->name); continue; }
		cpusim_apply(c); if (vopt.shard == 0) cpusim_report(c->name); v_set("cpu_levels", c->name);
		long pl = (long) ((vopt.thorough ? 3000 : 250) * vopt.scale);
		for (int i = 0; i < NSYMS; i++) { if (strcmp(syms[i].isa, "disp") && syms[i].kind != K_BAM1) continue;
			for (long q = 0; q < pl; q++) { long idx = 70000000l + ((long) l * NSYMS + i) * 10000 + q; if (!v_mine(idx)) continue; vrng r; vr_seed(&r, vopt.seed, 13, idx); long len = vrn(&r, 3) ? vrn(&r, 1101) : vrn(&r, 20000); one(idx, &syms[i], &r, len, c->name, -1); } }
	}
	long long ev = 0;
	for (int i = 0; i < NSYMS; i++) if (syms[i].calls) {
		ev += syms[i].calls; v_count("calls", syms[i].name, syms[i].calls); v_count("judged", syms[i].name, syms[i].calls);
		int nl = 0; for (int k = 0; k <= 1100; k++) nl += syms[i].seen_len[k]; v_count("lens_0_1100_seen_this_shard", syms[i].name, nl);
		printf("{\"t\":\"mask\",\"k\":\"len_residues_mod64:%s\",\"v\":%llu}\n", syms[i].name, (unsigned long long) syms[i].resmask);
		printf("{\"t\":\"mask\",\"k\":\"align_mod64:%s\",\"v\":%llu}\n", syms[i].name, (unsigned long long) syms[i].alnmask);
	}
	v_stat("evaluations", ev);
	if (gs_check_all(s_buf) != GS_OK || gs_check_all(s_dst) != GS_OK) v_viol("oob-write:late", "stray write found at final sweep");
	return v_finish();
}
