/* eng_gfmath.c - C12 (scalar GF(2^8) arithmetic and table expansions, exhaustive) and
 * C09 (matrix inversion exact; generator formulas; any k survivors recover the data). */
#include "v.h"
#include "visa.h"
#include "refgf.h"
#include "cpusim.h"
#include "erasure_code.h"
#include "gf_vect_mul.h"

#define X(s, n, isa) extern char ksym_##s[] __asm__(#s);
V_INITTBL_LIST(X) V_GFMUL_LIST(X)
#undef X
typedef int (*fn_mul)(int, unsigned char *, void *, void *);
static struct { const char *name; fn_mul fn; const char *isa; } mulv[] = {
#define X(s, n, isa) { #s, (fn_mul) ksym_##s, isa },
	V_GFMUL_LIST(X)
#undef X
};
typedef void (*fn_init)(int, int, unsigned char *, unsigned char *);
static fn_init init_base, init_gfni;
static long long evals;

/* GF2P8AFFINEQB (SDM): for each byte x and matrix qword A, result bit i = parity(A.byte[7-i] & x) ^ imm8.bit[i] */
static uint8_t affine_emul(uint64_t A, uint8_t x) { uint8_t r = 0; for (int i = 0; i < 8; i++) { uint8_t row = (uint8_t) (A >> (8 * (7 - i))); if (__builtin_parity(row & x)) r |= 1u << i; } return r; }
#ifdef __x86_64__
__attribute__((target("gfni,sse2"))) static uint8_t affine_real(uint64_t A, uint8_t x)
{
	uint64_t out; __asm__("movq %1, %%xmm1\n\tmovq %2, %%xmm0\n\tgf2p8affineqb $0, %%xmm1, %%xmm0\n\tmovq %%xmm0, %0" : "=r"(out) : "r"(A), "r"((uint64_t) x) : "xmm0", "xmm1"); return (uint8_t) out;
}
#endif

static void run_C12(void)
{
	char key[160];
	v_setcase(0, "exhaustive scalar arithmetic (build %s)", V_BUILD_TAG);
	/* all 65536 products, inverse of all 255 non-zero elements (one shard does all: it takes milliseconds) */
	for (int a = 0; a < 256; a++) for (int b = 0; b < 256; b++) {
		uint8_t g = gf_mul((uint8_t) a, (uint8_t) b); evals++;
		if (g != refgf_mul(a, b)) { snprintf(key, sizeof key, "gf_mul:%s", V_BUILD_TAG); v_viol(key, "gf_mul(%02x,%02x)=%02x want %02x", a, b, g, refgf_mul(a, b)); }
		if (g != gf_mul((uint8_t) b, (uint8_t) a)) { snprintf(key, sizeof key, "gf_mul-not-commutative:%s", V_BUILD_TAG); v_viol(key, "a=%02x b=%02x", a, b); }
		v_distinct(0x1200000ull + a * 256 + b + (V_BUILD_TAG[0] == 'l' ? 1 << 20 : 0));
	}
	for (int a = 0; a < 256; a++) {
		uint8_t iv = gf_inv((uint8_t) a); evals++;
		if (a == 0 ? iv != 0 : gf_mul((uint8_t) a, iv) != 1 || iv != refgf_inv(a)) { snprintf(key, sizeof key, "gf_inv:%s", V_BUILD_TAG); v_viol(key, "gf_inv(%02x)=%02x", a, iv); }
	}
	/* distributivity / associativity / absorbing zero on the library alone (full triple loop is 16M: do it) */
	for (int a = 0; a < 256; a++) for (int b = 0; b < 256; b++) { uint8_t ab = gf_mul(a, b); for (int c = 0; c < 256; c += (vopt.thorough ? 1 : 5)) {
		evals++;
		if (gf_mul(a, b ^ c) != (ab ^ gf_mul(a, c))) { snprintf(key, sizeof key, "gf_mul-not-distributive:%s", V_BUILD_TAG); v_viol(key, "a=%02x b=%02x c=%02x", a, b, c); }
		if (gf_mul(ab, c) != gf_mul(a, gf_mul(b, c))) { snprintf(key, sizeof key, "gf_mul-not-associative:%s", V_BUILD_TAG); v_viol(key, "a=%02x b=%02x c=%02x", a, b, c); }
	} }
	/* 32-byte expansion of every constant; table-driven product of c with every byte */
	for (int c = 0; c < 256; c++) {
		uint8_t t[32 + 16]; memset(t, 0xEE, sizeof t); gf_vect_mul_init((uint8_t) c, t);
		if (t[32] != 0xEE) { snprintf(key, sizeof key, "gf_vect_mul_init-overrun:%s", V_BUILD_TAG); v_viol(key, "wrote beyond 32 bytes for c=%02x", c); }
		for (int i = 0; i < 16; i++) { evals += 2;
			if (t[i] != refgf_mul(c, i) || t[16 + i] != refgf_mul(c, i << 4)) { snprintf(key, sizeof key, "gf_vect_mul_init:%s", V_BUILD_TAG); v_viol(key, "c=%02x entry %d: lo %02x hi %02x", c, i, t[i], t[16 + i]); } }
		for (int x = 0; x < 256; x++) { evals++; if ((t[x & 15] ^ t[16 + (x >> 4)]) != refgf_mul(c, x)) { snprintf(key, sizeof key, "table-product:%s", V_BUILD_TAG); v_viol(key, "c=%02x x=%02x", c, x); } }
	}
	/* the table-driven product routines themselves: every gf_vect_mul variant, every constant, every byte value */
	for (unsigned vi = 0; vi < sizeof mulv / sizeof mulv[0]; vi++) {
		if (v_isa_ok(mulv[vi].isa) != 1) continue;
		static uint8_t src[256] __attribute__((aligned(64))), dst[256] __attribute__((aligned(64))), t[32]; for (int x = 0; x < 256; x++) src[x] = (uint8_t) x;
		for (int c = 0; c < 256; c++) { gf_vect_mul_init((uint8_t) c, t); memset(dst, 0x5a, 256); v_poison_regs(); int rc = mulv[vi].fn(256, t, src, dst); evals += 256;
			/* and as eight calls of the minimum length 32 (short-length paths), each entered with garbage in every caller-saved register */
			if (!rc) { static uint8_t d2[256] __attribute__((aligned(64))); memset(d2, 0xa5, 256); int rc2 = 0; for (int off = 0; off < 256 && !rc2; off += 32) { v_poison_regs(); rc2 = mulv[vi].fn(32, t, src + off, d2 + off); } evals += 256;
				if (rc2 || memcmp(d2, dst, 256)) { int x = 0; while (x < 256 && d2[x] == dst[x]) x++; snprintf(key, sizeof key, "table-product:%s:%s:len32", mulv[vi].name, V_BUILD_TAG); v_viol(key, "c=%02x: eight calls with len 32 (rc %d) differ from one call with len 256 at x=%02x", c, rc2, x); } }
			for (int x = 0; x < 256 && !rc; x++) if (dst[x] != refgf_mul(c, x)) { snprintf(key, sizeof key, "table-product:%s:%s", mulv[vi].name, V_BUILD_TAG); v_viol(key, "c=%02x x=%02x got %02x want %02x", c, x, dst[x], refgf_mul(c, x)); break; }
			if (rc) { snprintf(key, sizeof key, "table-product:%s:%s", mulv[vi].name, V_BUILD_TAG); v_viol(key, "returned %d for len 256", rc); } }
		v_set("gf_vect_mul_variants_exhausted", mulv[vi].name);
	}
	/* ec_init_tables over matrices (all 256 constants appear, random shapes) */
	for (int it = 0; it < 40; it++) {
		vrng r; vr_seed(&r, vopt.seed, 40, it); int k = vrr(&r, 1, 40), rows = vrr(&r, 1, 14); static uint8_t a[40 * 14], t[32 * 40 * 14 + 64];
		if (it == 0) { k = 32; rows = 8; for (int i = 0; i < 256; i++) a[i] = (uint8_t) i; } else vr_fill(&r, a, k * rows);
		fn_init fns[3] = { init_base, (fn_init) ec_init_tables, 0 };
		for (int f = 0; f < 2; f++) { if (!fns[f]) continue; if (f == 1 && __builtin_cpu_supports("gfni")) continue; /* dispatched builder yields the GFNI form on this host: checked below */
			memset(t, 0xEE, sizeof t); fns[f](k, rows, a, t);
			for (int i = 0; i < rows * k; i++) for (int e = 0; e < 16; e++) { evals += 2; if (t[32 * i + e] != refgf_mul(a[i], e) || t[32 * i + 16 + e] != refgf_mul(a[i], e << 4)) { snprintf(key, sizeof key, "ec_init_tables:%s", V_BUILD_TAG); v_viol(key, "coef %d=%02x entry %d", i, a[i], e); goto nextf; } }
			if (t[32 * k * rows] != 0xEE) { snprintf(key, sizeof key, "ec_init_tables-overrun:%s", V_BUILD_TAG); v_viol(key, "wrote beyond 32*k*rows"); }
		nextf:; }
	}
	/* GFNI affine form: 8-byte matrix of c applied to every x with the SDM semantics (C emulation, and the real instruction where available) */
	if (init_gfni) {
		static uint8_t a[256]; static uint64_t t[256 + 8]; for (int i = 0; i < 256; i++) a[i] = (uint8_t) i;
		memset(t, 0xEE, sizeof t); init_gfni(16, 16, a, (uint8_t *) t);
		int real = __builtin_cpu_supports("gfni");
		for (int c = 0; c < 256; c++) for (int x = 0; x < 256; x++) {
			evals++;
			uint8_t e = affine_emul(t[c], (uint8_t) x);
			if (e != refgf_mul(c, x)) { snprintf(key, sizeof key, "gfni-table:%s", V_BUILD_TAG); v_viol(key, "c=%02x x=%02x affine(emulated)=%02x want %02x", c, x, e, refgf_mul(c, x)); break; }
#ifdef __x86_64__
			if (real && affine_real(t[c], (uint8_t) x) != e) v_harness_fail("GF2P8AFFINEQB emulation disagrees with the real instruction");
#endif
		}
		v_set("gfni_semantics", real ? "C emulation and real instruction" : "C emulation only");
	}
	v_sample("build %s: gf_mul over all 65536 pairs, gf_inv over 256, 256x32 table entries, 256x256 table-driven products, 256x256 GFNI affine products, distributivity/associativity triples", V_BUILD_TAG);
}

/* ---------------------------------------------------------------------------------------------- C09 */
static uint8_t M[256 * 256], Msave[256 * 256], Minv[256 * 256], Mprod[256 * 256];
static long n_inv, n_sing, n_patterns, n_minors, n_pipeline, n_full, n_incr, n_dot;

static int lib_invert_checked(int n, const char *what)
{
	char key[160];
	memcpy(Msave, M, (size_t) n * n);
	uint8_t det = refgf_det(Msave, n);
	int rc = -99;
	if (V_TRY(30)) { rc = gf_invert_matrix(M, Minv, n); V_END; } else { v_describe_fault(); v_viol("fault:gf_invert_matrix", "%s", v_fault_txt); return -2; }
	n_inv++; evals++;
	if (det == 0) { n_sing++; if (rc == 0) { snprintf(key, sizeof key, "invert-accepts-singular:%s", what); v_viol(key, "n=%d: reference determinant is 0 but gf_invert_matrix returned 0", n); return -1; } return 1; }
	if (rc != 0) { snprintf(key, sizeof key, "invert-rejects-nonsingular:%s", what); v_viol(key, "n=%d: reference determinant %02x but gf_invert_matrix returned %d", n, det, rc); return -1; }
	refgf_matmul(Msave, Minv, Mprod, n, n, n);
	for (int i = 0; i < n; i++) for (int j = 0; j < n; j++) if (Mprod[i * n + j] != (i == j)) { snprintf(key, sizeof key, "inverse-wrong:%s", what); v_viol(key, "n=%d: (in x out)[%d][%d]=%02x", n, i, j, Mprod[i * n + j]); return -1; }
	return 0;
}
static void case_invert(long idx, vrng *r)
{
	int n = vrn(r, 4) ? vrr(r, 1, 24) : vrr(r, 1, 128), fam = vrn(r, 12);
	vr_fill(r, M, (size_t) n * n);
	switch (fam) {
	case 0: if (n > 1) { int a = vrn(r, n), b = vrn(r, n - 1); if (b >= a) b++; memcpy(M + b * n, M + a * n, n); } break;                       /* duplicate row */
	case 1: if (n > 2) { int a = vrn(r, n), b = vrn(r, n), c = vrn(r, n); if (a != c && b != c) { uint8_t f = vr32(r), g = vr32(r); for (int j = 0; j < n; j++) M[c * n + j] = refgf_mul(f, M[a * n + j]) ^ refgf_mul(g, M[b * n + j]); } } break; /* linear combination */
	case 2: { int c = vrn(r, n); for (int i = 0; i < n; i++) M[i * n + c] = 0; } break;                                                       /* zero column (any index, incl. early ones) */
	case 3: if (n > 1) { int a = vrn(r, n), b = vrn(r, n - 1); if (b >= a) b++; uint8_t f = 1 + vrn(r, 255); for (int i = 0; i < n; i++) M[i * n + b] = refgf_mul(f, M[i * n + a]); } break; /* proportional columns */
	case 4: { memset(M, 0, (size_t) n * n); int p[128]; for (int i = 0; i < n; i++) p[i] = i; for (int i = n - 1; i > 0; i--) { int q = vrn(r, i + 1), t = p[i]; p[i] = p[q]; p[q] = t; } for (int i = 0; i < n; i++) M[i * n + p[i]] = 1 + vrn(r, 255); } break; /* scaled permutation: needs row swaps */
	case 5: for (int i = 0; i < n; i++) M[i * n + i] = 0; break;                                                                                /* zero diagonal: pivot search every step */
	case 6: { int rdef = vrr(r, 1, n); for (int i = rdef; i < n; i++) { memset(M + i * n, 0, n); for (int q = 0; q < rdef; q++) { uint8_t f = vr32(r); for (int j = 0; j < n; j++) M[i * n + j] ^= refgf_mul(f, M[q * n + j]); } } } break; /* rank <= rdef */
	case 7: { int z = vrn(r, n); memset(M + z * n, 0, n); } break;                                                                              /* zero row */
	case 8: for (int i = 0; i < n * n; i++) if (vrn(r, 4)) M[i] = 0; break;                                                                      /* sparse */
	default: break;
	}
	v_setcase(idx, "invert n=%d family=%d", n, fam);
	uint64_t fp = v_hash64(M, (size_t) n * n, n);
	int rc = lib_invert_checked(n, "random");
	if (rc >= 0 && n > 1) v_distinct(fp);
	if (v_nsamples < 2 && n > 3 && rc == 0) v_sample("%s -> reference determinant non-zero, library returned 0 and in x out = I", v_case);
}
static void gen_matrix(int cauchy, uint8_t *a, int m, int k) { if (cauchy) gf_gen_cauchy1_matrix(a, m, k); else gf_gen_rs_matrix(a, m, k); }
static void check_generator(int cauchy, int m, int k)
{
	static uint8_t a[256 * 256 + 64]; char key[160];
	memset(a, 0xEE, sizeof a); gen_matrix(cauchy, a, m, k); evals++;
	for (int i = 0; i < m; i++) for (int j = 0; j < k; j++) {
		uint8_t want = i < k ? (i == j) : cauchy ? refgf_inv((uint8_t) (i ^ j)) : refgf_pow(refgf_pow(2, i - k), j);
		if (a[i * k + j] != want) { snprintf(key, sizeof key, "generator-formula:%s", cauchy ? "cauchy" : "rs"); v_viol(key, "m=%d k=%d a[%d][%d]=%02x want %02x", m, k, i, j, a[i * k + j], want); return; }
	}
	if (a[m * k] != 0xEE) { snprintf(key, sizeof key, "generator-overrun:%s", cauchy ? "cauchy" : "rs"); v_viol(key, "m=%d k=%d wrote beyond m*k", m, k); }
}
static int rs_safe(int m, int k) { int p = m - k; if (p < 1 || k < 1 || p > 250) return 0; return k <= 3 || (k == 4 && m <= 25) || (k == 5 && m <= 10) || (k <= 21 && p == 4) || p <= 3; }
/* full pipeline for one survivor pattern: invert decode matrix, rebuild erased blocks with ec_encode_data */
static uint8_t enc[256 * 256], blk[256][320], *blkp[256], rec[256][320], *recp[256], dcoef[256 * 256], gtbl[32 * 256 * 32 + 64];
static void pipeline(long idx, int cauchy, int m, int k, const uint8_t *alive /* m flags, exactly k set */, int len, const char *what)
{
	char key[160]; int surv[256], ns = 0, lost[256], nl = 0;
	for (int i = 0; i < m; i++) if (alive[i]) surv[ns++] = i; else lost[nl++] = i;
	for (int r = 0; r < k; r++) memcpy(M + r * k, enc + surv[r] * k, k);
	v_setcase(idx, "%s %s m=%d k=%d lost=%d first_lost=%d len=%d", what, cauchy ? "cauchy" : "rs", m, k, nl, nl ? lost[0] : -1, len);
	int rc = lib_invert_checked(k, cauchy ? "cauchy-decode" : "rs-decode");
	n_patterns++;
	if (rc == 1) { snprintf(key, sizeof key, "survivors-not-invertible:%s", cauchy ? "cauchy" : "rs"); v_viol(key, "m=%d k=%d: decode matrix of a survivor set is singular (reference determinant 0)", m, k); return; }
	if (rc != 0 || nl == 0 || nl > 32) return;
	/* decode coefficients: erased data row d -> row d of inverse; erased parity row p -> enc[p] x inverse */
	for (int e = 0; e < nl; e++) { int row = lost[e]; if (row < k) memcpy(dcoef + e * k, Minv + row * k, k); else refgf_matmul(enc + row * k, Minv, dcoef + e * k, 1, k, k); }
	for (int r = 0; r < k; r++) recp[r] = blk[surv[r]];
	uint8_t *outp[32]; for (int e = 0; e < nl; e++) { outp[e] = rec[e]; memset(rec[e], 0xAA, len + 8); }
	if (V_TRY(30)) { ec_init_tables(k, nl, dcoef, gtbl); ec_encode_data(len, k, nl, gtbl, recp, outp); V_END; } else { v_describe_fault(); v_viol("fault:ec_encode_data:recovery", "%s", v_fault_txt); return; }
	n_pipeline++; evals++;
	for (int e = 0; e < nl; e++) if (memcmp(rec[e], blk[lost[e]], len)) { snprintf(key, sizeof key, "recovery-mismatch:%s", cauchy ? "cauchy" : "rs"); v_viol(key, "m=%d k=%d erased block %d not reproduced", m, k, lost[e]); return; }
	/* the same recovery done incrementally: parity-style accumulation with ec_encode_data_update(), survivors fed in a scrambled order */
	if ((idx & 3) == 2 && nl <= 32) {
		int order[256]; for (int j = 0; j < k; j++) order[j] = j; for (int j = k - 1; j > 0; j--) { int t = (int) ((idx * 2654435761u + (unsigned) j * 40503u) % (unsigned) (j + 1)); int x = order[j]; order[j] = order[t]; order[t] = x; }
		for (int e = 0; e < nl; e++) { outp[e] = rec[e]; memset(rec[e], 0, len + 8); }
		if (V_TRY(30)) { ec_init_tables(k, nl, dcoef, gtbl); for (int j = 0; j < k; j++) ec_encode_data_update(len, k, nl, order[j], gtbl, recp[order[j]], outp); V_END; } else { v_describe_fault(); v_viol("fault:ec_encode_data_update:recovery", "%s", v_fault_txt); return; }
		n_pipeline++; n_incr++;
		for (int e = 0; e < nl; e++) if (memcmp(rec[e], blk[lost[e]], len)) { snprintf(key, sizeof key, "recovery-mismatch:%s:incremental", cauchy ? "cauchy" : "rs"); v_viol(key, "m=%d k=%d erased block %d not reproduced by ec_encode_data_update over the survivors in scrambled order (first source fed: %d)", m, k, lost[e], order[0]); return; }
	}
	/* a single erased block through the public gf_vect_dot_prod() (32-byte tables from gf_vect_mul_init, documented minimum length 32) */
	if ((idx & 3) == 3 && len >= 32 && k <= 255) {
		static uint8_t tb[32 * 256]; int e = (int) (idx >> 2) % nl; for (int j = 0; j < k; j++) gf_vect_mul_init(dcoef[e * k + j], tb + 32 * j);
		memset(rec[0], 0x33, len + 8);
		if (V_TRY(30)) { gf_vect_dot_prod(len, k, tb, recp, rec[0]); V_END; } else { v_describe_fault(); v_viol("fault:gf_vect_dot_prod:recovery", "%s", v_fault_txt); return; }
		n_pipeline++; n_dot++;
		if (memcmp(rec[0], blk[lost[e]], len)) { snprintf(key, sizeof key, "recovery-mismatch:%s:gf_vect_dot_prod", cauchy ? "cauchy" : "rs"); v_viol(key, "m=%d k=%d len=%d erased block %d not reproduced by gf_vect_dot_prod", m, k, len, lost[e]); return; }
	}
	/* decode with the whole inverse into the same (now used) table buffer: all k data blocks come back, the rows of surviving data blocks are unit vectors (zero coefficients) */
	if (k <= 32 && (idx & 1)) {
		for (int e = 0; e < k; e++) { outp[e] = rec[e]; memset(rec[e], 0x55, len + 8); }
		if (V_TRY(30)) { ec_init_tables(k, k, Minv, gtbl); ec_encode_data(len, k, k, gtbl, recp, outp); V_END; } else { v_describe_fault(); v_viol("fault:ec_encode_data:recovery", "%s", v_fault_txt); return; }
		n_pipeline++; n_full++;
		for (int e = 0; e < k; e++) if (memcmp(rec[e], blk[e], len)) { snprintf(key, sizeof key, "recovery-mismatch:%s:full-inverse", cauchy ? "cauchy" : "rs"); v_viol(key, "m=%d k=%d: data block %d not reproduced when all k blocks are rebuilt with the full inverse (table buffer reused)", m, k, e); return; }
	}
	v_distinct(v_hash64(alive, m, (uint64_t) m * 65536 + k * 256 + cauchy));
}
static void make_blocks(vrng *r, int m, int k, int len)
{
	/* data blocks random, parity blocks = reference product of the generator matrix */
	for (int i = 0; i < k; i++) vr_fill(r, blk[i], len);
	for (int i = k; i < m; i++) { memset(blk[i], 0, len); for (int j = 0; j < k; j++) { const uint8_t *row = refgf_tab[enc[i * k + j]]; for (int x = 0; x < len; x++) blk[i][x] ^= row[blk[j][x]]; } }
}
static void exhaustive_patterns(int cauchy, int mmax)
{
	for (int m = 2; m <= mmax; m++) for (int k = 1; k < m; k++) {
		if (!cauchy && !rs_safe(m, k)) continue;
		long base = 10000000l * (cauchy + 1) + m * 1000l + k; if (!v_mine(base)) continue;
		vrng r; vr_seed(&r, vopt.seed, 41, base); int len = vrr(&r, 1, 200);
		gen_matrix(cauchy, enc, m, k); make_blocks(&r, m, k, len);
		/* every k-subset of m rows */
		uint8_t alive[256]; int c[32]; for (int i = 0; i < k; i++) c[i] = i;
		for (;;) {
			memset(alive, 0, m); for (int i = 0; i < k; i++) alive[c[i]] = 1;
			pipeline(base, cauchy, m, k, alive, len, "exhaustive");
			int i = k - 1; while (i >= 0 && c[i] == m - k + i) i--; if (i < 0) break; c[i]++; for (int j = i + 1; j < k; j++) c[j] = c[j - 1] + 1;
		}
		char b[64]; snprintf(b, sizeof b, "%s m=%d k=%d", cauchy ? "cauchy" : "rs", m, k); v_set("exhaustive_mk", b);
	}
}
/* minors of the parity block: e parity rows x e data columns, inverted by the library, judged by the reference determinant */
static void minors(int cauchy, int m, int k, long budget, vrng *r, long idx)
{
	int p = m - k, emax = p < k ? p : k; if (emax > 4) emax = 4;
	gen_matrix(cauchy, enc, m, k); char key[160];
	for (int e = 1; e <= emax; e++) {
		/* total = C(p,e)*C(k,e); enumerate completely when small, else sample `budget` */
		double tot = 1; for (int i = 0; i < e; i++) tot = tot * (p - i) / (i + 1); double tk = 1; for (int i = 0; i < e; i++) tk = tk * (k - i) / (i + 1); tot *= tk;
		int full = tot <= budget; long n = full ? (long) tot : budget;
		int rr[4], cc[4]; for (int i = 0; i < e; i++) { rr[i] = i; cc[i] = i; }
		for (long q = 0; q < n; q++) {
			if (!full) { /* random distinct rows / columns */
				for (int i = 0; i < e; i++) { again: rr[i] = vrn(r, p); for (int j = 0; j < i; j++) if (rr[j] == rr[i]) goto again; }
				for (int i = 0; i < e; i++) { again2: cc[i] = vrn(r, k); for (int j = 0; j < i; j++) if (cc[j] == cc[i]) goto again2; }
			}
			for (int i = 0; i < e; i++) for (int j = 0; j < e; j++) M[i * e + j] = enc[(k + rr[i]) * k + cc[j]];
			v_setcase(idx, "minor %s m=%d k=%d size=%d rows=%d,%d,%d,%d cols=%d,%d,%d,%d", cauchy ? "cauchy" : "rs", m, k, e, rr[0], e > 1 ? rr[1] : -1, e > 2 ? rr[2] : -1, e > 3 ? rr[3] : -1, cc[0], e > 1 ? cc[1] : -1, e > 2 ? cc[2] : -1, e > 3 ? cc[3] : -1);
			int rc = lib_invert_checked(e, "minor"); n_minors++;
			if (rc == 1) { snprintf(key, sizeof key, "survivors-not-invertible:%s", cauchy ? "cauchy" : "rs"); v_viol(key, "m=%d k=%d: singular %dx%d minor of the parity block => some survivor set cannot decode", m, k, e, e); return; }
			if (full) { /* next combination pair: columns fastest */
				int i = e - 1; while (i >= 0 && cc[i] == k - e + i) i--;
				if (i >= 0) { cc[i]++; for (int j = i + 1; j < e; j++) cc[j] = cc[j - 1] + 1; }
				else { for (int j = 0; j < e; j++) cc[j] = j; i = e - 1; while (i >= 0 && rr[i] == p - e + i) i--; if (i < 0) break; rr[i]++; for (int j = i + 1; j < e; j++) rr[j] = rr[j - 1] + 1; }
			}
		}
		if (full) { char b[80]; snprintf(b, sizeof b, "%s m=%d k=%d minors of size %d: all %ld", cauchy ? "cauchy" : "rs", m, k, e, n); v_set("minors_enumerated_completely", b); }
	}
}
static void run_C09(void)
{
	long ninv = (long) ((vopt.thorough ? 60000 : 3000) * vopt.scale);
	for (long idx = 0; idx < ninv; idx++) { if (!v_mine(idx)) continue; vrng r; vr_seed(&r, vopt.seed, 42, idx); case_invert(idx, &r); }
	/* generator formulas: all (m,k) with m <= 48, plus m in {64,128,255,256} for several k */
	long gi = 1000000;
	for (int c = 0; c < 2; c++) {
		for (int m = 2; m <= 48; m++) for (int k = 1; k < m; k++, gi++) if (v_mine(gi)) { v_setcase(gi, "generator %s m=%d k=%d", c ? "cauchy" : "rs", m, k); check_generator(c, m, k); }
		static const int ms[] = { 64, 128, 200, 255, 256 }, ksl[] = { 1, 2, 3, 4, 10, 21, 64, 127, 128, 200, 250, 252, 253 };
		for (int a = 0; a < 5; a++) for (int b = 0; b < 13; b++, gi++) if (ksl[b] < ms[a] && v_mine(gi)) { v_setcase(gi, "generator %s m=%d k=%d", c ? "cauchy" : "rs", ms[a], ksl[b]); check_generator(c, ms[a], ksl[b]); }
	}
	/* exhaustive survivor patterns, full pipeline */
	int mmax = vopt.thorough ? 16 : 11;
	exhaustive_patterns(1, mmax); exhaustive_patterns(0, mmax);
	/* minor enumeration for the documented Vandermonde families and for Cauchy */
	struct { int c, m, k; } fam[] = { {0, 255, 1}, {0, 255, 2}, {0, 255, 3}, {0, 25, 4}, {0, 10, 5}, {0, 25, 21}, {0, 24, 20}, {0, 15, 11}, {0, 255, 252}, {0, 200, 197}, {0, 66, 63}, {0, 130, 128}, {0, 255, 253}, {0, 255, 254},
		{1, 256, 252}, {1, 256, 128}, {1, 256, 4}, {1, 256, 200}, {1, 64, 32}, {1, 255, 250}, {1, 20, 10} };
	long budget = (long) ((vopt.thorough ? 3000000 : 40000) * vopt.scale);
	for (unsigned f = 0; f < sizeof fam / sizeof fam[0]; f++) { long idx = 3000000 + f; if (!v_mine(idx)) continue; vrng r; vr_seed(&r, vopt.seed, 43, idx); minors(fam[f].c, fam[f].m, fam[f].k, budget, &r, idx); }
	/* sampled full pipeline for large (m,k) */
	long ns = (long) ((vopt.thorough ? 4000 : 160) * vopt.scale);
	for (long q = 0; q < ns; q++) { long idx = 4000000 + q; if (!v_mine(idx)) continue; vrng r; vr_seed(&r, vopt.seed, 44, idx);
		int cauchy = vrn(&r, 3) != 0, m, k;
		if (cauchy) { m = vrn(&r, 2) ? 255 + vrn(&r, 2) : vrr(&r, 17, 256); k = vrr(&r, m > 40 ? m - 32 : 1, m - 1); if (k < 1) k = 1; }
		else { static const int mk[][2] = { {255, 3}, {100, 2}, {25, 4}, {10, 5}, {25, 21}, {255, 252}, {131, 128}, {24, 20}, {60, 57}, {200, 1} }; int w = vrn(&r, 10); m = mk[w][0]; k = mk[w][1]; }
		int len = vrr(&r, 0, 300); gen_matrix(cauchy, enc, m, k); make_blocks(&r, m, k, len);
		uint8_t alive[256]; memset(alive, 1, m); int nl = m - k; for (int e = 0; e < nl; e++) { int x; do x = vrn(&r, m); while (!alive[x]); alive[x] = 0; }
		pipeline(idx, cauchy, m, k, alive, len, "sampled");
	}
	/* the recovery pipeline through whichever encode implementation each CPU level's resolver selects */
	if (V_NDISPATCHED > 0) for (int l = 0; l < CPUSIM_NNAMED; l++) {
		const cpucfg *c = &cpusim_named[l]; if (!cpusim_host_can(c)) continue; cpusim_apply(c); v_set("cpu_levels", c->name);
		long nl2 = (long) ((vopt.thorough ? 6000 : 600) * vopt.scale);
		for (long q = 0; q < nl2; q++) { long idx = 5000000 + l * 100000l + q; if (!v_mine(idx)) continue; vrng r; vr_seed(&r, vopt.seed, 45, idx);
			int cauchy = vrn(&r, 4) != 0, m, k; if (cauchy) { int p = 1 + vrn(&r, 14); k = 1 + vrn(&r, 20); m = k + p; } else { static const int mk[][2] = { {9, 3}, {12, 2}, {25, 4}, {10, 5}, {25, 21}, {16, 13}, {24, 20}, {8, 1} }; int w = vrn(&r, 8); m = mk[w][0]; k = mk[w][1]; }
			int len = vrn(&r, 3) == 0 ? (int[]){ 16, 32, 48, 64, 96, 128, 192, 256 }[vrn(&r, 8)] : vrn(&r, 4) ? vrr(&r, 1, 140) : vrr(&r, 0, 300); gen_matrix(cauchy, enc, m, k); make_blocks(&r, m, k, len);
			uint8_t alive[256]; memset(alive, 1, m); for (int e = 0; e < m - k; e++) { int x; do x = vrn(&r, m); while (!alive[x]); alive[x] = 0; }
			pipeline(idx, cauchy, m, k, alive, len, c->name); }
	}
	v_stat("inversions", n_inv); v_stat("singular_inputs", n_sing); v_stat("survivor_patterns", n_patterns); v_stat("minors", n_minors); v_stat("recoveries_via_ec_encode_data", n_pipeline); v_stat("full_inverse_decodes_with_reused_tables", n_full); v_stat("incremental_decodes_in_scrambled_order", n_incr); v_stat("single_block_decodes_via_gf_vect_dot_prod", n_dot);
}

int main(int argc, char **argv)
{
	v_init(argc, argv);
	if (refgf_init()) v_harness_fail("refgf self-test failed");
	if (V_NDISPATCHED > 0) cpusim_init();
	for (int i = 0; i < 256; i++) { blkp[i] = blk[i]; }
#define X(s, n, isa) if (!strcmp(#s, "ec_init_tables_base")) init_base = (fn_init) ksym_##s; if (!strcmp(#s, "ec_init_tables_gfni")) init_gfni = (fn_init) ksym_##s;
	V_INITTBL_LIST(X)
#undef X
	if (!strcmp(vopt.prop, "C12")) { if (vopt.only >= 0 || vopt.shard == 0) run_C12(); }
	else run_C09();
	v_stat("evaluations", evals);
	return v_finish();
}
