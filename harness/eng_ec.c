/* eng_ec.c - erasure-code kernels: C03 (encode / dot product == GF(2^8) matrix product in every variant)
 * and C13 (incremental update == full encode, any order, every variant; constant multiply).
 * Also serves C05 (guard-page placement of every buffer) with --prop C05.
 * Every implementation variant found in the library's symbol table is called directly; the dispatchers are
 * additionally run under simulated CPU levels through the real resolvers. */
#include "v.h"
#include "visa.h"
#include "refgf.h"
#include "cpusim.h"
#include "erasure_code.h"

/* the calls exactly as an application writes them: through the public headers (whatever prototype, macro or inline wrapper they provide) */
#include "gf_vect_mul.h"
static void hdr_gf_vect_dot_prod(int len, int vlen, unsigned char *g, unsigned char **src, unsigned char *dest) { gf_vect_dot_prod(len, vlen, g, src, dest); }
static void hdr_gf_vect_mad(int len, int vec, int vec_i, unsigned char *g, unsigned char *src, unsigned char *dest) { gf_vect_mad(len, vec, vec_i, g, src, dest); }
static void hdr_ec_encode_data(int len, int k, int rows, unsigned char *g, unsigned char **data, unsigned char **coding) { ec_encode_data(len, k, rows, g, data, coding); }
static void hdr_ec_encode_data_update(int len, int k, int rows, int vec_i, unsigned char *g, unsigned char *data, unsigned char **coding) { ec_encode_data_update(len, k, rows, vec_i, g, data, coding); }
static int hdr_gf_vect_mul(int len, unsigned char *gftbl, void *src, void *dest) { return gf_vect_mul(len, gftbl, src, dest); }
typedef void (*fn_dot1)(int, int, unsigned char *, unsigned char **, unsigned char *);
typedef void (*fn_dotn)(int, int, unsigned char *, unsigned char **, unsigned char **);
typedef void (*fn_mad1)(int, int, int, unsigned char *, unsigned char *, unsigned char *);
typedef void (*fn_madn)(int, int, int, unsigned char *, unsigned char *, unsigned char **);
typedef void (*fn_enc)(int, int, int, unsigned char *, unsigned char **, unsigned char **);
typedef void (*fn_upd)(int, int, int, int, unsigned char *, unsigned char *, unsigned char **);
typedef int (*fn_mul)(int, unsigned char *, void *, void *);
typedef void (*fn_init)(int, int, unsigned char *, unsigned char *);

enum { F_DOT, F_MAD, F_ENC, F_UPD, F_MUL };
typedef struct { const char *name; void *fn; int n; const char *isa; int fam; int ok; uint64_t resmask, alnmask; long calls, judged; } ksym;
#define X(s, n, isa) extern char ksym_##s[] __asm__(#s);
V_DOTPROD_LIST(X) V_MAD_LIST(X) V_ENCODE_LIST(X) V_UPDATE_LIST(X) V_GFMUL_LIST(X) V_INITTBL_LIST(X)
#undef X
static ksym syms[] = {
#define X(s, n, isa) { #s, (void *) ksym_##s, n, isa, F_DOT, 0, 0, 0, 0, 0 },
	V_DOTPROD_LIST(X)
#undef X
#define X(s, n, isa) { #s, (void *) ksym_##s, n, isa, F_MAD, 0, 0, 0, 0, 0 },
	V_MAD_LIST(X)
#undef X
#define X(s, n, isa) { #s, (void *) ksym_##s, n, isa, F_ENC, 0, 0, 0, 0, 0 },
	V_ENCODE_LIST(X)
#undef X
#define X(s, n, isa) { #s, (void *) ksym_##s, n, isa, F_UPD, 0, 0, 0, 0, 0 },
	V_UPDATE_LIST(X)
#undef X
#define X(s, n, isa) { #s, (void *) ksym_##s, n, isa, F_MUL, 0, 0, 0, 0, 0 },
	V_GFMUL_LIST(X)
#undef X
	{ "gf_vect_dot_prod@erasure_code.h", (void *) hdr_gf_vect_dot_prod, 1, "disp", F_DOT, 0, 0, 0, 0, 0 }, { "gf_vect_mad@erasure_code.h", (void *) hdr_gf_vect_mad, 1, "disp", F_MAD, 0, 0, 0, 0, 0 },
	{ "ec_encode_data@erasure_code.h", (void *) hdr_ec_encode_data, 1, "disp", F_ENC, 0, 0, 0, 0, 0 }, { "ec_encode_data_update@erasure_code.h", (void *) hdr_ec_encode_data_update, 1, "disp", F_UPD, 0, 0, 0, 0, 0 },
	{ "gf_vect_mul@gf_vect_mul.h", (void *) hdr_gf_vect_mul, 1, "disp", F_MUL, 0, 0, 0, 0, 0 },
};
#define NSYMS ((int) (sizeof syms / sizeof syms[0]))
static fn_init init_base, init_gfni, init_disp;

#define MAXK 255
#define MAXROWS 14
#define MAXLEN 8192
static gslot *s_src[MAXK], *s_dst[MAXROWS], *s_tbl, *s_sp, *s_dp, *s_coef;
static uint8_t exp_buf[MAXROWS][MAXLEN + 64];

static int vecw(const char *isa) { if (strstr(isa, "avx512")) return 64; if (strstr(isa, "avx2")) return 32; if (!strcmp(isa, "base") || !strcmp(isa, "disp")) return 64; return 16; }
static int minlen(const ksym *s)
{
	if (s->fam == F_ENC || s->fam == F_UPD) return 0;           /* high-level functions accept any length */
	if (!strcmp(s->isa, "disp")) return s->fam == F_DOT ? 32 : s->fam == F_MAD ? 64 : 0;  /* public gf_vect_dot_prod: >= 32, gf_vect_mad: >= 64 */
	if (!strcmp(s->isa, "base")) return 0;
	if (strstr(s->isa, "avx512")) return 64;
	if (strstr(s->isa, "avx2")) return 32;
	return s->fam == F_MAD ? 32 : 16;                           /* header: dot_prod sse/avx >= 16, mad sse/avx >= 32 */
}
static int pick_len(vrng *r, int w, int cap)
{
	int c = vrn(r, 100), len;
	if (c < 45) len = vrn(r, 2 * w + 2);
	else if (c < 60) { static const int ctr[] = { 128, 256, 512, 1024, 4096 }; len = ctr[vrn(r, 5)] + vrr(r, -65, 65); }
	else if (c < 85) len = vrn(r, 700);
	else len = vrn(r, cap + 1);
	if (len > cap) len = cap;
	if (len < 0) len = 0;
	return len;
}
static int pick_k(vrng *r)
{
	static const int ks[] = { 1, 2, 3, 4, 5, 7, 8, 10, 16, 17, 32, 64, 127, 255 };
	return vrn(r, 3) ? ks[vrn(r, 10)] : ks[vrn(r, 14)];
}
static void gen_coef(vrng *r, uint8_t *a, int rows, int k)
{
	int fam = vrn(r, 10), n = rows * k;
	switch (fam) {
	case 0: memset(a, 0, n); break;
	case 1: memset(a, 1, n); break;
	case 2: memset(a, 0xff, n); break;
	case 3: memset(a, 0, n); a[vrn(r, n)] = (uint8_t) (1 + vrn(r, 255)); break;
	case 4: for (int i = 0; i < n; i++) a[i] = (uint8_t) (1u << vrn(r, 8)); break;
	default: vr_fill(r, a, n); break;
	}
}
static uint8_t *place(vrng *r, gslot *g, size_t len, int *desc)
{
	int p = vrn(r, 3), al = vrn(r, 64);
	*desc = p * 100 + al;
	return gs_place(g, len, p, al);
}
static void report_fault(const ksym *s, const char *what)
{
	v_describe_fault();
	char key[200]; snprintf(key, sizeof key, "fault:%s:%s:%s", v_fault_sym(), v_fault_slot(), v_fault.sig == SIGALRM ? "hang" : v_fault.sig == SIGILL ? "sigill" : "access");
	v_viol(key, "%s: %s", what, v_fault_txt);
}
static void check_canaries(const ksym *s, gslot **g, int n, const char *what)
{
	for (int i = 0; i < n; i++) {
		long d = gs_check(g[i], 4096);
		if (d != GS_OK) { char key[200]; snprintf(key, sizeof key, "oob-write:%s:%s", s->name, what); v_viol(key, "%s %d: canary damaged at buffer%+ld (len %zu)", what, i, d, g[i]->curlen); gs_repaint_all(g[i]); }
	}
}

/* ---- one dot-product / encode case */
static void case_encode(long idx, ksym *s, vrng *r, const cpucfg *lvl)
{
	int direct = s->fam == F_DOT;
	int rows = direct ? s->n : vrr(r, 1, MAXROWS), k = pick_k(r), w = vecw(s->isa);
	int cap = MAXLEN; while ((long) cap * k * rows > 1500000 && cap > 2 * w + 2) cap /= 2;
	int len = pick_len(r, w, cap), ml = minlen(s), judged = len >= ml;
	int gfni = strstr(s->isa, "gfni") != 0;
	uint8_t a[MAXROWS * MAXK]; gen_coef(r, a, rows, k);
	int d_src[MAXK], d_dst[MAXROWS];
	uint64_t tag = vr64(r);
	uint8_t *tbl = vrn(r, 3) ? gs_place(s_tbl, (size_t) 32 * k * rows, vrn(r, 2) ? G_END : G_START, 0) : gs_place(s_tbl, (size_t) 32 * k * rows, G_NEAR_END, 1 + (int) vrn(r, 63));   /* the headers ask for no particular alignment of the tables */
	uint8_t **sp = (uint8_t **) gs_place(s_sp, 8 * (size_t) k, G_END, 0), **dp = (uint8_t **) gs_place(s_dp, 8 * (size_t) rows, G_END, 0);
	for (int j = 0; j < k; j++) { sp[j] = place(r, s_src[j], len, &d_src[j]); v_fill_tag(sp[j], len, tag + j); }
	for (int i = 0; i < rows; i++) { dp[i] = place(r, s_dst[i], len, &d_dst[i]); v_fill_tag(dp[i], len, tag + 1000 + i); }
	/* gf_vect_dot_prod / gf_vect_mad dispatchers take the 32-byte (gf_vect_mul_init) table form; only ec_encode_data[_update] pair with the dispatched ec_init_tables */
	fn_init ini = !strcmp(s->isa, "disp") ? ((s->fam == F_ENC || s->fam == F_UPD) ? init_disp : init_base) : gfni ? init_gfni : init_base;
	v_setcase(idx, "sym=%s level=%s len=%d k=%d rows=%d coef0=%02x src0place=%d dst0place=%d tag=%llx", s->name, lvl ? lvl->name : "-", len, k, rows, a[0], d_src[0], d_dst[0], (unsigned long long) tag);
	if (!ini) return;
	memset(tbl, 0xEE, (size_t) 32 * k * rows);
	ini(k, rows, a, tbl);
	uint64_t tblh = v_hash64(tbl, (size_t) 32 * k * rows, 1);
	if (V_TRY(20)) {
		if (s->fam == F_ENC) V_ABI(s->fn, len, k, rows, tbl, sp, dp);
		else if (s->n == 1) V_ABI(s->fn, len, k, tbl, sp, dp[0]);
		else V_ABI(s->fn, len, k, tbl, sp, dp);
		V_END;
	} else { report_fault(s, "encode"); goto out; }
	s->calls++; s->resmask |= 1ull << (len & 63); s->alnmask |= 1ull << ((uintptr_t) dp[0] & 63);
	if (judged) {
		s->judged++;
		for (int i = 0; i < rows; i++) {
			uint8_t *e = exp_buf[i]; memset(e, 0, len);
			for (int j = 0; j < k; j++) { const uint8_t *row = refgf_tab[a[i * k + j]], *src = sp[j]; if (a[i * k + j]) for (int x = 0; x < len; x++) e[x] ^= row[src[x]]; }
			if (memcmp(e, dp[i], len)) {
				int x = 0; while (e[x] == dp[i][x]) x++;
				char key[200]; snprintf(key, sizeof key, "wrong-product:%s", s->name);
				v_viol(key, "row %d byte %d: got %02x want %02x", i, x, dp[i][x], e[x]);
				break;
			}
		}
	}
	for (int j = 0; j < k; j++) { long o = v_check_tag(sp[j], len, tag + j); if (o >= 0) { char key[200]; snprintf(key, sizeof key, "source-modified:%s", s->name); v_viol(key, "source %d byte %ld changed", j, o); break; } }
	if (v_hash64(tbl, (size_t) 32 * k * rows, 1) != tblh) { char key[200]; snprintf(key, sizeof key, "tables-modified:%s", s->name); v_viol(key, "gf tables changed by the call"); }
	for (int j = 0; j < k; j++) if (sp[j] != s_src[j]->cur) { char key[200]; snprintf(key, sizeof key, "ptr-array-modified:%s", s->name); v_viol(key, "src pointer %d changed", j); break; }
	for (int i = 0; i < rows; i++) if (dp[i] != s_dst[i]->cur) { char key[200]; snprintf(key, sizeof key, "ptr-array-modified:%s", s->name); v_viol(key, "dest pointer %d changed", i); break; }
	check_canaries(s, s_src, k, "src"); check_canaries(s, s_dst, rows, "dest"); check_canaries(s, &s_tbl, 1, "tables"); check_canaries(s, &s_sp, 1, "srcptrs"); check_canaries(s, &s_dp, 1, "destptrs");
	if (judged && len > 0) { int nz = 0; for (int i = 0; i < rows * k; i++) nz |= a[i]; if (nz) { uint64_t fp = v_hash64(a, rows * k, tag) ^ v_hash64(s->name, strlen(s->name), len * 131 + k); v_distinct(fp); } }
	if (v_nsamples < 2 && judged && len > 40) { char hx[40]; v_hex(hx, sizeof hx, dp[0], 12); v_sample("%s -> dest0[0..12]=%s matches reference product", v_case, hx); }
out:
	for (int j = 0; j < k; j++) gs_reset(s_src[j]);
	for (int i = 0; i < rows; i++) gs_reset(s_dst[i]);
	gs_reset(s_tbl); gs_reset(s_sp); gs_reset(s_dp);
}

/* ---- one update history: zero parity, apply every source once in a permuted order, some sources three times */
static void case_update(long idx, ksym *s, vrng *r, const cpucfg *lvl)
{
	int direct = s->fam == F_MAD;
	int rows = direct ? s->n : vrr(r, 1, MAXROWS), k = pick_k(r), w = vecw(s->isa);
	if (k > 64 && vrn(r, 4)) k = vrr(r, 1, 20);
	int cap = MAXLEN; while ((long) cap * k * rows > 600000 && cap > 2 * w + 2) cap /= 2;
	int len = pick_len(r, w, cap), ml = minlen(s), judged = len >= ml;
	int gfni = strstr(s->isa, "gfni") != 0;
	uint8_t a[MAXROWS * MAXK]; gen_coef(r, a, rows, k);
	uint64_t tag = vr64(r);
	uint8_t *tbl = vrn(r, 3) ? gs_place(s_tbl, (size_t) 32 * k * rows, vrn(r, 2) ? G_END : G_START, 0) : gs_place(s_tbl, (size_t) 32 * k * rows, G_NEAR_END, 1 + (int) vrn(r, 63));   /* the headers ask for no particular alignment of the tables */
	uint8_t **dp = (uint8_t **) gs_place(s_dp, 8 * (size_t) rows, G_END, 0);
	int dd; uint8_t *srcs[MAXK];
	for (int j = 0; j < k; j++) { srcs[j] = place(r, s_src[j], len, &dd); v_fill_tag(srcs[j], len, tag + j); }
	int zero_start = vrn(r, 4) != 0;
	for (int i = 0; i < rows; i++) { dp[i] = place(r, s_dst[i], len, &dd); if (zero_start) memset(dp[i], 0, len); else v_fill_tag(dp[i], len, tag + 1000 + i); memcpy(exp_buf[i], dp[i], len); }
	/* gf_vect_dot_prod / gf_vect_mad dispatchers take the 32-byte (gf_vect_mul_init) table form; only ec_encode_data[_update] pair with the dispatched ec_init_tables */
	fn_init ini = !strcmp(s->isa, "disp") ? ((s->fam == F_ENC || s->fam == F_UPD) ? init_disp : init_base) : gfni ? init_gfni : init_base;
	if (!ini) return;
	memset(tbl, 0xEE, (size_t) 32 * k * rows); ini(k, rows, a, tbl);
	/* order: permutation of 0..k-1, then up to 3 sources applied twice more (must cancel) */
	int order[MAXK + 8], n = k; for (int j = 0; j < k; j++) order[j] = j;
	int pk = vrn(r, 3);
	if (pk == 1) for (int j = 0; j < k / 2; j++) { int t = order[j]; order[j] = order[k - 1 - j]; order[k - 1 - j] = t; }
	else if (pk == 2) for (int j = k - 1; j > 0; j--) { int q = vrn(r, j + 1), t = order[j]; order[j] = order[q]; order[q] = t; }
	int extra = vrn(r, 4); for (int e = 0; e < extra; e++) { int q = vrn(r, k), pos = vrn(r, n + 1); memmove(order + pos + 2, order + pos, (n - pos) * sizeof(int)); order[pos] = q; order[pos + 1] = q; n += 2; }
	v_setcase(idx, "sym=%s level=%s len=%d k=%d rows=%d perm=%d extra=%d zero_start=%d tag=%llx", s->name, lvl ? lvl->name : "-", len, k, rows, pk, extra, zero_start, (unsigned long long) tag);
	int bad = 0;
	for (int u = 0; u < n && !bad; u++) {
		int vi = order[u];
		if (V_TRY(20)) {
			if (s->fam == F_UPD) V_ABI(s->fn, len, k, rows, vi, tbl, srcs[vi], dp);
			else if (s->n == 1) V_ABI(s->fn, len, k, vi, tbl, srcs[vi], dp[0]);
			else V_ABI(s->fn, len, k, vi, tbl, srcs[vi], dp);
			V_END;
		} else { report_fault(s, "update"); bad = 1; break; }
		s->calls++;
		if (!judged) continue;
		s->judged++;
		for (int i = 0; i < rows && !bad; i++) {
			const uint8_t *row = refgf_tab[a[i * k + vi]]; uint8_t *e = exp_buf[i]; const uint8_t *src = srcs[vi];
			for (int x = 0; x < len; x++) e[x] ^= row[src[x]];
			if (memcmp(e, dp[i], len)) {
				int x = 0; while (e[x] == dp[i][x]) x++;
				char key[200]; snprintf(key, sizeof key, "wrong-update:%s", s->name);
				v_viol(key, "update #%d (vec_i=%d) parity %d byte %d: got %02x want %02x (coef %02x)", u, vi, i, x, dp[i][x], e[x], a[i * k + vi]);
				bad = 1;
			}
		}
	}
	s->resmask |= 1ull << (len & 63); s->alnmask |= 1ull << ((uintptr_t) dp[0] & 63);
	if (!bad) {
		if (judged && zero_start) {
			/* final parity == full encode of all sources (reference product) */
			for (int i = 0; i < rows; i++) {
				static uint8_t f[MAXLEN + 64]; memset(f, 0, len);
				for (int j = 0; j < k; j++) if (a[i * k + j]) { const uint8_t *row = refgf_tab[a[i * k + j]]; for (int x = 0; x < len; x++) f[x] ^= row[srcs[j][x]]; }
				if (memcmp(f, dp[i], len)) { char key[200]; snprintf(key, sizeof key, "update-ne-encode:%s", s->name); v_viol(key, "parity %d differs from full encode after all updates", i); break; }
			}
		}
		for (int j = 0; j < k; j++) { long o = v_check_tag(srcs[j], len, tag + j); if (o >= 0) { char key[200]; snprintf(key, sizeof key, "source-modified:%s", s->name); v_viol(key, "source %d byte %ld changed", j, o); break; } }
		check_canaries(s, s_src, k, "src"); check_canaries(s, s_dst, rows, "dest"); check_canaries(s, &s_tbl, 1, "tables"); check_canaries(s, &s_dp, 1, "destptrs");
		if (judged && len > 0) v_distinct(v_hash64(a, rows * k, tag) ^ v_hash64(s->name, strlen(s->name), len * 131 + k + 7 * pk));
		if (v_nsamples < 4 && judged && len > 40 && k > 2) v_sample("%s -> %d updates, parity equals reference after each", v_case, n);
	}
	for (int j = 0; j < k; j++) gs_reset(s_src[j]);
	for (int i = 0; i < rows; i++) gs_reset(s_dst[i]);
	gs_reset(s_tbl); gs_reset(s_dp);
}

/* ---- constant multiply */
static void case_mul(long idx, ksym *s, vrng *r)
{
	int len = vrn(r, 4) ? 32 * vrn(r, 40) : vrn(r, 1300); uint8_t c = (uint8_t) (vrn(r, 5) ? vr32(r) : vrn(r, 3));
	uint8_t *tbl = gs_place(s_tbl, 32, vrn(r, 2) ? G_END : G_START, 0);
	int okal = (len % 32) == 0;
	/* documented: len, src and dest aligned to 32 bytes */
	size_t padded = (len + 31) & ~31u;
	uint8_t *src = gs_place(s_src[0], padded, vrn(r, 2) ? G_END : G_START, 0), *dst = gs_place(s_dst[0], padded, vrn(r, 2) ? G_END : G_START, 0);
	uint64_t tag = vr64(r); v_fill_tag(src, padded, tag); v_fill_tag(dst, padded, tag + 1);
	gf_vect_mul_init(c, tbl);
	v_setcase(idx, "sym=%s len=%d c=%02x tag=%llx", s->name, len, c, (unsigned long long) tag);
	int rc = 0;
	if (V_TRY(20)) { rc = (int) V_ABI(s->fn, len, tbl, src, dst); V_END; } else { report_fault(s, "gf_vect_mul"); goto out; }
	s->calls++; s->resmask |= 1ull << ((len / 32) & 63);
	char key[200];
	if (okal) {
		s->judged++;
		if (rc != 0) { snprintf(key, sizeof key, "mul-rejects-valid:%s", s->name); v_viol(key, "returned %d for len %d", rc, len); }
		else for (int x = 0; x < len; x++) if (dst[x] != refgf_mul(c, src[x])) { snprintf(key, sizeof key, "wrong-mul:%s", s->name); v_viol(key, "byte %d: got %02x want %02x", x, dst[x], refgf_mul(c, src[x])); break; }
		if (len) v_distinct(v_hash64(&tag, 8, c * 977 + len) ^ v_hash64(s->name, strlen(s->name), 3));
	} else if (rc == 0) { snprintf(key, sizeof key, "mul-accepts-unaligned-len:%s", s->name); v_viol(key, "len %d is not a multiple of 32 but the call returned 0", len); }
	if (v_check_tag(src, padded, tag) >= 0) { snprintf(key, sizeof key, "source-modified:%s", s->name); v_viol(key, "source changed"); }
	check_canaries(s, s_src, 1, "src"); check_canaries(s, s_dst, 1, "dest"); check_canaries(s, &s_tbl, 1, "tables");
out:
	gs_reset(s_src[0]); gs_reset(s_dst[0]); gs_reset(s_tbl);
}

int main(int argc, char **argv)
{
	v_init(argc, argv);
	if (refgf_init()) v_harness_fail("refgf self-test failed");
	if (V_NDISPATCHED > 0) cpusim_init();
	for (int j = 0; j < MAXK; j++) s_src[j] = gs_new("src", MAXLEN + 128);
	for (int i = 0; i < MAXROWS; i++) s_dst[i] = gs_new("dest", MAXLEN + 128);
	s_tbl = gs_new("gftbls", 32 * MAXK * MAXROWS + 128); s_sp = gs_new("srcptrs", 8 * MAXK + 128); s_dp = gs_new("destptrs", 8 * MAXROWS + 128);
#define X(s, n, isa) if (!strcmp(#s, "ec_init_tables_base")) init_base = (fn_init) ksym_##s; if (!strcmp(#s, "ec_init_tables_gfni")) init_gfni = (fn_init) ksym_##s; if (!strcmp(#s, "ec_init_tables")) init_disp = (fn_init) ksym_##s;
	V_INITTBL_LIST(X)
#undef X
	if (!init_base) init_base = init_disp;
	int want13 = !strcmp(vopt.prop, "C13"), both = !strcmp(vopt.prop, "C05");
	int act[NSYMS], nact = 0;
	for (int i = 0; i < NSYMS; i++) {
		int ok = v_isa_ok(syms[i].isa);
		if (ok < 0) v_harness_fail("unknown ISA suffix '%s' of %s", syms[i].isa, syms[i].name);
		syms[i].ok = ok; if (!ok) { v_set("skipped_not_executable_on_host", syms[i].name); continue; }
		int upd = syms[i].fam == F_MAD || syms[i].fam == F_UPD || syms[i].fam == F_MUL;
		if (both || upd == want13) act[nact++] = i;
	}
	if (!nact) v_harness_fail("no kernel symbols for %s", vopt.prop);
	long per = (long) ((vopt.thorough ? 60000 : 700) * vopt.scale), total = per * nact;
	if (both) total /= 2;
	for (long idx = 0; idx < total; idx++) {
		if (!v_mine(idx)) continue;
		ksym *s = &syms[act[idx % nact]]; vrng r; vr_seed(&r, vopt.seed, 3, idx);
		if (s->fam == F_DOT || s->fam == F_ENC) case_encode(idx, s, &r, 0);
		else if (s->fam == F_MUL) case_mul(idx, s, &r);
		else case_update(idx, s, &r, 0);
		if (v_nviol > v_viol_cap) break;
	}
	/* dispatchers under simulated CPU levels (real resolvers) */
	if (V_NDISPATCHED > 0) {
		long pl = (long) ((vopt.thorough ? 6000 : 150) * vopt.scale);
		for (int l = 0; l < CPUSIM_NNAMED; l++) {
			const cpucfg *c = &cpusim_named[l];
			if (!cpusim_host_can(c)) { v_set("cpu_levels_skipped", c->name); continue; }
			cpusim_apply(c); if (vopt.shard == 0) cpusim_report(c->name);
			v_set("cpu_levels", c->name);
			for (int i = 0; i < NSYMS; i++) {
				ksym *s = &syms[i]; if (strcmp(s->isa, "disp")) continue;
				int upd = s->fam == F_MAD || s->fam == F_UPD || s->fam == F_MUL; if (!both && upd != want13) continue;
				if (s->fam == F_DOT || s->fam == F_MAD) continue; /* gf_vect_dot_prod/gf_vect_mad dispatchers: single-row kernels, covered via n=1 below */
				for (long q = 0; q < pl; q++) {
					long idx = 100000000l + ((long) l * NSYMS + i) * 100000l + q; if (!v_mine(idx)) continue;
					vrng r; vr_seed(&r, vopt.seed, 4, idx);
					if (s->fam == F_ENC) case_encode(idx, s, &r, c); else if (s->fam == F_MUL) case_mul(idx, s, &r); else case_update(idx, s, &r, c);
				}
			}
			for (int i = 0; i < NSYMS; i++) {
				ksym *s = &syms[i]; if (strcmp(s->isa, "disp") || (s->fam != F_DOT && s->fam != F_MAD)) continue;
				int upd = s->fam == F_MAD; if (!both && upd != want13) continue;
				for (long q = 0; q < pl / 2; q++) {
					long idx = 200000000l + ((long) l * NSYMS + i) * 100000l + q; if (!v_mine(idx)) continue;
					vrng r; vr_seed(&r, vopt.seed, 5, idx);
					if (s->fam == F_DOT) case_encode(idx, s, &r, c); else case_update(idx, s, &r, c);
				}
			}
		}
	}
	for (int i = 0; i < NSYMS; i++) if (syms[i].calls) {
		v_count("calls", syms[i].name, syms[i].calls); v_count("judged", syms[i].name, syms[i].judged);
		printf("{\"t\":\"mask\",\"k\":\"len_residues_mod64:%s\",\"v\":%llu}\n", syms[i].name, (unsigned long long) syms[i].resmask);
		printf("{\"t\":\"mask\",\"k\":\"dest_align_mod64:%s\",\"v\":%llu}\n", syms[i].name, (unsigned long long) syms[i].alnmask);
	}
	long long ev = 0; for (int i = 0; i < NSYMS; i++) ev += syms[i].calls; v_stat("evaluations", ev);
	for (int j = 0; j < MAXK; j++) if (gs_check_all(s_src[j]) != GS_OK) v_viol("oob-write:late:src", "stray write found in src slot %d at final sweep", j);
	for (int i = 0; i < MAXROWS; i++) if (gs_check_all(s_dst[i]) != GS_OK) v_viol("oob-write:late:dest", "stray write found in dest slot %d at final sweep", i);
	return v_finish();
}
