/* adleredge.h - rewrite the tail of an input so that its Adler-32 sits on a boundary of the modulus: A = 0 or 65520, optionally also B = 0 or 65520.
 * A random input hits any one of these with probability 1/65521, so code that is wrong only there (a dropped or misplaced "mod 65521" in a
 * trailer or in the final reduction) is otherwise never exercised.  Returns a bitmask: 1 A=0, 2 A=65520, 4 B=0, 8 B=65520 (as verified by refadler). */
#ifndef ADLEREDGE_H
#define ADLEREDGE_H
#include "refcrc.h"
static uint32_t ae_pow(uint32_t b, uint32_t e) { uint64_t r = 1, x = b % 65521u; while (e) { if (e & 1) r = r * x % 65521u; x = x * x % 65521u; e >>= 1; } return (uint32_t) r; }
static int adler_edge(vrng *r, uint8_t *b, size_t n)
{
	if (n < 600) return 0;
	int want = (int) vrn(r, 6);   /* 0,1: A edge only; 2..5: A edge (or not) and B edge */
	const size_t k = 257;
	if (want < 4) {   /* the last 257 bytes carry whatever sum is missing: 257 * 255 >= 65520 */
		uint32_t ta = (want & 1) ? 65520u : 0u, s = 1; for (size_t i = 0; i + k < n; i++) s = (s + b[i]) % 65521u;
		uint32_t t = (ta + 65521u - s) % 65521u, base = t / 257, rem = t % 257;
		for (size_t i = 0; i < k; i++) b[n - k + i] = (uint8_t) (base + (i < rem));
	}
	if (want >= 2) {  /* +d at one position and -d at another keeps A and moves B by d * (distance between them) */
		uint32_t tb = (want & 1) ? 65520u : 0u, cur = refadler(1, b, n) >> 16, delta = (tb + 65521u - cur) % 65521u;
		for (uint32_t d = 1; d < 128 && delta; d++) {
			uint32_t x = (uint32_t) ((uint64_t) delta * ae_pow(d, 65519u) % 65521u); int neg = 0;
			if (x >= n) { x = 65521u - x; neg = 1; }
			if (x == 0 || x >= n) continue;
			/* raising b[i] by d adds d * (n - i) to B: raise the EARLIER byte of the pair to add d * x, the later one to subtract */
			for (size_t i = 0; i + x < n; i++) { uint8_t *up = neg ? &b[i + x] : &b[i], *dn = neg ? &b[i] : &b[i + x];
				if (*up <= 255 - d && *dn >= d) { *up = (uint8_t) (*up + d); *dn = (uint8_t) (*dn - d); delta = 0; break; } }
		}
	}
	uint32_t a = refadler(1, b, n); int m = 0;
	if ((a & 0xffff) == 0) m |= 1; if ((a & 0xffff) == 65520u) m |= 2; if ((a >> 16) == 0) m |= 4; if ((a >> 16) == 65520u) m |= 8;
	return m;
}
#endif
