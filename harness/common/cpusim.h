/* cpusim.h - run the library's own, unmodified resolvers against a simulated CPU.
 * Each public multi-binary stub is `endbr64; jmp [slot]`; the slot initially points at `<fn>_mbinit`
 * (`endbr64; call <fn>_dispatch_init`).  We call the resolver with the x86 trap flag set; the SIGTRAP handler
 * looks at the next instruction and emulates CPUID (0f a2) and XGETBV (0f 01 d0) from a simulated register
 * file, everything else executes natively.  The resolver stores its choice into the real slot.
 * Requires gen_syms.h (V_DISPATCHED_LIST).  Optional instruction tracer: records every RIP executed. */
#ifndef CPUSIM_H
#define CPUSIM_H
#include "v.h"
#include "gen_syms.h"

typedef struct { const char *name; uint32_t l1_eax, l1_ecx, l7_ebx, l7_ecx, xcr0; } cpucfg;
#define CB(x) (1u << (x))
#define C1_SSE3 CB(0)
#define C1_CLMUL CB(1)
#define C1_SSSE3 CB(9)
#define C1_SSE41 CB(19)
#define C1_SSE42 CB(20)
#define C1_POPCNT CB(23)
#define C1_OSXSAVE CB(27)
#define C1_AVX CB(28)
#define C1_SSEALL (C1_SSE3 | C1_SSSE3 | C1_SSE41 | C1_SSE42 | C1_POPCNT)
#define B7_AVX2 CB(5)
#define B7_BMI (CB(3) | CB(8))
#define B7_G1 (CB(16) | CB(17) | CB(28) | CB(30) | CB(31))
#define C7_G2 (CB(6) | CB(8) | CB(9) | CB(10) | CB(11) | CB(12) | CB(14))
#define C7_A2G2 (CB(8) | CB(9) | CB(10))
#define EAX_PLAIN 0x000306a9u
#define EAX_AVOTON 0x000406d8u
static const cpucfg cpusim_named[] = {
	{ "base",          EAX_PLAIN,  0, 0, 0, 0 },
	{ "sse-noclmul",   EAX_PLAIN,  C1_SSEALL, 0, 0, 0 },
	{ "sse",           EAX_PLAIN,  C1_SSEALL | C1_CLMUL, 0, 0, 0 },
	{ "avoton",        EAX_AVOTON, C1_SSEALL | C1_CLMUL, 0, 0, 0 },
	{ "avx",           EAX_PLAIN,  C1_SSEALL | C1_CLMUL | C1_OSXSAVE | C1_AVX, 0, 0, 7 },
	{ "avx-os-off",    EAX_PLAIN,  C1_SSEALL | C1_CLMUL | C1_OSXSAVE | C1_AVX, 0, 0, 3 },
	{ "avx2",          EAX_PLAIN,  C1_SSEALL | C1_CLMUL | C1_OSXSAVE | C1_AVX, B7_AVX2 | B7_BMI, 0, 7 },
	{ "avx2+gfni",     EAX_PLAIN,  C1_SSEALL | C1_CLMUL | C1_OSXSAVE | C1_AVX, B7_AVX2 | B7_BMI, C7_A2G2, 7 },
	{ "avx512",        EAX_PLAIN,  C1_SSEALL | C1_CLMUL | C1_OSXSAVE | C1_AVX, B7_AVX2 | B7_BMI | B7_G1, 0, 0xe7 },
	{ "avx512-os-off", EAX_PLAIN,  C1_SSEALL | C1_CLMUL | C1_OSXSAVE | C1_AVX, B7_AVX2 | B7_BMI | B7_G1, C7_G2, 7 },
	{ "avx512+g2",     EAX_PLAIN,  C1_SSEALL | C1_CLMUL | C1_OSXSAVE | C1_AVX, B7_AVX2 | B7_BMI | B7_G1, C7_G2, 0xe7 },
};
#define CPUSIM_NNAMED ((int) (sizeof cpusim_named / sizeof cpusim_named[0]))

#ifdef CPUSIM_DLSYM   /* shared-library build: the real stub addresses come from dlsym (a direct reference would bind to a PLT entry of the executable) */
static struct cpusim_entry { const char *name; uint8_t *stub; void **slot; uint8_t *mbinit; void (*resolver)(void); } cpusim_ent[] = {
#define X(s) { #s, 0, 0, 0, 0 },
	V_DISPATCHED_LIST(X)
#undef X
	{ 0, 0, 0, 0, 0 }
};
#else
#define X(s) extern char cpusim_ent_##s[] __asm__(#s);
V_DISPATCHED_LIST(X)
#undef X
static struct cpusim_entry { const char *name; uint8_t *stub; void **slot; uint8_t *mbinit; void (*resolver)(void); } cpusim_ent[] = {
#define X(s) { #s, (uint8_t *) cpusim_ent_##s, 0, 0, 0 },
	V_DISPATCHED_LIST(X)
#undef X
	{ 0, 0, 0, 0, 0 }
};
#endif
static cpucfg cpusim_cur;
static volatile int cpusim_tracing;
static volatile long cpusim_steps, cpusim_ncpuid, cpusim_nxgetbv, cpusim_xgetbv_without_osxsave;
/* optional tracer */
static uint64_t cpusim_tr_lo, cpusim_tr_hi; static uint8_t *cpusim_tr_hit;

static void cpusim_on_trap(int sig, siginfo_t *si, void *uc_)
{
	ucontext_t *uc = uc_; greg_t *g = uc->uc_mcontext.gregs; cpusim_steps++;
	for (;;) {
		uint8_t *ip = (uint8_t *) g[REG_RIP];
		if (cpusim_tr_hit && (uint64_t) ip >= cpusim_tr_lo && (uint64_t) ip < cpusim_tr_hi) cpusim_tr_hit[(uint64_t) ip - cpusim_tr_lo] = 1;
		if (ip[0] == 0x0f && ip[1] == 0xa2) {
			uint32_t leaf = (uint32_t) g[REG_RAX], sub = (uint32_t) g[REG_RCX], a = 0, b = 0, c = 0, d = 0;
			if (leaf == 0) { a = 7; b = 0x756e6547; d = 0x49656e69; c = 0x6c65746e; }
			else if (leaf == 1) { a = cpusim_cur.l1_eax; c = cpusim_cur.l1_ecx; d = CB(25) | CB(26) | CB(0) | CB(15) | CB(23) | CB(24); }
			else if (leaf == 7 && sub == 0) { b = cpusim_cur.l7_ebx; c = cpusim_cur.l7_ecx; }
			g[REG_RAX] = a; g[REG_RBX] = b; g[REG_RCX] = c; g[REG_RDX] = d; g[REG_RIP] += 2; cpusim_ncpuid++; continue;
		}
		if (ip[0] == 0x0f && ip[1] == 0x01 && ip[2] == 0xd0) {
			if (!(cpusim_cur.l1_ecx & C1_OSXSAVE)) cpusim_xgetbv_without_osxsave++;
			g[REG_RAX] = cpusim_cur.xcr0; g[REG_RDX] = 0; g[REG_RIP] += 3; cpusim_nxgetbv++; continue;
		}
		break;
	}
	if (!cpusim_tracing) g[REG_EFL] &= ~0x100;
}
#define CPUSIM_TF_ON() do { cpusim_tracing = 1; __asm__ volatile("pushfq; orq $0x100,(%%rsp); popfq" ::: "memory", "cc"); } while (0)
#define CPUSIM_TF_OFF() do { cpusim_tracing = 0; __asm__ volatile("pushfq; andq $~0x100,(%%rsp); popfq" ::: "memory", "cc"); } while (0)
static void cpusim_run_traced(void (*fn)(void)) { CPUSIM_TF_ON(); fn(); CPUSIM_TF_OFF(); }

static int cpusim_n;
/* decode the stubs once; a layout we do not understand is a harness failure (exit 2), never a violation */
static void cpusim_init(void)
{
	static int done; if (done) return; done = 1;
	struct sigaction sa; memset(&sa, 0, sizeof sa); sa.sa_sigaction = cpusim_on_trap; sa.sa_flags = SA_SIGINFO | SA_ONSTACK; sigaction(SIGTRAP, &sa, 0);
	for (struct cpusim_entry *e = cpusim_ent; e->name; e++, cpusim_n++) {
#ifdef CPUSIM_DLSYM
		e->stub = dlsym(RTLD_DEFAULT, e->name); if (!e->stub) v_harness_fail("cpusim: %s not exported by the shared library", e->name);
#endif
		uint8_t *st = e->stub;
		if (memcmp(st, "\xf3\x0f\x1e\xfa\xff\x25", 6)) v_harness_fail("cpusim: stub of %s has unexpected layout", e->name);
		int32_t disp; memcpy(&disp, st + 6, 4); e->slot = (void **) (st + 10 + disp); e->mbinit = *e->slot;
		if (memcmp(e->mbinit, "\xf3\x0f\x1e\xfa\xe8", 5)) v_harness_fail("cpusim: slot of %s does not point at an mbinit thunk (already resolved?)", e->name);
		int32_t rel; memcpy(&rel, e->mbinit + 5, 4); e->resolver = (void (*)(void)) (e->mbinit + 9 + rel);
	}
}
static int cpusim_host_can(const cpucfg *c)
{
	/* the simulated machine must be a subset of the host, otherwise selected kernels could not execute here */
	uint32_t a, b, cc, d;
	__asm__ volatile("cpuid" : "=a"(a), "=b"(b), "=c"(cc), "=d"(d) : "a"(1), "c"(0));
	uint32_t h1 = cc;
	__asm__ volatile("cpuid" : "=a"(a), "=b"(b), "=c"(cc), "=d"(d) : "a"(7), "c"(0));
	uint32_t h7b = b, h7c = cc, hx = 0;
	if (h1 & C1_OSXSAVE) { uint32_t lo, hi; __asm__ volatile("xgetbv" : "=a"(lo), "=d"(hi) : "c"(0)); hx = lo; }
	return (c->l1_ecx & ~h1 & ~C1_OSXSAVE) == 0 && (c->l7_ebx & ~h7b) == 0 && (c->l7_ecx & ~h7c) == 0 && (c->xcr0 & ~hx) == 0;
}
/* resolve one entry under cfg; returns the selected implementation */
static void *cpusim_resolve(struct cpusim_entry *e, const cpucfg *c)
{
	cpusim_cur = *c; *e->slot = e->mbinit; cpusim_run_traced(e->resolver); return *e->slot;
}
/* ---- interposer: after the resolvers have chosen, every dispatch slot is pointed at a thunk that (1) loads garbage into all vector and
 * mask registers (caller-saved, no API passes vector arguments), (2) remembers rbx, rbp, r12-r15 and the return address on a shadow stack,
 * (3) runs the chosen implementation and (4) verifies the callee-saved registers when it returns.  This extends register poisoning and the
 * callee-saved monitor to the kernels the library reaches only internally (deflate body / icf / finish kernels, decode kernels, hash, CRC
 * and Adler inside the codec), under every simulated CPU level.  The stack is left exactly as the callee expects it (the return address
 * is replaced, not stacked).  Off when an engine sets cpusim_no_interpose (tracer, threads). */
static int cpusim_no_interpose, cpusim_interposed; static long cpusim_thunk_installs;
struct cpusim_ctx { void *target; const char *name; };
static struct cpusim_ctx cpusim_ctxs[128];
uint8_t *cpusim_shadow_sp __attribute__((used)); static uint8_t *cpusim_shadow_base;
void *volatile cpusim_abi_bad_ctx __attribute__((used)); volatile long cpusim_thunk_calls __attribute__((used));
void (*cpusim_vecpoison)(void) __attribute__((used));
void cpusim_vp_none(void); void cpusim_vp_sse(void); void cpusim_vp_avx(void); void cpusim_vp_avx512(void); void cpusim_thunk_common(void);
__asm__(".text\n"
	".globl cpusim_vp_none\n.type cpusim_vp_none,@function\ncpusim_vp_none:\n\tret\n"
	".globl cpusim_vp_sse\n.type cpusim_vp_sse,@function\ncpusim_vp_sse:\n\tlea v_poison_buf(%rip),%r10\n"
	"\tmovdqu 16(%r10),%xmm0\n\tmovdqu 80(%r10),%xmm1\n\tmovdqu 144(%r10),%xmm2\n\tmovdqu 208(%r10),%xmm3\n\tmovdqu 272(%r10),%xmm4\n\tmovdqu 336(%r10),%xmm5\n\tmovdqu 400(%r10),%xmm6\n\tmovdqu 464(%r10),%xmm7\n"
	"\tmovdqu 528(%r10),%xmm8\n\tmovdqu 592(%r10),%xmm9\n\tmovdqu 656(%r10),%xmm10\n\tmovdqu 720(%r10),%xmm11\n\tmovdqu 784(%r10),%xmm12\n\tmovdqu 848(%r10),%xmm13\n\tmovdqu 912(%r10),%xmm14\n\tmovdqu 976(%r10),%xmm15\n\tret\n"
	".globl cpusim_vp_avx\n.type cpusim_vp_avx,@function\ncpusim_vp_avx:\n\tlea v_poison_buf(%rip),%r10\n"
	"\tvmovdqu 16(%r10),%ymm0\n\tvmovdqu 80(%r10),%ymm1\n\tvmovdqu 144(%r10),%ymm2\n\tvmovdqu 208(%r10),%ymm3\n\tvmovdqu 272(%r10),%ymm4\n\tvmovdqu 336(%r10),%ymm5\n\tvmovdqu 400(%r10),%ymm6\n\tvmovdqu 464(%r10),%ymm7\n"
	"\tvmovdqu 528(%r10),%ymm8\n\tvmovdqu 592(%r10),%ymm9\n\tvmovdqu 656(%r10),%ymm10\n\tvmovdqu 720(%r10),%ymm11\n\tvmovdqu 784(%r10),%ymm12\n\tvmovdqu 848(%r10),%ymm13\n\tvmovdqu 912(%r10),%ymm14\n\tvmovdqu 976(%r10),%ymm15\n\tret\n"
	".globl cpusim_vp_avx512\n.type cpusim_vp_avx512,@function\ncpusim_vp_avx512:\n\tlea v_poison_buf(%rip),%r10\n"
	"\tvmovdqu64 8(%r10),%zmm0\n\tvmovdqu64 72(%r10),%zmm1\n\tvmovdqu64 136(%r10),%zmm2\n\tvmovdqu64 200(%r10),%zmm3\n\tvmovdqu64 264(%r10),%zmm4\n\tvmovdqu64 328(%r10),%zmm5\n\tvmovdqu64 392(%r10),%zmm6\n\tvmovdqu64 456(%r10),%zmm7\n"
	"\tvmovdqu64 520(%r10),%zmm8\n\tvmovdqu64 584(%r10),%zmm9\n\tvmovdqu64 648(%r10),%zmm10\n\tvmovdqu64 712(%r10),%zmm11\n\tvmovdqu64 776(%r10),%zmm12\n\tvmovdqu64 840(%r10),%zmm13\n\tvmovdqu64 904(%r10),%zmm14\n\tvmovdqu64 968(%r10),%zmm15\n"
	"\tvmovdqu64 1032(%r10),%zmm16\n\tvmovdqu64 1096(%r10),%zmm17\n\tvmovdqu64 1160(%r10),%zmm18\n\tvmovdqu64 1224(%r10),%zmm19\n\tvmovdqu64 1288(%r10),%zmm20\n\tvmovdqu64 1352(%r10),%zmm21\n\tvmovdqu64 1416(%r10),%zmm22\n\tvmovdqu64 1480(%r10),%zmm23\n"
	"\tvmovdqu64 1544(%r10),%zmm24\n\tvmovdqu64 1608(%r10),%zmm25\n\tvmovdqu64 1672(%r10),%zmm26\n\tvmovdqu64 1736(%r10),%zmm27\n\tvmovdqu64 1800(%r10),%zmm28\n\tvmovdqu64 1864(%r10),%zmm29\n\tvmovdqu64 1928(%r10),%zmm30\n\tvmovdqu64 1992(%r10),%zmm31\n"
	"\tkmovq 2056(%r10),%k1\n\tkmovq 2064(%r10),%k2\n\tkmovq 2072(%r10),%k3\n\tkmovq 2080(%r10),%k4\n\tkmovq 2088(%r10),%k5\n\tkmovq 2096(%r10),%k6\n\tkmovq 2048(%r10),%k7\n\tret\n"
	".globl cpusim_thunk_common\n.type cpusim_thunk_common,@function\ncpusim_thunk_common:\n"          /* r11 = struct cpusim_ctx * */
	"\tmov cpusim_shadow_sp(%rip),%r10\n\tpopq (%r10)\n\tincq cpusim_thunk_calls(%rip)\n"
	"\tmov %rbx,8(%r10)\n\tmov %rbp,16(%r10)\n\tmov %r12,24(%r10)\n\tmov %r13,32(%r10)\n\tmov %r14,40(%r10)\n\tmov %r15,48(%r10)\n\tmov %r11,56(%r10)\n"
	"\tadd $64,%r10\n\tmov %r10,cpusim_shadow_sp(%rip)\n"
	"\tcall *cpusim_vecpoison(%rip)\n"
	"\tlea 1f(%rip),%r10\n\tpush %r10\n\tjmp *(%r11)\n"
	"1:\tmov cpusim_shadow_sp(%rip),%r10\n\tsub $64,%r10\n\tmov %r10,cpusim_shadow_sp(%rip)\n"
	"\tmov 8(%r10),%rcx\n\txor %rbx,%rcx\n\tmov 16(%r10),%rsi\n\txor %rbp,%rsi\n\tor %rsi,%rcx\n\tmov 24(%r10),%rsi\n\txor %r12,%rsi\n\tor %rsi,%rcx\n"
	"\tmov 32(%r10),%rsi\n\txor %r13,%rsi\n\tor %rsi,%rcx\n\tmov 40(%r10),%rsi\n\txor %r14,%rsi\n\tor %rsi,%rcx\n\tmov 48(%r10),%rsi\n\txor %r15,%rsi\n\tor %rsi,%rcx\n"
	"\tjz 2f\n\tmov 56(%r10),%r11\n\tmov %r11,cpusim_abi_bad_ctx(%rip)\n2:\tjmp *(%r10)\n");
static void cpusim_hook_try(void) { cpusim_shadow_sp = cpusim_shadow_base; }
static void cpusim_hook_end(void)
{
	if (cpusim_abi_bad_ctx) { struct cpusim_ctx *c = (struct cpusim_ctx *) cpusim_abi_bad_ctx; cpusim_abi_bad_ctx = 0; char key[200]; snprintf(key, sizeof key, "abi:callee-saved-register-clobbered:%s", c->name); v_viol(key, "the implementation selected for %s (%s) returned with rbx, rbp or r12-r15 changed", c->name, v_symof(c->target, 0) ? v_symof(c->target, 0) : "?"); }
	if (cpusim_shadow_base && cpusim_shadow_sp != cpusim_shadow_base) { cpusim_shadow_sp = cpusim_shadow_base; }
}
static void cpusim_hook_stats(void) { v_stat("dispatched_calls_through_the_interposer", cpusim_thunk_calls); v_stat("monitored_calls_with_poisoned_registers", v_poison_calls); }
static void cpusim_interpose(void)
{
	static uint8_t *stubs;
	if (cpusim_no_interpose || getenv("VERIF_NO_INTERPOSE")) return;
	if (!stubs) {
		stubs = mmap(0, 8192, PROT_READ | PROT_WRITE | PROT_EXEC, MAP_PRIVATE | MAP_ANONYMOUS, -1, 0); if (stubs == MAP_FAILED) v_harness_fail("cpusim: no executable page for the slot thunks");
		cpusim_shadow_base = mmap(0, 1 << 16, PROT_READ | PROT_WRITE, MAP_PRIVATE | MAP_ANONYMOUS, -1, 0); if (cpusim_shadow_base == MAP_FAILED) v_harness_fail("cpusim: shadow stack"); cpusim_shadow_sp = cpusim_shadow_base;
		v_poison_regs();   /* decides the poison flavour this machine executes */
		cpusim_vecpoison = v_poison_level == 2 ? cpusim_vp_avx512 : v_poison_level == 1 ? cpusim_vp_avx : v_poison_level == 0 ? cpusim_vp_sse : cpusim_vp_none;
	}
	#define CPUSIM_MKSTUB(i) do { uint8_t *t_ = stubs + 32 * (i), *q_ = t_; void *ctx_ = &cpusim_ctxs[i], *com_ = (void *) cpusim_thunk_common; memcpy(q_, "\xf3\x0f\x1e\xfa", 4); q_ += 4; memcpy(q_, "\x49\xbb", 2); memcpy(q_ + 2, &ctx_, 8); q_ += 10; memcpy(q_, "\x49\xba", 2); memcpy(q_ + 2, &com_, 8); q_ += 10; memcpy(q_, "\x41\xff\xe2", 3); } while (0)
	{ static int tested; if (!tested) { tested = 1;   /* monitor self-test: a routine that swaps r12/r13 must be flagged, one that preserves them must not */
		cpusim_ctxs[127].target = (void *) v_abi_selftest_ok; cpusim_ctxs[127].name = "selftest"; CPUSIM_MKSTUB(127); long c0 = cpusim_thunk_calls; V_ABI(stubs + 32 * 127, 1, 2, 3);
		if (cpusim_abi_bad_ctx || cpusim_thunk_calls != c0 + 1 || cpusim_shadow_sp != cpusim_shadow_base) v_harness_fail("cpusim: slot thunk self-test (clean routine) failed");
		cpusim_ctxs[127].target = (void *) v_abi_selftest_swap; V_ABI(stubs + 32 * 127, 1, 2, 3); v_abi_bad = 0;   /* through the trampoline, so that this function's own registers survive */
		if (cpusim_abi_bad_ctx != &cpusim_ctxs[127]) v_harness_fail("cpusim: slot thunk does not flag a routine that swaps r12 and r13"); cpusim_abi_bad_ctx = 0; } }
	int i = 0;
	for (struct cpusim_entry *e = cpusim_ent; e->name; e++, i++) {
		if (i >= 127) v_harness_fail("cpusim: more than 128 dispatched entry points");
		cpusim_ctxs[i].target = *e->slot; cpusim_ctxs[i].name = e->name;
		CPUSIM_MKSTUB(i); uint8_t *t = stubs + 32 * i;
		*e->slot = t; cpusim_thunk_installs++;
	}
	cpusim_interposed = 1; v_hook_try = cpusim_hook_try; v_hook_end = cpusim_hook_end; v_hook_stats = cpusim_hook_stats;
}
/* what the slot of entry e really resolves to (the thunk hides it) */
static void *cpusim_target(struct cpusim_entry *e) { if (cpusim_interposed) { long i = e - cpusim_ent; return cpusim_ctxs[i].target; } return *e->slot; }
static void cpusim_apply(const cpucfg *c)
{
	cpusim_init();
	for (struct cpusim_entry *e = cpusim_ent; e->name; e++) cpusim_resolve(e, c);
	cpusim_interpose();
}
static const char *cpusim_symname(void *p)
{
	static char b[8][96]; static int k; char *s = b[k++ & 7]; unsigned long off; const char *n = v_symof(p, &off);
	if (n && off == 0) snprintf(s, 96, "%s", n); else snprintf(s, 96, "%p", p);
	return s;
}
static const cpucfg *cpusim_find(const char *name) { for (int i = 0; i < CPUSIM_NNAMED; i++) if (!strcmp(cpusim_named[i].name, name)) return &cpusim_named[i]; return 0; }
/* report what every slot holds (evidence: which implementation symbols ran) */
static void cpusim_report(const char *level)
{
	for (struct cpusim_entry *e = cpusim_ent; e->name; e++) { char b[200]; snprintf(b, sizeof b, "%s@%s=%s", e->name, level, cpusim_symname(cpusim_target(e))); v_set("slots", b); }
}
#endif
