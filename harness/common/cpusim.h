/* cpusim.h - run the library's own, unmodified resolvers against a simulated CPU.
 * Each public multi-binary stub is `endbr64; jmp [slot]`; the slot initially points at `<fn>_mbinit`
 * (`endbr64; call <fn>_dispatch_init`).  We call the resolver with the x86 trap flag set; the SIGTRAP handler
 * looks at the next instruction and emulates CPUID (0f a2) and XGETBV (0f 01 d0) from a simulated register
 * file, everything else executes natively.  The resolver stores its choice into the real slot.
 * Requires gen_syms.h (V_DISPATCHED_LIST).  Optional instruction tracer: records every RIP executed. */
#ifndef CPUSIM_H
#define CPUSIM_H
#include "v.h"
#include "gen_syms.h"

typedef struct { const char *name; uint32_t l1_eax, l1_ecx, l7_ebx, l7_ecx, xcr0; } cpucfg;
#define CB(x) (1u << (x))
#define C1_SSE3 CB(0)
#define C1_CLMUL CB(1)
#define C1_SSSE3 CB(9)
#define C1_SSE41 CB(19)
#define C1_SSE42 CB(20)
#define C1_POPCNT CB(23)
#define C1_OSXSAVE CB(27)
#define C1_AVX CB(28)
#define C1_SSEALL (C1_SSE3 | C1_SSSE3 | C1_SSE41 | C1_SSE42 | C1_POPCNT)
#define B7_AVX2 CB(5)
#define B7_BMI (CB(3) | CB(8))
#define B7_G1 (CB(16) | CB(17) | CB(28) | CB(30) | CB(31))
#define C7_G2 (CB(6) | CB(8) | CB(9) | CB(10) | CB(11) | CB(12) | CB(14))
#define C7_A2G2 (CB(8) | CB(9) | CB(10))
#define EAX_PLAIN 0x000306a9u
#define EAX_AVOTON 0x000406d8u
static const cpucfg cpusim_named[] = {
	{ "base",          EAX_PLAIN,  0, 0, 0, 0 },
	{ "sse-noclmul",   EAX_PLAIN,  C1_SSEALL, 0, 0, 0 },
	{ "sse",           EAX_PLAIN,  C1_SSEALL | C1_CLMUL, 0, 0, 0 },
	{ "avoton",        EAX_AVOTON, C1_SSEALL | C1_CLMUL, 0, 0, 0 },
	{ "avx",           EAX_PLAIN,  C1_SSEALL | C1_CLMUL | C1_OSXSAVE | C1_AVX, 0, 0, 7 },
	{ "avx-os-off",    EAX_PLAIN,  C1_SSEALL | C1_CLMUL | C1_OSXSAVE | C1_AVX, 0, 0, 3 },
	{ "avx2",          EAX_PLAIN,  C1_SSEALL | C1_CLMUL | C1_OSXSAVE | C1_AVX, B7_AVX2 | B7_BMI, 0, 7 },
	{ "avx2+gfni",     EAX_PLAIN,  C1_SSEALL | C1_CLMUL | C1_OSXSAVE | C1_AVX, B7_AVX2 | B7_BMI, C7_A2G2, 7 },
	{ "avx512",        EAX_PLAIN,  C1_SSEALL | C1_CLMUL | C1_OSXSAVE | C1_AVX, B7_AVX2 | B7_BMI | B7_G1, 0, 0xe7 },
	{ "avx512-os-off", EAX_PLAIN,  C1_SSEALL | C1_CLMUL | C1_OSXSAVE | C1_AVX, B7_AVX2 | B7_BMI | B7_G1, C7_G2, 7 },
	{ "avx512+g2",     EAX_PLAIN,  C1_SSEALL | C1_CLMUL | C1_OSXSAVE | C1_AVX, B7_AVX2 | B7_BMI | B7_G1, C7_G2, 0xe7 },
};
#define CPUSIM_NNAMED ((int) (sizeof cpusim_named / sizeof cpusim_named[0]))

#ifdef CPUSIM_DLSYM   /* shared-library build: the real stub addresses come from dlsym (a direct reference would bind to a PLT entry of the executable) */
static struct cpusim_entry { const char *name; uint8_t *stub; void **slot; uint8_t *mbinit; void (*resolver)(void); } cpusim_ent[] = {
#define X(s) { #s, 0, 0, 0, 0 },
	V_DISPATCHED_LIST(X)
#undef X
	{ 0, 0, 0, 0, 0 }
};
#else
#define X(s) extern char cpusim_ent_##s[] __asm__(#s);
V_DISPATCHED_LIST(X)
#undef X
static struct cpusim_entry { const char *name; uint8_t *stub; void **slot; uint8_t *mbinit; void (*resolver)(void); } cpusim_ent[] = {
#define X(s) { #s, (uint8_t *) cpusim_ent_##s, 0, 0, 0 },
	V_DISPATCHED_LIST(X)
#undef X
	{ 0, 0, 0, 0, 0 }
};
#endif
static cpucfg cpusim_cur;
static volatile int cpusim_tracing;
static volatile long cpusim_steps, cpusim_ncpuid, cpusim_nxgetbv, cpusim_xgetbv_without_osxsave;
/* optional tracer */
static uint64_t cpusim_tr_lo, cpusim_tr_hi; static uint8_t *cpusim_tr_hit;

static void cpusim_on_trap(int sig, siginfo_t *si, void *uc_)
{
	ucontext_t *uc = uc_; greg_t *g = uc->uc_mcontext.gregs; cpusim_steps++;
	for (;;) {
		uint8_t *ip = (uint8_t *) g[REG_RIP];
		if (cpusim_tr_hit && (uint64_t) ip >= cpusim_tr_lo && (uint64_t) ip < cpusim_tr_hi) cpusim_tr_hit[(uint64_t) ip - cpusim_tr_lo] = 1;
		if (ip[0] == 0x0f && ip[1] == 0xa2) {
			uint32_t leaf = (uint32_t) g[REG_RAX], sub = (uint32_t) g[REG_RCX], a = 0, b = 0, c = 0, d = 0;
			if (leaf == 0) { a = 7; b = 0x756e6547; d = 0x49656e69; c = 0x6c65746e; }
			else if (leaf == 1) { a = cpusim_cur.l1_eax; c = cpusim_cur.l1_ecx; d = CB(25) | CB(26) | CB(0) | CB(15) | CB(23) | CB(24); }
			else if (leaf == 7 && sub == 0) { b = cpusim_cur.l7_ebx; c = cpusim_cur.l7_ecx; }
			g[REG_RAX] = a; g[REG_RBX] = b; g[REG_RCX] = c; g[REG_RDX] = d; g[REG_RIP] += 2; cpusim_ncpuid++; continue;
		}
		if (ip[0] == 0x0f && ip[1] == 0x01 && ip[2] == 0xd0) {
			if (!(cpusim_cur.l1_ecx & C1_OSXSAVE)) cpusim_xgetbv_without_osxsave++;
			g[REG_RAX] = cpusim_cur.xcr0; g[REG_RDX] = 0; g[REG_RIP] += 3; cpusim_nxgetbv++; continue;
		}
		break;
	}
	if (!cpusim_tracing) g[REG_EFL] &= ~0x100;
}
#define CPUSIM_TF_ON() do { cpusim_tracing = 1; __asm__ volatile("pushfq; orq $0x100,(%%rsp); popfq" ::: "memory", "cc"); } while (0)
#define CPUSIM_TF_OFF() do { cpusim_tracing = 0; __asm__ volatile("pushfq; andq $~0x100,(%%rsp); popfq" ::: "memory", "cc"); } while (0)
static void cpusim_run_traced(void (*fn)(void)) { CPUSIM_TF_ON(); fn(); CPUSIM_TF_OFF(); }

static int cpusim_n;
/* decode the stubs once; a layout we do not understand is a harness failure (exit 2), never a violation */
static void cpusim_init(void)
{
	static int done; if (done) return; done = 1;
	struct sigaction sa; memset(&sa, 0, sizeof sa); sa.sa_sigaction = cpusim_on_trap; sa.sa_flags = SA_SIGINFO | SA_ONSTACK; sigaction(SIGTRAP, &sa, 0);
	for (struct cpusim_entry *e = cpusim_ent; e->name; e++, cpusim_n++) {
#ifdef CPUSIM_DLSYM
		e->stub = dlsym(RTLD_DEFAULT, e->name); if (!e->stub) v_harness_fail("cpusim: %s not exported by the shared library", e->name);
#endif
		uint8_t *st = e->stub;
		if (memcmp(st, "\xf3\x0f\x1e\xfa\xff\x25", 6)) v_harness_fail("cpusim: stub of %s has unexpected layout", e->name);
		int32_t disp; memcpy(&disp, st + 6, 4); e->slot = (void **) (st + 10 + disp); e->mbinit = *e->slot;
		if (memcmp(e->mbinit, "\xf3\x0f\x1e\xfa\xe8", 5)) v_harness_fail("cpusim: slot of %s does not point at an mbinit thunk (already resolved?)", e->name);
		int32_t rel; memcpy(&rel, e->mbinit + 5, 4); e->resolver = (void (*)(void)) (e->mbinit + 9 + rel);
	}
}
static int cpusim_host_can(const cpucfg *c)
{
	/* the simulated machine must be a subset of the host, otherwise selected kernels could not execute here */
	uint32_t a, b, cc, d;
	__asm__ volatile("cpuid" : "=a"(a), "=b"(b), "=c"(cc), "=d"(d) : "a"(1), "c"(0));
	uint32_t h1 = cc;
	__asm__ volatile("cpuid" : "=a"(a), "=b"(b), "=c"(cc), "=d"(d) : "a"(7), "c"(0));
	uint32_t h7b = b, h7c = cc, hx = 0;
	if (h1 & C1_OSXSAVE) { uint32_t lo, hi; __asm__ volatile("xgetbv" : "=a"(lo), "=d"(hi) : "c"(0)); hx = lo; }
	return (c->l1_ecx & ~h1 & ~C1_OSXSAVE) == 0 && (c->l7_ebx & ~h7b) == 0 && (c->l7_ecx & ~h7c) == 0 && (c->xcr0 & ~hx) == 0;
}
/* resolve one entry under cfg; returns the selected implementation */
static void *cpusim_resolve(struct cpusim_entry *e, const cpucfg *c)
{
	cpusim_cur = *c; *e->slot = e->mbinit; cpusim_run_traced(e->resolver); return *e->slot;
}
static void cpusim_apply(const cpucfg *c)
{
	cpusim_init();
	for (struct cpusim_entry *e = cpusim_ent; e->name; e++) cpusim_resolve(e, c);
}
static const char *cpusim_symname(void *p)
{
	static char b[8][96]; static int k; char *s = b[k++ & 7]; unsigned long off; const char *n = v_symof(p, &off);
	if (n && off == 0) snprintf(s, 96, "%s", n); else snprintf(s, 96, "%p", p);
	return s;
}
static const cpucfg *cpusim_find(const char *name) { for (int i = 0; i < CPUSIM_NNAMED; i++) if (!strcmp(cpusim_named[i].name, name)) return &cpusim_named[i]; return 0; }
/* report what every slot holds (evidence: which implementation symbols ran) */
static void cpusim_report(const char *level)
{
	for (struct cpusim_entry *e = cpusim_ent; e->name; e++) { char b[200]; snprintf(b, sizeof b, "%s@%s=%s", e->name, level, cpusim_symname(*e->slot)); v_set("slots", b); }
}
#endif
