/* visa.h - which implementation-variant suffixes the host CPU can execute directly */
#ifndef VISA_H
#define VISA_H
#include <string.h>
static int v_isa_ok(const char *isa)
{
	__builtin_cpu_init();
	int sse = __builtin_cpu_supports("sse4.1") && __builtin_cpu_supports("sse4.2") && __builtin_cpu_supports("ssse3");
	int clmul = __builtin_cpu_supports("pclmul");
	int avx = __builtin_cpu_supports("avx"), avx2 = __builtin_cpu_supports("avx2") && __builtin_cpu_supports("bmi2");
	int a512 = __builtin_cpu_supports("avx512f") && __builtin_cpu_supports("avx512bw") && __builtin_cpu_supports("avx512vl") && __builtin_cpu_supports("avx512dq") && __builtin_cpu_supports("avx512cd");
	int gfni = __builtin_cpu_supports("gfni"), vpcl = __builtin_cpu_supports("vpclmulqdq"), vbmi2 = __builtin_cpu_supports("avx512vbmi2");
	if (!strcmp(isa, "base") || !strcmp(isa, "disp") || !strcmp(isa, "bam1") || !strcmp(isa, "mad_base") || !strcmp(isa, "lvl0")) return 1;
	if (!strcmp(isa, "sse") || !strcmp(isa, "00")) return sse;
	if (!strcmp(isa, "01") || !strcmp(isa, "by4") || !strcmp(isa, "by8") || !strcmp(isa, "crc_01")) return sse && clmul;
	if (!strcmp(isa, "avx")) return avx;
	if (!strcmp(isa, "02") || !strcmp(isa, "by8_02") || !strcmp(isa, "by4_02")) return avx && clmul;
	if (!strcmp(isa, "avx2") || !strcmp(isa, "04") || !strcmp(isa, "avx2_4")) return avx2;
	if (!strcmp(isa, "avx2_gfni")) return avx2 && gfni;
	if (!strcmp(isa, "avx512") || !strcmp(isa, "06")) return a512 && vbmi2;
	if (!strcmp(isa, "avx512_gfni")) return a512 && gfni;
	if (!strcmp(isa, "by16_10")) return a512 && vpcl;
	if (!strcmp(isa, "gfni")) return 1;  /* ec_init_tables_gfni is plain C */
	return -1; /* unknown suffix */
}
#endif
