/* v.h - runtime services shared by all verification engines.
 *   PRNG, guard-page slots with canaries, fault trap, per-case watchdog,
 *   JSON-lines reporting, cross-process fingerprint set, command line.
 * Header-only; every engine is a single translation unit.
 */
#ifndef V_H
#define V_H
#define _GNU_SOURCE
#include <stdint.h>
#include <stddef.h>
#include <stdio.h>
#include <stdlib.h>
#include <string.h>
#include <stdarg.h>
#include <signal.h>
#include <setjmp.h>
#include <unistd.h>
#include <fcntl.h>
#include <errno.h>
#include <time.h>
#include <sys/time.h>
#include <dlfcn.h>
#include <ucontext.h>
#include <sys/mman.h>
#include <sys/stat.h>

/* ------------------------------------------------------------------ PRNG */
typedef struct { uint64_t s[4]; } vrng;
static inline uint64_t v_splitmix(uint64_t *x)
{
	uint64_t z = (*x += 0x9e3779b97f4a7c15ull);
	z = (z ^ (z >> 30)) * 0xbf58476d1ce4e5b9ull;
	z = (z ^ (z >> 27)) * 0x94d049bb133111ebull;
	return z ^ (z >> 31);
}
static inline void vr_seed(vrng *r, uint64_t seed, uint64_t stream, uint64_t idx)
{
	uint64_t x = seed * 0x9e3779b97f4a7c15ull ^ (stream + 1) * 0xd1342543de82ef95ull ^ (idx + 1) * 0xf1357aea2e62a9c5ull;
	for (int i = 0; i < 4; i++) r->s[i] = v_splitmix(&x);
}
static inline uint64_t vr64(vrng *r)
{
	uint64_t *s = r->s, res = ((s[1] * 5) << 7 | (s[1] * 5) >> 57) * 9, t = s[1] << 17;
	s[2] ^= s[0]; s[3] ^= s[1]; s[1] ^= s[2]; s[0] ^= s[3]; s[2] ^= t;
	s[3] = (s[3] << 45) | (s[3] >> 19);
	return res;
}
static inline uint32_t vr32(vrng *r) { return (uint32_t) (vr64(r) >> 32); }
/* uniform in [0,n), n>0 */
static inline uint32_t vrn(vrng *r, uint32_t n) { return (uint32_t) (((uint64_t) vr32(r) * n) >> 32); }
/* uniform in [lo,hi] */
static inline int vrr(vrng *r, int lo, int hi) { return lo + (int) vrn(r, (uint32_t) (hi - lo + 1)); }
static inline int vr_pick(vrng *r, const int *a, int n) { return a[vrn(r, n)]; }
static inline void vr_fill(vrng *r, void *p, size_t n)
{
	uint8_t *b = p;
	while (n >= 8) { uint64_t v = vr64(r); memcpy(b, &v, 8); b += 8; n -= 8; }
	if (n) { uint64_t v = vr64(r); memcpy(b, &v, n); }
}
/* deterministic content from a 64-bit tag (so buffers can be verified without a shadow copy) */
static inline void v_fill_tag(void *p, size_t n, uint64_t tag)
{
	vrng r; vr_seed(&r, tag, 77, 0); vr_fill(&r, p, n);
}
static inline long v_check_tag(const void *p, size_t n, uint64_t tag)
{
	vrng r; vr_seed(&r, tag, 77, 0);
	const uint8_t *b = p; size_t off = 0;
	while (off < n) {
		uint64_t v = vr64(&r); size_t k = n - off < 8 ? n - off : 8;
		if (memcmp(b + off, &v, k)) { for (size_t i = 0; i < k; i++) if (b[off + i] != ((uint8_t *) &v)[i]) return (long) (off + i); }
		off += k;
	}
	return -1;
}

/* --------------------------------------------------------------- options */
static struct {
	const char *prop;       /* property id this run serves */
	const char *tier;       /* quick | thorough */
	int thorough;
	uint64_t seed;
	int shard, nshards;
	long only;              /* >=0: run exactly this case index (replay) */
	const char *mode;       /* engine specific sub-workload selector */
	const char *fpfile;     /* shared fingerprint table */
	int verbose;
	double scale;           /* workload scale factor */
} vopt = { "C00", "quick", 0, 1, 0, 1, -1, "", NULL, 0, 1.0 };

static void v_parse_args(int argc, char **argv)
{
	for (int i = 1; i < argc; i++) {
		const char *a = argv[i];
		const char *nx = i + 1 < argc ? argv[i + 1] : "";
		if (!strcmp(a, "--prop")) { vopt.prop = nx; i++; }
		else if (!strcmp(a, "--tier")) { vopt.tier = nx; vopt.thorough = !strcmp(nx, "thorough"); i++; }
		else if (!strcmp(a, "--seed")) { vopt.seed = strtoull(nx, 0, 0); i++; }
		else if (!strcmp(a, "--shard")) { vopt.shard = atoi(nx); i++; }
		else if (!strcmp(a, "--nshards")) { vopt.nshards = atoi(nx); i++; }
		else if (!strcmp(a, "--only")) { vopt.only = atol(nx); i++; }
		else if (!strcmp(a, "--mode")) { vopt.mode = nx; i++; }
		else if (!strcmp(a, "--fpfile")) { vopt.fpfile = nx; i++; }
		else if (!strcmp(a, "--scale")) { vopt.scale = atof(nx); i++; }
		else if (!strcmp(a, "-v")) vopt.verbose = 1;
		else { fprintf(stderr, "unknown argument %s\n", a); exit(2); }
	}
	if (vopt.nshards < 1) vopt.nshards = 1;
}
static inline int v_mine(long idx) { return vopt.only >= 0 ? idx == vopt.only : (idx % vopt.nshards) == vopt.shard; }

/* ------------------------------------------------------------- reporting */
static char v_case[1024];          /* description of the case now running (for witnesses) */
static long v_case_idx = -1;
static long v_nviol, v_viol_cap = 400;
#define V_MAXKEYS 256
static struct { char key[160]; int n; } v_keys[V_MAXKEYS]; static int v_nkeys;

static void v_json_str(FILE *f, const char *s)
{
	fputc('"', f);
	for (; *s; s++) {
		unsigned char c = (unsigned char) *s;
		if (c == '"' || c == '\\') { fputc('\\', f); fputc(c, f); }
		else if (c < 0x20) fprintf(f, "\\u%04x", c);
		else fputc(c, f);
	}
	fputc('"', f);
}
static void v_setcase(long idx, const char *fmt, ...)
{
	va_list ap; va_start(ap, fmt); vsnprintf(v_case, sizeof v_case, fmt, ap); va_end(ap); v_case_idx = idx;
}
/* Report a violation.  key names the failing thing (not the run); at most 3 witnesses per key per shard. */
static void v_viol(const char *key, const char *fmt, ...)
{
	char msg[1024]; va_list ap; va_start(ap, fmt); vsnprintf(msg, sizeof msg, fmt, ap); va_end(ap);
	int k;
	for (k = 0; k < v_nkeys; k++) if (!strcmp(v_keys[k].key, key)) break;
	if (k == v_nkeys) { if (v_nkeys < V_MAXKEYS) { snprintf(v_keys[k].key, sizeof v_keys[k].key, "%s", key); v_keys[k].n = 0; v_nkeys++; } else k = V_MAXKEYS - 1; }
	v_nviol++;
	if (v_keys[k].n++ >= 3) return;
	fputs("{\"t\":\"viol\",\"prop\":", stdout); v_json_str(stdout, vopt.prop);
	fputs(",\"key\":", stdout); v_json_str(stdout, key);
	fputs(",\"msg\":", stdout); v_json_str(stdout, msg);
	fprintf(stdout, ",\"idx\":%ld,\"case\":", v_case_idx); v_json_str(stdout, v_case);
	fputs("}\n", stdout); fflush(stdout);
}
static void v_stat(const char *k, long long v) { printf("{\"t\":\"stat\",\"k\":\"%s\",\"v\":%lld}\n", k, v); }
static void v_set(const char *k, const char *elem) { fputs("{\"t\":\"set\",\"k\":", stdout); v_json_str(stdout, k); fputs(",\"v\":", stdout); v_json_str(stdout, elem); fputs("}\n", stdout); }
static void v_cnt(const char *k, const char *elem, long long n) { fputs("{\"t\":\"cnt\",\"k\":", stdout); v_json_str(stdout, k); fputs(",\"e\":", stdout); v_json_str(stdout, elem); printf(",\"v\":%lld}\n", n); }
static int v_nsamples;
static void v_sample(const char *fmt, ...)
{
	if (v_nsamples >= 4) return;
	v_nsamples++;
	char msg[1500]; va_list ap; va_start(ap, fmt); vsnprintf(msg, sizeof msg, fmt, ap); va_end(ap);
	fputs("{\"t\":\"sample\",\"v\":", stdout); v_json_str(stdout, msg); fputs("}\n", stdout);
}
static void v_done(void) { printf("{\"t\":\"done\"}\n"); fflush(stdout); }
static void v_harness_fail(const char *fmt, ...)
{
	va_list ap; va_start(ap, fmt); fprintf(stderr, "HARNESS-FAILURE: "); vfprintf(stderr, fmt, ap); fputc('\n', stderr); va_end(ap);
	fflush(stdout); exit(2);
}
static void v_hex(char *dst, size_t cap, const uint8_t *p, size_t n)
{
	size_t o = 0; for (size_t i = 0; i < n && o + 3 < cap; i++) o += snprintf(dst + o, cap - o, "%02x", p[i]); if (cap) dst[o < cap ? o : cap - 1] = 0;
}

/* counters keyed by small strings, kept in-process and flushed at the end */
#define V_MAXCNT 2048
static struct { char k[48]; char e[80]; long long v; } v_cnts[V_MAXCNT]; static int v_ncnts;
static void v_count(const char *k, const char *e, long long n)
{
	/* open hash on (k,e) */
	uint64_t h = 1469598103934665603ull; for (const char *p = k; *p; p++) h = (h ^ (uint8_t) *p) * 1099511628211ull; h = (h ^ 0xff) * 1099511628211ull; for (const char *p = e; *p; p++) h = (h ^ (uint8_t) *p) * 1099511628211ull;
	for (int i = 0; i < V_MAXCNT; i++) {
		int s = (int) ((h + i) % V_MAXCNT);
		if (!v_cnts[s].k[0]) { if (v_ncnts > V_MAXCNT - 8) return; snprintf(v_cnts[s].k, sizeof v_cnts[s].k, "%s", k); snprintf(v_cnts[s].e, sizeof v_cnts[s].e, "%s", e); v_cnts[s].v = n; v_ncnts++; return; }
		if (!strcmp(v_cnts[s].k, k) && !strcmp(v_cnts[s].e, e)) { v_cnts[s].v += n; return; }
	}
}
static void v_flush_counts(void) { for (int i = 0; i < V_MAXCNT; i++) if (v_cnts[i].k[0]) v_cnt(v_cnts[i].k, v_cnts[i].e, v_cnts[i].v); }

/* ----------------------------------------------- cross-process fingerprint set */
static uint64_t *v_fp; static size_t v_fpmask; static long long v_fp_new, v_fp_full;
static void v_fp_open(void)
{
	if (!vopt.fpfile) return;
	int fd = open(vopt.fpfile, O_RDWR); if (fd < 0) v_harness_fail("fpfile %s: %s", vopt.fpfile, strerror(errno));
	struct stat st; fstat(fd, &st); size_t n = st.st_size / 8; if (n < 1024 || (n & (n - 1))) v_harness_fail("fpfile size");
	v_fp = mmap(0, n * 8, PROT_READ | PROT_WRITE, MAP_SHARED, fd, 0); if (v_fp == MAP_FAILED) v_harness_fail("fpfile mmap"); close(fd); v_fpmask = n - 1;
}
static inline uint64_t v_hash64(const void *p, size_t n, uint64_t h)
{
	const uint8_t *b = p; h ^= 0xcbf29ce484222325ull ^ n;
	while (n >= 8) { uint64_t v; memcpy(&v, b, 8); h = (h ^ v) * 0x9e3779b97f4a7c15ull; h ^= h >> 29; b += 8; n -= 8; }
	while (n--) { h = (h ^ *b++) * 0x100000001b3ull; }
	h ^= h >> 32; h *= 0xd6e8feb86659fd93ull; h ^= h >> 32; return h;
}
/* record that a distinct non-trivial case with this fingerprint was explored; returns 1 if new */
static int v_distinct(uint64_t fp)
{
	if (!v_fp) { v_fp_new++; return 1; }
	if (!fp) fp = 1;
	for (size_t i = 0; i < 64; i++) {
		uint64_t *s = &v_fp[(fp + i) & v_fpmask], cur = __atomic_load_n(s, __ATOMIC_RELAXED);
		if (cur == fp) return 0;
		if (cur == 0) { uint64_t exp = 0; if (__atomic_compare_exchange_n(s, &exp, fp, 0, __ATOMIC_RELAXED, __ATOMIC_RELAXED)) { v_fp_new++; return 1; } if (exp == fp) return 0; }
	}
	v_fp_full++; return 0;   /* table crowded: not counted (conservative) */
}

/* ------------------------------------------------------------ guard slots */
#define V_PAGE 4096ul
enum { G_END = 0, G_START = 1, G_NEAR_END = 2 };
typedef struct gslot {
	uint8_t *map; size_t maplen;     /* whole mapping incl. guards */
	uint8_t *lo, *hi;                /* usable range [lo,hi) */
	const char *name;
	uint8_t *cur; size_t curlen;     /* last placement */
	uint8_t canary_salt;
	int released;
} gslot;
#define V_MAXSLOTS 512
static gslot *v_slots[V_MAXSLOTS]; static int v_nslots;
static inline uint8_t v_canary(const gslot *g, const uint8_t *p) { size_t o = (size_t) (p - g->lo); return (uint8_t) (0x5a ^ (o * 167) ^ (o >> 8) ^ g->canary_salt); }
static void gs_paint(gslot *g, uint8_t *from, uint8_t *to) { for (uint8_t *p = from; p < to; p++) *p = v_canary(g, p); }
static gslot *gs_new(const char *name, size_t usable)
{
	gslot *g = calloc(1, sizeof *g); size_t pages = (usable + V_PAGE - 1) / V_PAGE; if (!pages) pages = 1;
	g->maplen = (pages + 2) * V_PAGE;
	g->map = mmap(0, g->maplen, PROT_NONE, MAP_PRIVATE | MAP_ANONYMOUS | MAP_NORESERVE, -1, 0);
	if (g->map == MAP_FAILED) v_harness_fail("mmap slot %s", name);
	g->lo = g->map + V_PAGE; g->hi = g->lo + pages * V_PAGE;
	if (mprotect(g->lo, pages * V_PAGE, PROT_READ | PROT_WRITE)) v_harness_fail("mprotect slot");
	g->name = name; g->canary_salt = (uint8_t) (v_nslots * 37 + 11);
	gs_paint(g, g->lo, g->hi);
	if (v_nslots < V_MAXSLOTS) v_slots[v_nslots++] = g;
	return g;
}
static void gs_free(gslot *g)
{
	for (int i = 0; i < v_nslots; i++) if (v_slots[i] == g) { v_slots[i] = v_slots[--v_nslots]; break; }
	munmap(g->map, g->maplen); free(g);
}
/* Place a buffer of len bytes.  G_END: last byte directly before the guard page. G_START: first byte
 * directly after the guard page.  G_NEAR_END: ends pad (<64) bytes before the guard so that the
 * pointer has alignment `align_off` modulo 64; the pad is canary. */
static uint8_t *gs_place(gslot *g, size_t len, int place, unsigned align_off)
{
	if (len > (size_t) (g->hi - g->lo) - 64) v_harness_fail("slot %s too small for %zu", g->name, len);
	uint8_t *p;
	if (place == G_START) p = g->lo;
	else if (place == G_END) p = g->hi - len;
	else { p = g->hi - len; unsigned cur = (unsigned) ((uintptr_t) p & 63); unsigned pad = (cur - (align_off & 63)) & 63; p -= pad; }
	g->cur = p; g->curlen = len; return p;
}
/* verify canaries around the current placement (window w bytes each side, clipped) and return offset of
 * first damaged byte relative to buffer start (negative = before), or LONG_MIN if intact */
#define GS_OK (-0x7fffffffffffffffL)
static long gs_check(gslot *g, size_t w)
{
	if (!g->cur) return GS_OK;
	uint8_t *a = g->cur - w < g->lo || (size_t) (g->cur - g->lo) < w ? g->lo : g->cur - w;
	for (uint8_t *p = a; p < g->cur; p++) if (*p != v_canary(g, p)) return (long) (p - g->cur);
	uint8_t *e = g->cur + g->curlen, *b = (size_t) (g->hi - e) < w ? g->hi : e + w;
	for (uint8_t *p = e; p < b; p++) if (*p != v_canary(g, p)) return (long) (p - g->cur);
	return GS_OK;
}
static long gs_check_all(gslot *g)
{
	if (!g->cur) { for (uint8_t *p = g->lo; p < g->hi; p++) if (*p != v_canary(g, p)) return (long) (p - g->lo); return GS_OK; }
	for (uint8_t *p = g->lo; p < g->cur; p++) if (*p != v_canary(g, p)) return (long) (p - g->cur);
	for (uint8_t *p = g->cur + g->curlen; p < g->hi; p++) if (*p != v_canary(g, p)) return (long) (p - g->cur);
	return GS_OK;
}
/* restore canary over the buffer just used */
static void gs_reset(gslot *g) { if (g->cur) gs_paint(g, g->cur, g->cur + g->curlen); g->cur = NULL; g->curlen = 0; }
static void gs_repaint_all(gslot *g) { gs_paint(g, g->lo, g->hi); g->cur = NULL; g->curlen = 0; }
/* make the whole usable area inaccessible (consumed chunk) / accessible again */
static void gs_release(gslot *g) { mprotect(g->lo, (size_t) (g->hi - g->lo), PROT_NONE); g->released = 1; }
static void gs_reacquire(gslot *g) { mprotect(g->lo, (size_t) (g->hi - g->lo), PROT_READ | PROT_WRITE); g->released = 0; }
static void gs_readonly(gslot *g, int ro) { mprotect(g->lo, (size_t) (g->hi - g->lo), ro ? PROT_READ : PROT_READ | PROT_WRITE); }


/* ------------------------------------------------- own symbol table (nasm symbols have size 0, dladdr skips them) */
#include <elf.h>
typedef struct { uint64_t a; const char *n; } v_symt;
static v_symt *v_syms; static int v_nsyms;
static int v_symcmp(const void *x, const void *y) { uint64_t a = ((const v_symt *) x)->a, b = ((const v_symt *) y)->a; return a < b ? -1 : a > b; }
static void v_load_syms(void)
{
	static int done; if (done) return; done = 1;
	int fd = open("/proc/self/exe", O_RDONLY); if (fd < 0) return;
	struct stat st; fstat(fd, &st); uint8_t *m = mmap(0, st.st_size, PROT_READ, MAP_PRIVATE, fd, 0); close(fd); if (m == MAP_FAILED) return;
	Elf64_Ehdr *eh = (Elf64_Ehdr *) m; Elf64_Shdr *sh = (Elf64_Shdr *) (m + eh->e_shoff);
	for (int i = 0; i < eh->e_shnum; i++) if (sh[i].sh_type == SHT_SYMTAB) {
		Elf64_Sym *sy = (Elf64_Sym *) (m + sh[i].sh_offset); int n = (int) (sh[i].sh_size / sizeof *sy); const char *str = (const char *) (m + sh[sh[i].sh_link].sh_offset);
		v_syms = malloc(sizeof(v_symt) * (n + 1));
		for (int k = 0; k < n; k++) {
			int ty = ELF64_ST_TYPE(sy[k].st_info), bd = ELF64_ST_BIND(sy[k].st_info); const char *nm = str + sy[k].st_name;
			if ((ty != STT_FUNC && ty != STT_NOTYPE && ty != STT_OBJECT) || !sy[k].st_value || !nm[0] || sy[k].st_shndx == SHN_UNDEF) continue;
			if (bd != STB_GLOBAL && ty != STT_FUNC) continue;    /* skip local asm labels */
			if (strchr(nm, '.')) continue;
			v_syms[v_nsyms].a = sy[k].st_value; v_syms[v_nsyms].n = nm; v_nsyms++;
		}
		qsort(v_syms, v_nsyms, sizeof *v_syms, v_symcmp);
	}
}
/* nearest preceding symbol; *off receives the distance */
static const char *v_symof(const void *p, unsigned long *off)
{
	v_load_syms(); uint64_t a = (uint64_t) p; int lo = 0, hi = v_nsyms - 1, best = -1;
	while (lo <= hi) { int mid = (lo + hi) / 2; if (v_syms[mid].a <= a) { best = mid; lo = mid + 1; } else hi = mid - 1; }
	if (best < 0 || a - v_syms[best].a > (1u << 20)) { if (off) *off = 0; return NULL; }
	if (off) *off = (unsigned long) (a - v_syms[best].a); return v_syms[best].n;
}

/* ------------------------------------------------------------ fault trap */
static sigjmp_buf v_jmp; static volatile sig_atomic_t v_armed;
static struct { int sig; void *addr; void *rip; int code; } v_fault;
static char v_fault_txt[512];
static void v_describe_fault(void)
{
	char where[200] = "unmapped/other";
	uint8_t *a = v_fault.addr;
	for (int i = 0; i < v_nslots; i++) {
		gslot *g = v_slots[i];
		if (a >= g->map && a < g->map + g->maplen) {
			if (a < g->lo) snprintf(where, sizeof where, "slot %s guard-before (buffer%+ld)", g->name, g->cur ? (long) (a - g->cur) : (long) (a - g->lo));
			else if (a >= g->hi) snprintf(where, sizeof where, "slot %s guard-after (buffer_end%+ld)", g->name, g->cur ? (long) (a - (g->cur + g->curlen)) : (long) (a - g->hi));
			else snprintf(where, sizeof where, "slot %s %s area (buffer%+ld)", g->name, g->released ? "released" : "protected", g->cur ? (long) (a - g->cur) : (long) (a - g->lo));
			break;
		}
	}
	char sym[128] = "?"; unsigned long so; const char *sn = v_symof(v_fault.rip, &so);
	if (sn) snprintf(sym, sizeof sym, "%s+0x%lx", sn, so);
	snprintf(v_fault_txt, sizeof v_fault_txt, "signal %d (%s) addr=%p in %s at %s", v_fault.sig,
		 v_fault.sig == SIGSEGV ? "SIGSEGV" : v_fault.sig == SIGBUS ? "SIGBUS" : v_fault.sig == SIGILL ? "SIGILL" : v_fault.sig == SIGFPE ? "SIGFPE" : v_fault.sig == SIGABRT ? "SIGABRT" : v_fault.sig == SIGALRM ? "watchdog" : "?",
		 v_fault.addr, where, sym);
}
/* short symbol of faulting RIP, for keys */
static const char *v_fault_sym(void)
{
	static char s[96]; const char *sn = v_symof(v_fault.rip, 0);
	snprintf(s, sizeof s, "%s", sn ? sn : "unknown");
	return s;
}
static const char *v_fault_slot(void)
{
	uint8_t *a = v_fault.addr;
	for (int i = 0; i < v_nslots; i++) { gslot *g = v_slots[i]; if (a >= g->map && a < g->map + g->maplen) return g->name; }
	return "other";
}
static void v_on_fault(int sig, siginfo_t *si, void *uc_)
{
	ucontext_t *uc = uc_;
	if (sig == SIGVTALRM) sig = SIGALRM;
	v_fault.sig = sig; v_fault.addr = si ? si->si_addr : 0; v_fault.code = si ? si->si_code : 0;
	v_fault.rip = (void *) uc->uc_mcontext.gregs[REG_RIP];
	if (!v_armed) {
		/* a fault outside a monitored library call is a harness problem (or memory already corrupted) */
		char b[256]; int n = snprintf(b, sizeof b, "HARNESS-FAILURE: unarmed signal %d addr=%p rip=%p case=%ld\n", sig, v_fault.addr, v_fault.rip, v_case_idx);
		if (write(2, b, n) < 0) { }
		_exit(sig == SIGALRM ? 4 : 3);
	}
	v_armed = 0;
	siglongjmp(v_jmp, 1);
}
static void v_install_traps(void)
{
	static uint8_t *altstk; altstk = mmap(0, 1 << 18, PROT_READ | PROT_WRITE, MAP_PRIVATE | MAP_ANONYMOUS, -1, 0);
	stack_t ss = { .ss_sp = altstk, .ss_size = 1 << 18, .ss_flags = 0 }; sigaltstack(&ss, 0);
	struct sigaction sa; memset(&sa, 0, sizeof sa); sa.sa_sigaction = v_on_fault; sa.sa_flags = SA_SIGINFO | SA_ONSTACK | SA_NODEFER;
	int sigs[] = { SIGSEGV, SIGBUS, SIGILL, SIGFPE, SIGABRT, SIGALRM, SIGVTALRM };
	for (unsigned i = 0; i < sizeof sigs / sizeof sigs[0]; i++) sigaction(sigs[i], &sa, 0);
}
/* if (V_TRY(secs)) { library call(s); V_END; } else { v_describe_fault(); ... }  */
/* ---- register poisoning: every caller-saved register holds garbage when a monitored library call starts.  The SysV ABI lets a
 * callee assume nothing about rax, rcx, rdx, rsi, rdi, r8-r11 (beyond its arguments), xmm/ymm/zmm0-31 and k0-k7; a kernel whose result
 * depends on what the previous routine left there (a constant it forgot to load, an accumulator it forgot to clear, upper vector
 * halves it assumes zero) works in a test that always calls the same sequence and fails in an application.  v_poison_regs() is an
 * ordinary function (so the compiler already assumes it clobbers those registers) that loads them from a buffer that changes on
 * every call; it runs between sigsetjmp and the first library call of a V_TRY block. */
uint8_t v_poison_buf[64 * 32 + 128] __attribute__((aligned(64), used));
void v_poison_sse(void); void v_poison_avx(void); void v_poison_avx512(void);
__asm__(".text\n"
	".globl v_poison_sse\n.type v_poison_sse,@function\nv_poison_sse:\n\tlea v_poison_buf(%rip),%rax\n"
	"\tmovdqu 0(%rax),%xmm0\n\tmovdqu 64(%rax),%xmm1\n\tmovdqu 128(%rax),%xmm2\n\tmovdqu 192(%rax),%xmm3\n\tmovdqu 256(%rax),%xmm4\n\tmovdqu 320(%rax),%xmm5\n\tmovdqu 384(%rax),%xmm6\n\tmovdqu 448(%rax),%xmm7\n"
	"\tmovdqu 512(%rax),%xmm8\n\tmovdqu 576(%rax),%xmm9\n\tmovdqu 640(%rax),%xmm10\n\tmovdqu 704(%rax),%xmm11\n\tmovdqu 768(%rax),%xmm12\n\tmovdqu 832(%rax),%xmm13\n\tmovdqu 896(%rax),%xmm14\n\tmovdqu 960(%rax),%xmm15\n"
	"\tjmp 9f\n"
	".globl v_poison_avx\n.type v_poison_avx,@function\nv_poison_avx:\n\tlea v_poison_buf(%rip),%rax\n"
	"\tvmovdqu 0(%rax),%ymm0\n\tvmovdqu 64(%rax),%ymm1\n\tvmovdqu 128(%rax),%ymm2\n\tvmovdqu 192(%rax),%ymm3\n\tvmovdqu 256(%rax),%ymm4\n\tvmovdqu 320(%rax),%ymm5\n\tvmovdqu 384(%rax),%ymm6\n\tvmovdqu 448(%rax),%ymm7\n"
	"\tvmovdqu 512(%rax),%ymm8\n\tvmovdqu 576(%rax),%ymm9\n\tvmovdqu 640(%rax),%ymm10\n\tvmovdqu 704(%rax),%ymm11\n\tvmovdqu 768(%rax),%ymm12\n\tvmovdqu 832(%rax),%ymm13\n\tvmovdqu 896(%rax),%ymm14\n\tvmovdqu 960(%rax),%ymm15\n"
	"\tjmp 9f\n"
	".globl v_poison_avx512\n.type v_poison_avx512,@function\nv_poison_avx512:\n\tlea v_poison_buf(%rip),%rax\n"
	"\tvmovdqu64 0(%rax),%zmm0\n\tvmovdqu64 64(%rax),%zmm1\n\tvmovdqu64 128(%rax),%zmm2\n\tvmovdqu64 192(%rax),%zmm3\n\tvmovdqu64 256(%rax),%zmm4\n\tvmovdqu64 320(%rax),%zmm5\n\tvmovdqu64 384(%rax),%zmm6\n\tvmovdqu64 448(%rax),%zmm7\n"
	"\tvmovdqu64 512(%rax),%zmm8\n\tvmovdqu64 576(%rax),%zmm9\n\tvmovdqu64 640(%rax),%zmm10\n\tvmovdqu64 704(%rax),%zmm11\n\tvmovdqu64 768(%rax),%zmm12\n\tvmovdqu64 832(%rax),%zmm13\n\tvmovdqu64 896(%rax),%zmm14\n\tvmovdqu64 960(%rax),%zmm15\n"
	"\tvmovdqu64 1024(%rax),%zmm16\n\tvmovdqu64 1088(%rax),%zmm17\n\tvmovdqu64 1152(%rax),%zmm18\n\tvmovdqu64 1216(%rax),%zmm19\n\tvmovdqu64 1280(%rax),%zmm20\n\tvmovdqu64 1344(%rax),%zmm21\n\tvmovdqu64 1408(%rax),%zmm22\n\tvmovdqu64 1472(%rax),%zmm23\n"
	"\tvmovdqu64 1536(%rax),%zmm24\n\tvmovdqu64 1600(%rax),%zmm25\n\tvmovdqu64 1664(%rax),%zmm26\n\tvmovdqu64 1728(%rax),%zmm27\n\tvmovdqu64 1792(%rax),%zmm28\n\tvmovdqu64 1856(%rax),%zmm29\n\tvmovdqu64 1920(%rax),%zmm30\n\tvmovdqu64 1984(%rax),%zmm31\n"
	"\tkmovq 2048(%rax),%k1\n\tkmovq 2056(%rax),%k2\n\tkmovq 2064(%rax),%k3\n\tkmovq 2072(%rax),%k4\n\tkmovq 2080(%rax),%k5\n\tkmovq 2088(%rax),%k6\n\tkmovq 2096(%rax),%k7\n"
	"9:\tmov 8(%rax),%rcx\n\tmov 72(%rax),%rdx\n\tmov 136(%rax),%rsi\n\tmov 200(%rax),%rdi\n\tmov 264(%rax),%r8\n\tmov 328(%rax),%r9\n\tmov 392(%rax),%r10\n\tmov 456(%rax),%r11\n\tmov 520(%rax),%rax\n\tret\n");
/* ---- callee-saved register monitor: kernels are called through a trampoline that parks known values in rbx, rbp, r12-r15 and verifies
 * them after the call (a kernel that returns with two of them swapped or one clobbered corrupts its *caller*, typically only in a
 * different function compiled by a different compiler).  Up to 7 integer/pointer arguments. */
volatile int v_abi_bad __attribute__((used));
long v_abi_call7(void *fn, long a0, long a1, long a2, long a3, long a4, long a5, long a6);
__asm__(".text\n.globl v_abi_call7\n.type v_abi_call7,@function\nv_abi_call7:\n"
	"\tpush %rbx\n\tpush %rbp\n\tpush %r12\n\tpush %r13\n\tpush %r14\n\tpush %r15\n"
	"\tmov %rdi,%rax\n\tmov %rsi,%rdi\n\tmov %rdx,%rsi\n\tmov %rcx,%rdx\n\tmov %r8,%rcx\n\tmov %r9,%r8\n\tmov 56(%rsp),%r9\n\tpushq 64(%rsp)\n"
	"\tmovabs $0x1b1b1b1b5a5a0001,%rbx\n\tmovabs $0x2c2c2c2c5a5a0002,%rbp\n\tmovabs $0x3d3d3d3d5a5a0003,%r12\n\tmovabs $0x4e4e4e4e5a5a0004,%r13\n\tmovabs $0x5f5f5f5f5a5a0005,%r14\n\tmovabs $0x6a6a6a6a5a5a0006,%r15\n"
	"\tcall *%rax\n\tadd $8,%rsp\n"
	"\tmovabs $0x1b1b1b1b5a5a0001,%r10\n\txor %rbx,%r10\n\tmovabs $0x2c2c2c2c5a5a0002,%r11\n\txor %rbp,%r11\n\tor %r11,%r10\n"
	"\tmovabs $0x3d3d3d3d5a5a0003,%r11\n\txor %r12,%r11\n\tor %r11,%r10\n\tmovabs $0x4e4e4e4e5a5a0004,%r11\n\txor %r13,%r11\n\tor %r11,%r10\n"
	"\tmovabs $0x5f5f5f5f5a5a0005,%r11\n\txor %r14,%r11\n\tor %r11,%r10\n\tmovabs $0x6a6a6a6a5a5a0006,%r11\n\txor %r15,%r11\n\tor %r11,%r10\n"
	"\tjz 1f\n\tmovl $1,v_abi_bad(%rip)\n1:\tpop %r15\n\tpop %r14\n\tpop %r13\n\tpop %r12\n\tpop %rbp\n\tpop %rbx\n\tret\n");
void v_abi_selftest_swap(void); void v_abi_selftest_ok(void);
__asm__(".text\n.globl v_abi_selftest_swap\n.type v_abi_selftest_swap,@function\nv_abi_selftest_swap:\n\txchg %r12,%r13\n\tret\n.globl v_abi_selftest_ok\n.type v_abi_selftest_ok,@function\nv_abi_selftest_ok:\n\tpush %r12\n\txor %r12,%r12\n\tpop %r12\n\tret\n");
#define V_L(x) ((long) (x))
#define V_PAD7(a, b, c, d, e, f, g, ...) V_L(a), V_L(b), V_L(c), V_L(d), V_L(e), V_L(f), V_L(g)
#define V_ABI(fn, ...) v_abi_call7((void *) (fn), V_PAD7(__VA_ARGS__, 0, 0, 0, 0, 0, 0, 0))
static long v_abi_calls_checked;
static int v_poison_level = -1;   /* 0 sse, 1 avx, 2 avx512 (what this CPU / emulator executes); -2 = off (VERIF_NO_POISON) */
static long v_poison_calls;
static inline void v_poison_regs(void)
{
	if (v_poison_level == -1) {
		uint32_t a, b, c, d; v_poison_level = 0;
		if (getenv("VERIF_NO_POISON")) v_poison_level = -2;
		else { __asm__ volatile("cpuid" : "=a"(a), "=b"(b), "=c"(c), "=d"(d) : "a"(1), "c"(0));
			if ((c & (1u << 27)) && (c & (1u << 28))) { uint32_t lo, hi; __asm__ volatile("xgetbv" : "=a"(lo), "=d"(hi) : "c"(0)); if ((lo & 6) == 6) { v_poison_level = 1; __asm__ volatile("cpuid" : "=a"(a), "=b"(b), "=c"(c), "=d"(d) : "a"(7), "c"(0)); if ((b & (1u << 16)) && (b & (1u << 30)) && (lo & 0xe0) == 0xe0) v_poison_level = 2; } } }
		uint64_t x = 0x9e3779b97f4a7c15ull; for (size_t i = 0; i < sizeof v_poison_buf; i += 8) { x ^= x << 13; x ^= x >> 7; x ^= x << 17; memcpy(v_poison_buf + i, &x, 8); }
	}
	if (v_poison_level < 0) return;
	{ uint64_t *q = (uint64_t *) v_poison_buf; uint64_t x = q[3] + 0x9e3779b97f4a7c15ull * (uint64_t) (++v_poison_calls); for (int i = 0; i < 264; i += 5) { x ^= x << 13; x ^= x >> 7; x ^= x << 17; q[i] ^= x; } }
	if (v_poison_level == 2) v_poison_avx512(); else if (v_poison_level == 1) v_poison_avx(); else v_poison_sse();
}
/* the watchdog counts user CPU time of the process (ITIMER_VIRTUAL), not wall-clock time: a loaded machine cannot make it fire */
static inline void v_watchdog(int secs) { struct itimerval it; memset(&it, 0, sizeof it); it.it_value.tv_sec = secs; setitimer(ITIMER_VIRTUAL, &it, 0); }
static void (*v_hook_try)(void); static void (*v_hook_end)(void); static void (*v_hook_stats)(void);   /* set by cpusim.h: shadow-stack reset / interposer verdict */
#define V_TRY(secs) (v_watchdog(secs), v_armed = 1, sigsetjmp(v_jmp, 1) == 0 && ((v_hook_try ? v_hook_try() : (void) 0), v_poison_regs(), 1))
#define V_END do { v_armed = 0; v_watchdog(0); if (v_hook_end) v_hook_end(); if (v_abi_bad) { v_abi_bad = 0; v_viol("abi:callee-saved-register-clobbered", "a kernel returned with rbx, rbp or r12-r15 changed"); } } while (0)

/* a large read-only-ish buffer that costs almost no memory: `total` bytes made of one 2 MiB block of `fill` mapped over and over
 * (memfd), except that the first block is a private copy that starts with `prefix`.  NULL if the kernel refuses. */
#include <sys/syscall.h>
static uint8_t *v_alias_map(size_t total, uint8_t fill, const void *prefix, size_t prefix_len)
{
	size_t blk = 2u << 20; total = (total + blk - 1) / blk * blk;
	int fd = (int) syscall(SYS_memfd_create, "v_alias", 0); if (fd < 0) return NULL;
	if (ftruncate(fd, (off_t) blk)) { close(fd); return NULL; }
	uint8_t *b = mmap(0, blk, PROT_READ | PROT_WRITE, MAP_SHARED, fd, 0); if (b == MAP_FAILED) { close(fd); return NULL; } memset(b, fill, blk); munmap(b, blk);
	uint8_t *base = mmap(0, total + 4096, PROT_NONE, MAP_PRIVATE | MAP_ANONYMOUS | MAP_NORESERVE, -1, 0); if (base == MAP_FAILED) { close(fd); return NULL; }
	for (size_t o = 0; o < total; o += blk) if (mmap(base + o, blk, PROT_READ | PROT_WRITE, (o == 0 ? MAP_PRIVATE : MAP_SHARED) | MAP_FIXED, fd, 0) == MAP_FAILED) { close(fd); munmap(base, total + 4096); return NULL; }
	close(fd);
	if (prefix_len) memcpy(base, prefix, prefix_len);   /* copy-on-write: only the first block becomes private */
	return base;                                         /* the page behind the buffer stays inaccessible */
}
static double v_now(void) { struct timespec t; clock_gettime(CLOCK_MONOTONIC, &t); return t.tv_sec + t.tv_nsec * 1e-9; }

static void v_init(int argc, char **argv)
{
	setvbuf(stdout, 0, _IOFBF, 1 << 16);
	v_parse_args(argc, argv);
	v_install_traps();
	v_fp_open();
	/* monitor self-tests: the trampoline must flag a routine that swaps two callee-saved registers and pass one that preserves them */
	V_ABI(v_abi_selftest_ok, 1, 2, 3); if (v_abi_bad) v_harness_fail("callee-saved monitor flags a routine that preserves the registers");
	V_ABI(v_abi_selftest_swap, 1, 2, 3, 4, 5, 6, 7); if (!v_abi_bad) v_harness_fail("callee-saved monitor does not flag a routine that swaps r12 and r13"); v_abi_bad = 0;
}
static int v_finish(void)
{
	v_watchdog(0);
	v_flush_counts();
	v_stat("distinct_nontrivial", v_fp_new);
	if (v_fp_full) v_stat("fp_table_crowded", v_fp_full);
	v_stat("violations_raw", v_nviol);
	if (v_hook_stats) v_hook_stats();
	v_done();
	return 0;
}
#endif
