/* eng_deflate.c - compression driver: one-shot and streaming with adversarial call schedules.
 * Serves C01 (lossless + RFC conformant, every dispatcher choice), C07 (slicing independence, compression half),
 * C10 (output-space contract, termination, parameter validation), C11 (producer side: trailers),
 * C14 (flush points), C17 (window limit, dictionaries) and C05 (every buffer in its own guard-page mapping,
 * consumed chunks released).  Oracles: refinflate (independent, instrumented) and system zlib. */
#include "v.h"
#include "refinflate.h"
#include "adleredge.h"
#include "cpusim.h"
#include <zlib.h>
#include "igzip_lib.h"

#ifndef IGZIP_HIST_SIZE
#define IGZIP_HIST_SIZE ISAL_DEF_HIST_SIZE
#endif
#define MAXIN (4u << 20)
#define MAXOUT (5u << 20)
#define NCH 6
#define CHMAX (1u << 17)
#define ICHMAX (640u << 10)     /* input chunks may be large (a small first chunk followed by several hundred KB) */
static gslot *s_ctx, *s_lvl, *s_in, *s_out, *s_huff, *s_dict, *s_dictst, *s_ic[NCH], *s_oc[NCH];
static uint8_t *inbuf;            /* private copy of the input of the case (never handed to the library) */
static uint8_t *cout; static size_t coutlen;   /* collected compressed output */
static uint8_t *dec, *dec2;       /* decode scratch */
static uint8_t *dictbuf;

enum { M_ROUNDTRIP = 1, M_FLUSHPT = 2, M_WINDOW = 4, M_BOUND = 8, M_PROGRESS = 16, M_CTX = 32 };
static unsigned monitors;

typedef struct {
	int level, wrapper, hist_bits, table, lvlkind, oneshot, os_flush, os_eos;
	size_t n; int infam;
	int discipline, ikind, okind, fkind, eospol, fresh_out, chunked_mem;
	size_t dictlen; int dictmode;   /* 0 none, 1 set_dict, 2 process+reset */
	size_t os_avail_out;            /* one-shot: avail_out (0 = generous) */
} ccase;
typedef struct { uint32_t ain, aout, cons, prod; uint16_t flush, eos; uint8_t sb, sa; int8_t ret; } cevent;
#define MAXEV 6000
static cevent ev[MAXEV]; static int nev;
typedef struct { size_t outpos, inpos; int full; } fpoint;
static long st_forced_empty, st_late_hb, st_bigchunk, st_far_flush; static fpoint fps[64]; static int nfps; static long n_flushpts, n_fullpts, n_fullpts_with_match_data;
static long st_calls, st_streams, st_stored_fallback, st_multiblock, st_big, st_tmp_resume[32], st_pairs[24][24];

/* ------------------------------------------------------------------ inputs */
static void markov(vrng *r, uint8_t *b, size_t n)
{
	static const char *words[] = { "the ", "quick ", "brown ", "fox ", "jumps ", "over ", "lazy ", "dog ", "storage ", "block ", "parity ", "deflate ", "0123456789 ", "\n", "AAAAAAAA", "ab" };
	size_t o = 0; while (o < n) { const char *w = words[vrn(r, 16)]; size_t l = strlen(w); if (vrn(r, 9) == 0) { b[o++] = (uint8_t) vr32(r); continue; } for (size_t i = 0; i < l && o < n; i++) b[o++] = (uint8_t) w[i]; }
}
static size_t gen_input(vrng *r, uint8_t *b, int fam, size_t cap, int hist_bits)
{
	size_t n = 0;
	switch (fam) {
	case 0: n = 0; break;
	case 1: n = 1 + vrn(r, 300); vr_fill(r, b, n); if (vrn(r, 2)) markov(r, b, n); break;
	case 2: { static const int th[] = { 115, 130, 230, 258, 516, 774, 1032, 65535, 65536 }; n = vrn(r, 3) ? (size_t) th[vrn(r, 9)] + vrr(r, -3, 3) : 258 * vrn(r, 300) + vrn(r, 5); if (n > cap) n = cap; memset(b, vrn(r, 2) ? 0 : vrn(r, 2) ? 0xff : (int) vrn(r, 256), n); } break;
	case 3: n = vrn(r, 4) ? vrn(r, 20000) : vrn(r, (uint32_t) (cap > 200000 ? 200000 : cap)); vr_fill(r, b, n); break;        /* incompressible */
	case 4: n = vrn(r, (uint32_t) (cap > 150000 ? 150000 : cap)); markov(r, b, n); break;
	case 5: { /* phrase repeated at a chosen distance: long-range matches at window edges */
		uint32_t w = hist_bits >= 9 && hist_bits <= 15 ? 1u << hist_bits : IGZIP_HIST_SIZE;
		static const int ds[] = { -2, -1, 0, 1, 2 }; uint32_t base = vrn(r, 4) == 0 ? 32768 : vrn(r, 4) == 0 ? 65536 : w;
		uint32_t d = base + ds[vrn(r, 5)]; if (vrn(r, 6) == 0) d = 1 + vrn(r, 3 * w);
		size_t plen = 8 + vrn(r, 300), reps = 2 + vrn(r, 5); n = d * (reps - 1) + plen + vrn(r, 100); if (n > cap) { n = cap; }
		vr_fill(r, b, n); uint8_t ph[320]; vr_fill(r, ph, plen); for (size_t k = 0; k < reps; k++) { size_t at = k * d; if (at + plen <= n) memcpy(b + at, ph, plen); }
		} break;
	case 6: { static const int ed[] = { 65535, 65536, 65537, 131070, 131071, 196605 }; n = ed[vrn(r, 6)] + vrr(r, -1, 1); if (n > cap) n = cap; if (vrn(r, 2)) vr_fill(r, b, n); else markov(r, b, n); } break;  /* stored-block splitting */
	case 7: { /* > 64 KiB mixed: text, random islands, repeats straddling 32K/64K (16-bit position wrap) */
		n = 70000 + vrn(r, (uint32_t) (cap > 260000 ? 190000 : cap - 70000)); if (n > cap) n = cap; markov(r, b, n);
		for (int k = 0; k < 6; k++) { size_t at = vrn(r, (uint32_t) n), l = vrn(r, 3000); if (at + l > n) l = n - at; vr_fill(r, b + at, l); }
		for (int k = 0; k < 8; k++) { size_t l = 20 + vrn(r, 400), d = (vrn(r, 2) ? 32768 : 65536) + vrr(r, -300, 300), at = vrn(r, (uint32_t) n); if (at + d + l <= n) memcpy(b + at + d, b + at, l); }
		} break;
	case 9: { /* a few literals, then long runs of one byte (matches of 258+ starting right after a literal), repeated */
		n = 0; int segs = 1 + vrn(r, 4); for (int k = 0; k < segs; k++) { size_t pl = 1 + vrn(r, 20), rl = 259 + vrn(r, 400); if (n + pl + rl > cap) { if (k) break; rl = cap > pl + 265 ? cap - pl - vrn(r, (uint32_t) (cap - pl - 264)) : cap - pl; } for (size_t i = 0; i < pl; i++) b[n++] = (uint8_t) ('a' + vrn(r, 26)); memset(b + n, vrn(r, 3) ? 'Q' + (int) vrn(r, 3) : (int) vrn(r, 256), rl); n += rl; } } break;
	default: { /* cross-flush redundancy: the same phrases over and over */
		n = vrn(r, (uint32_t) (cap > 60000 ? 60000 : cap)); size_t pl = 1024 + vrn(r, 7000); static uint8_t ph[8200]; vr_fill(r, ph, pl); if (vrn(r, 2)) markov(r, ph, pl);
		for (size_t o = 0; o < n; o += pl) memcpy(b + o, ph, n - o < pl ? n - o : pl);
		for (int k = 0; k < 4 && n; k++) b[vrn(r, (uint32_t) n)] ^= 1;
		} break;
	}
	return n;
}
static int adler_c1;
static const int ICH[] = { 0, 1, 2, 3, 7, 8, 9, 15, 16, 17, 31, 32, 33, 255, 256, 257, 288, 289, 32767, 32768, 32769, 65535, 65536, 1 << 30 };
static const int OCH[] = { 1, 2, 3, 7, 8, 9, 15, 16, 17, 64, 223, 224, 225, 327, 328, 329, 1 << 30 };
#define NICH ((int) (sizeof ICH / sizeof ICH[0]))
#define NOCH ((int) (sizeof OCH / sizeof OCH[0]))
/* size of the next chunk for a "kind": <N: constant ICH[kind]; N: random small; N+1: random any; N+2: 1..7; N+3: alternating 1/300; N+4: geometric */
static int adler_c1, big_c1; static long st_adler_edge[4];
static size_t chunk_size(vrng *r, const int *tab, int ntab, int kind, long callno)
{
	if (kind == 99) return callno <= 1 ? (size_t) adler_c1 : 1u << 30;
	if (kind == 98) return callno <= 1 ? (size_t) big_c1 : 150000 + vrn(r, 300000);   /* small first chunk, then chunks of several hundred KB */   /* Adler saturation schedule, see gen_case */
	if (kind < ntab) return tab[kind];
	switch (kind - ntab) {
	case 0: return vrn(r, 20);
	case 1: return vrn(r, 3) ? vrn(r, 600) : vrn(r, 70000);
	case 2: return 1 + vrn(r, 7);
	case 3: return callno & 1 ? 300 : 1;
	default: { size_t v = 1; for (long k = 0; k < callno % 18; k++) v *= 2; return v; }
	}
}
static size_t lvl_size(int level, int kind, vrng *r)
{
	static const size_t mn[4] = { ISAL_DEF_LVL0_MIN, ISAL_DEF_LVL1_MIN, ISAL_DEF_LVL2_MIN, ISAL_DEF_LVL3_MIN }, sm[4] = { ISAL_DEF_LVL0_SMALL, ISAL_DEF_LVL1_SMALL, ISAL_DEF_LVL2_SMALL, ISAL_DEF_LVL3_SMALL },
		df[4] = { ISAL_DEF_LVL0_DEFAULT, ISAL_DEF_LVL1_DEFAULT, ISAL_DEF_LVL2_DEFAULT, ISAL_DEF_LVL3_DEFAULT }, xl[4] = { ISAL_DEF_LVL0_EXTRA_LARGE, ISAL_DEF_LVL1_EXTRA_LARGE, ISAL_DEF_LVL2_EXTRA_LARGE, ISAL_DEF_LVL3_EXTRA_LARGE };
	switch (kind) { case 0: return mn[level]; case 1: return sm[level]; case 2: return df[level]; case 3: return xl[level]; default: return mn[level] + 13 + vrn(r, 5000); }
}
static const char *wrapname(int w) { static const char *n[] = { "raw", "gzip", "gzip-nohdr", "zlib", "zlib-nohdr" }; return n[w]; }
static size_t onebound(size_t n, int wrapper)
{
	size_t b = n + 5 * (n ? (n + 65534) / 65535 : 1);
	if (wrapper == IGZIP_GZIP) b += 18; else if (wrapper == IGZIP_GZIP_NO_HDR) b += 8; else if (wrapper == IGZIP_ZLIB) b += 6; else if (wrapper == IGZIP_ZLIB_NO_HDR) b += 4;
	return b;
}
static void describe(long idx, const ccase *c, const char *lvl)
{
	v_setcase(idx, "cpu=%s build=%s level=%d wrapper=%s hist_bits=%d table=%d lvlbuf=%d n=%zu infam=%d %s disc=%d ikind=%d okind=%d fkind=%d eospol=%d freshout=%d chunkmem=%d dict=%zu/%d os_flush=%d os_eos=%d os_avail_out=%zu",
		  lvl, V_BUILD_TAG, c->level, wrapname(c->wrapper), c->hist_bits, c->table, c->lvlkind, c->n, c->infam, c->oneshot ? "one-shot" : "streaming", c->discipline, c->ikind, c->okind, c->fkind, c->eospol, c->fresh_out, c->chunked_mem, c->dictlen, c->dictmode, c->os_flush, c->os_eos, c->os_avail_out);
}
static void evlog_text(char *b, size_t cap)
{
	size_t o = 0; int from = nev > 36 ? nev - 36 : 0;
	o += snprintf(b + o, cap - o, "calls=%d last:", nev);
	for (int i = from; i < nev && o + 60 < cap; i++) o += snprintf(b + o, cap - o, " [in%u out%u f%u e%u ->c%u p%u s%u>%u r%d]", ev[i].ain, ev[i].aout, ev[i].flush, ev[i].eos, ev[i].cons, ev[i].prod, ev[i].sb, ev[i].sa, ev[i].ret);
}
static void viol_ev(const char *key, const char *fmt, ...)
{
	char m[700], e[1700]; va_list ap; va_start(ap, fmt); vsnprintf(m, sizeof m, fmt, ap); va_end(ap); evlog_text(e, sizeof e); v_viol(key, "%s | %s", m, e);
}
static void fault_key(const char *what)
{
	v_describe_fault(); char key[200];
	snprintf(key, sizeof key, "fault:%s:%s:%s", v_fault_sym(), v_fault_slot(), v_fault.sig == SIGALRM ? "hang" : v_fault.sig == SIGILL ? "sigill" : v_fault.sig == SIGABRT ? "abort" : "access");
	viol_ev(key, "%s: %s", what, v_fault_txt);
}
/* context invariants between calls */
static int ctxinv(const struct isal_zstream *s, const char *when)
{
	const struct isal_zstate *st = &s->internal_state;
	if (!(monitors & M_CTX)) return 0;
	if ((unsigned) st->state > ZSTATE_TMP_END) { viol_ev("ctxinv:state-out-of-range", "%s: state=%d", when, st->state); return 1; }
	if (st->tmp_out_start > st->tmp_out_end || st->tmp_out_end > 16) { viol_ev("ctxinv:tmp_out", "%s: tmp_out_start=%u tmp_out_end=%u", when, st->tmp_out_start, st->tmp_out_end); return 1; }
	if (st->b_bytes_processed > st->b_bytes_valid || st->b_bytes_valid > sizeof st->buffer) { viol_ev("ctxinv:b_bytes", "%s: processed=%u valid=%u", when, st->b_bytes_processed, st->b_bytes_valid); return 1; }
	return 0;
}
/* decode the collected output with both oracles and compare with the input. returns 0 ok */
static int verify_stream(const ccase *c, const uint8_t *in, size_t n, const uint8_t *dict, size_t dictlen, rinf_t *ri, rwrap_t *rw, const char *what)
{
	int wrapper = c->wrapper == IGZIP_DEFLATE ? RW_RAW : (c->wrapper == IGZIP_GZIP || c->wrapper == IGZIP_GZIP_NO_HDR) ? RW_GZIP : RW_ZLIB;
	int has_hdr = c->wrapper == IGZIP_GZIP || c->wrapper == IGZIP_ZLIB;
	char key[160];
	int e = rwrap_decode(rw, ri, wrapper, has_hdr, cout, coutlen, dec, n + 1024, dict, dictlen);
	if (e) { snprintf(key, sizeof key, "not-decodable:%s:%s", what, e == RWE_BODY ? ri_errname(ri->err) : e == RWE_CRC || e == RWE_ISIZE || e == RWE_ADLER ? "trailer" : e == RWE_SHORT ? "short" : "header"); viol_ev(key, "reference decoder rejects the stream: wrapper error %d, deflate error %s at bit %zu, produced %zu of %zu bytes, stream length %zu", e, ri_errname(ri->err), ri->bitpos, ri->outlen, n, coutlen); return 1; }
	if (ri->outlen != n || memcmp(dec, in, n)) { size_t x = 0; while (x < n && x < ri->outlen && dec[x] == in[x]) x++; snprintf(key, sizeof key, "wrong-bytes:%s", what); viol_ev(key, "decodes to %zu bytes (input %zu), first difference at %zu", ri->outlen, n, x); return 1; }
	if (rw->total_len != coutlen) { snprintf(key, sizeof key, "trailing-bytes:%s", what); viol_ev(key, "stream ends at byte %zu but %zu bytes were produced", rw->total_len, coutlen); return 1; }
	/* zlib as a second, stricter opinion (skipped with a dictionary on wrapped streams: ISA-L does not announce FDICT) */
	if (!dictlen || wrapper == RW_RAW) {
		z_stream z; memset(&z, 0, sizeof z);
		int wb = wrapper == RW_RAW || !has_hdr ? -15 : wrapper == RW_GZIP ? 31 : 15;
		if (inflateInit2(&z, wb) != Z_OK) v_harness_fail("zlib init");
		if (dictlen) inflateSetDictionary(&z, dict, (uInt) dictlen);
		z.next_in = cout; z.avail_in = (uInt) coutlen; z.next_out = dec2; z.avail_out = (uInt) (n + 1024);
		int zr = inflate(&z, Z_FINISH); size_t tail = z.avail_in, zo = z.total_out; inflateEnd(&z);
		size_t want_tail = has_hdr || wrapper == RW_RAW ? 0 : wrapper == RW_GZIP ? 8 : 4;
		if (zr != Z_STREAM_END || zo != n || memcmp(dec2, in, n) || tail != want_tail) { snprintf(key, sizeof key, "zlib-rejects:%s", what); viol_ev(key, "zlib inflate: ret=%d out=%zu (want %zu) unread=%zu (want %zu)", zr, zo, n, tail, want_tail); return 1; }
	}
	if (monitors & M_WINDOW) {
		uint32_t w = c->hist_bits >= 9 && c->hist_bits <= 15 ? 1u << c->hist_bits : 32768; if (w > IGZIP_HIST_SIZE) w = IGZIP_HIST_SIZE;
		if (ri->maxdist > w) { snprintf(key, sizeof key, "window-exceeded:level%d", c->level); viol_ev(key, "match distance %u exceeds the window %u (hist_bits=%d)", ri->maxdist, w, c->hist_bits); return 1; }
		if (c->wrapper == IGZIP_ZLIB && c->hist_bits >= 9 && (rw->cmf >> 4) + 8 < c->hist_bits) { viol_ev("zlib-cinfo-too-small", "CINFO=%d announces a window smaller than hist_bits=%d", rw->cmf >> 4, c->hist_bits); return 1; }
		if (c->wrapper == IGZIP_ZLIB && ri->maxdist > (1u << ((rw->cmf >> 4) + 8))) { viol_ev("zlib-cinfo-too-small", "CINFO=%d but a match has distance %u", rw->cmf >> 4, ri->maxdist); return 1; }
	}
	if (ri->nstored && c->level <= 3 && c->oneshot) st_stored_fallback++;
	if (ri->nblocks > 1 && c->level > 0) st_multiblock++;
	return 0;
}
static size_t hdr_len_of(int wrapper) { return wrapper == IGZIP_GZIP ? 10 : wrapper == IGZIP_ZLIB ? 2 : 0; }
/* flush point obligations: called right after a call that completed a SYNC/FULL flush */
static void check_flushpoint(const ccase *c, const uint8_t *in, size_t fed, int full, const uint8_t *dict, size_t dictlen, int deep)
{
	n_flushpts++; if (full) n_fullpts++;
	if (coutlen < 4 || memcmp(cout + coutlen - 4, "\x00\x00\xff\xff", 4)) { viol_ev("flushpoint:no-marker", "output so far (%zu bytes) does not end with 00 00 FF FF", coutlen); return; }
	if (nfps < 64) { fps[nfps].outpos = coutlen; fps[nfps].inpos = fed; fps[nfps].full = full; nfps++; }
	if (!deep) return;
	size_t h = hdr_len_of(c->wrapper); rinf_t ri; memset(&ri, 0, sizeof ri);
	ri.in = cout + h; ri.inlen = coutlen - h; ri.out = dec; ri.outcap = fed + 1024; ri.prefix_mode = 1; ri.dict = dict; ri.dictlen = dictlen;
	int rc = rinflate(&ri);
	if (rc != 1 || ri.outlen != fed || memcmp(dec, in, fed)) { char bl[400]; size_t o = 0; for (long b = ri.nblocks > 6 ? ri.nblocks - 6 : 0; b < ri.nblocks && b < RI_MAXBLOCKS; b++) o += snprintf(bl + o, sizeof bl - o, " {type%d final%d bits %zu..%zu out@%zu}", ri.blk[b].type, ri.blk[b].final, ri.blk[b].bit_start, ri.blk[b].bit_end, ri.blk[b].out_start);
		viol_ev("flushpoint:prefix-not-decodable", "prefix of %zu bytes: reference rc=%d err=%s delivers %zu of the %zu bytes fed so far; end bit %zu; last blocks:%s", coutlen, rc, ri_errname(ri.err), ri.outlen, fed, ri.end_bit, bl); }
}
/* after the stream is complete: every completed FULL flush point starts an independently decodable remainder */
static void check_independence(const ccase *c, const uint8_t *in, size_t n, size_t body_end)
{
	for (int i = 0; i < nfps; i++) {
		if (!fps[i].full || fps[i].outpos >= body_end) continue;
		rinf_t ri; memset(&ri, 0, sizeof ri); ri.in = cout + fps[i].outpos; ri.inlen = body_end - fps[i].outpos; ri.out = dec; ri.outcap = n + 1024;
		int rc = rinflate(&ri); size_t rest = n - fps[i].inpos;
		if (rc != 0 || ri.outlen != rest || memcmp(dec, in + fps[i].inpos, rest)) { viol_ev("fullflush:suffix-not-independent", "remainder from the full-flush point at output %zu (input %zu) does not decode on its own: rc=%d err=%s got %zu want %zu bytes", fps[i].outpos, fps[i].inpos, rc, ri_errname(ri.err), ri.outlen, rest); return; }
		if (rest >= 1024) n_fullpts_with_match_data++;
	}
}

/* ------------------------------------------------------------------ one streaming history */
static int setup_stream(struct isal_zstream *s, const ccase *c, vrng *r, struct isal_hufftables *ht, uint8_t *lvlbuf, size_t lvlsz)
{
	s->level = c->level; s->gzip_flag = c->wrapper; s->hist_bits = c->hist_bits;
	s->level_buf = c->level ? lvlbuf : NULL; s->level_buf_size = c->level ? (uint32_t) lvlsz : 0;
	if (c->table == 1) { if (isal_deflate_set_hufftables(s, NULL, IGZIP_HUFFTABLE_STATIC) != COMP_OK) { viol_ev("set_hufftables-refused", "static table refused on a fresh stream"); return 1; } }
	else if (c->table == 2) {
		static struct isal_huff_histogram hg; memset(&hg, 0, sizeof hg);
		if (vrn(r, 2)) isal_update_histogram(inbuf, (int) (c->n > 100000 ? 100000 : c->n), &hg); else { static uint8_t tmp[4096]; markov(r, tmp, sizeof tmp); isal_update_histogram(tmp, sizeof tmp, &hg); }
		if (isal_create_hufftables(ht, &hg)) { viol_ev("create_hufftables-failed", "table creation failed"); return 1; }
		if (isal_deflate_set_hufftables(s, ht, IGZIP_HUFFTABLE_CUSTOM) != COMP_OK) { viol_ev("set_hufftables-refused", "custom table refused on a fresh stream"); return 1; }
	}
	return 0;
}
static void run_streaming(long idx, const ccase *c, vrng *r, const char *lvl)
{
	size_t n = c->n; struct isal_zstream *s = (struct isal_zstream *) gs_place(s_ctx, sizeof *s, vrn(r, 2) ? G_START : G_NEAR_END, 0);
	size_t lvlsz = lvl_size(c->level, c->lvlkind, r); uint8_t *lvlbuf = gs_place(s_lvl, (lvlsz + 63) & ~63ul, vrn(r, 2) ? G_START : G_END, 0);
	struct isal_hufftables *ht = (struct isal_hufftables *) gs_place(s_huff, (sizeof *ht + 15) & ~15ul, G_END, 0);
	vr_fill(r, s, sizeof *s); vr_fill(r, lvlbuf, lvlsz < 4096 ? lvlsz : 4096);      /* garbage prefill: results must not depend on it */
	nev = 0; nfps = 0; coutlen = 0;
	const uint8_t *dict = NULL; size_t dictlen = 0;
	if (!c->chunked_mem) { uint8_t *p = gs_place(s_in, n, vrn(r, 2) ? G_END : G_START, 0); memcpy(p, inbuf, n); }
	if (V_TRY(30)) {
		isal_deflate_init(s);
		if (setup_stream(s, c, r, ht, lvlbuf, lvlsz)) { V_END; goto out; }
		int late_hist_bits = c->dictmode && c->hist_bits && vrn(r, 3) == 0;   /* the window size is a plain user field: it may be filled in after the dictionary calls, before the first isal_deflate() */
		if (late_hist_bits) { s->hist_bits = 0; st_late_hb++; }
		if (c->dictmode) {
			dict = dictbuf; dictlen = c->dictlen; uint8_t *dd = gs_place(s_dict, dictlen, G_END, 0); memcpy(dd, dictbuf, dictlen);
			int rc;
			if (c->dictmode == 1) rc = isal_deflate_set_dict(s, dd, (uint32_t) dictlen);
			else { struct isal_dict *ds = (struct isal_dict *) gs_place(s_dictst, (sizeof *ds + 15) & ~15ul, G_END, 0); memset(ds, 0, sizeof *ds); rc = isal_deflate_process_dict(s, ds, dd, (uint32_t) dictlen); if (!rc) rc = isal_deflate_reset_dict(s, ds); }
			if (rc != COMP_OK) { viol_ev("dict-refused", "dictionary call returned %d on a fresh stream", rc); V_END; goto out; }
			if (dictlen > IGZIP_HIST_SIZE) { dict = dictbuf + dictlen - IGZIP_HIST_SIZE; dictlen = IGZIP_HIST_SIZE; }
		}
		if (late_hist_bits) s->hist_bits = (uint16_t) c->hist_bits;
		V_END;
	} else { fault_key("init/setup"); goto out; }
	size_t fed = 0 /* bytes handed over and consumed */, given = 0 /* bytes handed over */; int eos_set = 0, eos_delay = c->eospol == 0 ? 0 : c->eospol == 1 ? 1 : 1 + (int) vrn(r, 4);
	gslot *icur = NULL, *ocur = NULL; int irot = 0, orot = 0; uint8_t *ochunk = NULL; size_t ocap = 0;
	long calls = 0, idle = 0, bound = 20000 + 600 * (long) n;   /* every flush may cost a ~330-byte header drained one byte per call */
	s->avail_in = 0; s->avail_out = 0; s->next_in = NULL; s->next_out = NULL;
	int drain_mode = 0, deep_budget = 6, empty_flush_budget = 3, force_empty = 0, force_type = 0, forced = 0; size_t flushed_upto = 0;
	for (;;) {
		if (++calls > bound) { viol_ev("no-termination", "stream not finished after %ld calls (bound %ld) with all input supplied=%d", calls, bound, given == n); goto out; }
		/* ---- input */
		int may_refill = c->discipline == 0 ? 1 : c->discipline == 1 ? !drain_mode : (int) vrn(r, 2);
		if (force_empty) may_refill = 0;   /* a flush request that brings no input, right after a completed flush */
		if (s->avail_in == 0 && given < n && may_refill) {
			size_t want = chunk_size(r, ICH, NICH, c->ikind, calls); if (c->ikind == 0 && (calls & 1)) want = 1 + vrn(r, 700);   /* kind 0: zero-length calls interleaved */
			if (want > n - given) want = n - given; if (want > ICHMAX - 64) want = ICHMAX - 64;
			if (c->chunked_mem) {
				if (icur) { gs_reset(icur); gs_release(icur); }
				icur = s_ic[irot++ % NCH]; if (icur->released) gs_reacquire(icur);
				uint8_t *p = gs_place(icur, want, c->ikind == 98 ? (vrn(r, 4) ? G_START : G_END) : vrn(r, 3) ? G_END : G_START, 0); memcpy(p, inbuf + given, want); s->next_in = p;
			} else s->next_in = s_in->cur + given;
			s->avail_in = (uint32_t) want; given += want;
		}
		if (given == n && !eos_set) { if (eos_delay == 0) { s->end_of_stream = 1; eos_set = 1; } else if (s->avail_in == 0) eos_delay--; }
		/* ---- flush request */
		int fl;
		switch (c->fkind) { case 0: fl = NO_FLUSH; break; case 1: fl = SYNC_FLUSH; break; case 2: fl = FULL_FLUSH; break; case 3: fl = vrn(r, 8) == 0 ? SYNC_FLUSH : NO_FLUSH; break; case 4: fl = vrn(r, 8) == 0 ? FULL_FLUSH : NO_FLUSH; break; default: fl = (int) vrn(r, 3); }
		/* a flush request with nothing to flush (no input this call, previous block complete) just emits another empty block:
		 * legal, but with starved output it never ends, so the driver asks for it only occasionally */
		if (fl != NO_FLUSH && s->avail_in == 0 && fed == flushed_upto) { if (empty_flush_budget > 0 && vrn(r, 8) == 0) empty_flush_budget--; else fl = NO_FLUSH; }
		if (force_empty) { if (s->avail_in == 0) { fl = force_type; st_forced_empty++; } force_empty = 0; }
		s->flush = (uint16_t) fl;
		/* ---- output */
		if (s->avail_out == 0 || (c->fresh_out && vrn(r, 3) == 0)) {
			size_t want = chunk_size(r, OCH, NOCH, c->okind, calls); if (want > CHMAX - 64) want = CHMAX - 64; if (want == 0) want = 1;
			if (c->chunked_mem || 1) {
				if (ocur) { gs_reset(ocur); if (c->chunked_mem) gs_release(ocur); }
				ocur = s_oc[orot++ % NCH]; if (ocur->released) gs_reacquire(ocur);
				ochunk = gs_place(ocur, want, vrn(r, 3) ? G_END : G_START, 0); ocap = want;
			}
			s->next_out = ochunk; s->avail_out = (uint32_t) ocap;
		}
		/* ---- call */
		uint32_t ain = s->avail_in, aout = s->avail_out, tin = s->total_in, tout = s->total_out; uint8_t *nin = s->next_in, *nout = s->next_out; int sb = s->internal_state.state;
		struct { uint32_t level, lbs; uint8_t *lb; struct isal_hufftables *h; uint16_t gz, fl, eos; } keep = { s->level, s->level_buf_size, s->level_buf, s->hufftables, s->gzip_flag, s->flush, s->end_of_stream };
		int ret;
		if (V_TRY(60)) { ret = isal_deflate(s); V_END; } else { fault_key("isal_deflate"); goto out; }
		st_calls++;
		uint32_t cons = ain - s->avail_in, prod = aout - s->avail_out; int sa = s->internal_state.state;
		if (nev < MAXEV) { ev[nev].ain = ain; ev[nev].aout = aout; ev[nev].cons = cons; ev[nev].prod = prod; ev[nev].flush = (uint16_t) fl; ev[nev].eos = s->end_of_stream; ev[nev].sb = (uint8_t) sb; ev[nev].sa = (uint8_t) sa; ev[nev].ret = (int8_t) ret; nev++; }
		if (sb < 24 && sa < 24) st_pairs[sb][sa]++;
		if (sb >= ZSTATE_TMP_NEW_HDR && sb < 32) st_tmp_resume[sb]++;
		if (ret != COMP_OK) { viol_ev("deflate-error-return", "isal_deflate returned %d with valid parameters", ret); goto out; }
		if (s->avail_in > ain || s->avail_out > aout || s->next_in != nin + cons || s->next_out != nout + prod || s->total_in != tin + cons || s->total_out != tout + prod) { viol_ev("counters-inconsistent", "next/avail/total deltas disagree: cons=%u prod=%u dnext_in=%ld dnext_out=%ld dtotal_in=%u dtotal_out=%u", cons, prod, (long) (s->next_in - nin), (long) (s->next_out - nout), s->total_in - tin, s->total_out - tout); goto out; }
		if (keep.level != s->level || keep.lbs != s->level_buf_size || keep.lb != s->level_buf || keep.h != s->hufftables || (keep.gz != s->gzip_flag && !(keep.gz == IGZIP_GZIP && s->gzip_flag == IGZIP_GZIP_NO_HDR) && !(keep.gz == IGZIP_ZLIB && s->gzip_flag == IGZIP_ZLIB_NO_HDR)) || keep.fl != s->flush || keep.eos != s->end_of_stream) { viol_ev("ctxinv:caller-fields-changed", "a caller-owned field was modified by isal_deflate: level %u>%u level_buf_size %u>%u level_buf %p>%p hufftables %p>%p gzip_flag %u>%u flush %u>%u end_of_stream %u>%u", keep.level, s->level, keep.lbs, s->level_buf_size, (void *) keep.lb, (void *) s->level_buf, (void *) keep.h, (void *) s->hufftables, keep.gz, s->gzip_flag, keep.fl, s->flush, keep.eos, s->end_of_stream); goto out; }
		if (ctxinv(s, "after isal_deflate")) goto out;
		{ long d = gs_check(ocur, 4096); if (d != GS_OK) { viol_ev("oob-write:next_out", "canary damaged at output chunk%+ld (chunk %zu bytes, avail_out was %u)", d, ocap, aout); gs_repaint_all(ocur); goto out; } }
		if (coutlen + prod > MAXOUT) { viol_ev("output-explosion", "more than %u bytes produced for %zu input bytes", MAXOUT, n); goto out; }
		memcpy(cout + coutlen, nout, prod); coutlen += prod; fed += cons;
		if (c->chunked_mem && icur && s->avail_in == 0 && !icur->released) { gs_reset(icur); gs_release(icur); }      /* consumed input disappears */
		drain_mode = s->avail_out == 0 && s->internal_state.state != ZSTATE_NEW_HDR;
		if (fl != NO_FLUSH && s->avail_in == 0 && fed == given && (sa == ZSTATE_NEW_HDR || sa == ZSTATE_TMP_NEW_HDR)) flushed_upto = fed;   /* the flush block for everything fed so far has been generated */
		/* progress */
		if (cons == 0 && prod == 0 && sa == sb) {
			int pending = s->avail_in > 0 || (eos_set && sa != ZSTATE_END);
			if (pending && aout > 0) { if (++idle > 3) { viol_ev("livelock", "4 consecutive calls with input/finish pending and output space available made no progress"); goto out; } }
		} else idle = 0;
		/* flush point */
		if ((monitors & M_FLUSHPT) && (fl == SYNC_FLUSH || fl == FULL_FLUSH) && s->avail_in == 0 && s->avail_out > 0 && fed == given && sa != ZSTATE_END && !eos_set) {
			if (sa != ZSTATE_NEW_HDR) viol_ev("flushpoint:state", "flush call returned with input consumed and output space left but state=%d", sa);
			else if (fed > 0 || coutlen > hdr_len_of(c->wrapper)) { int already = nfps && fps[nfps - 1].outpos == coutlen; if (!already) { check_flushpoint(c, inbuf, fed, fl == FULL_FLUSH, dict, dictlen, deep_budget > 0 && (deep_budget--, 1)); }
				else if (fl == FULL_FLUSH && !fps[nfps - 1].full) { fps[nfps - 1].full = 1; n_fullpts++; }   /* a FULL_FLUSH call completed here without adding output: the point is a full-flush point all the same */
				if (given < n && forced < 3 && c->fkind && vrn(r, 5) == 0) { force_empty = 1; forced++; force_type = vrn(r, 4) ? (fl == SYNC_FLUSH ? FULL_FLUSH : SYNC_FLUSH) : fl; } }
		}
		if (sa == ZSTATE_END) break;
	}
	st_streams++;
	if (fed != n || s->total_in != (uint32_t) n || s->total_out != (uint32_t) coutlen) { viol_ev("conservation", "consumed %zu of %zu, total_in=%u total_out=%u collected=%zu", fed, n, s->total_in, s->total_out, coutlen); goto out; }
	{
		static rinf_t ri; static rwrap_t rw;
		if (verify_stream(c, inbuf, n, dict, dictlen, &ri, &rw, "streaming")) goto out;
		if (monitors & M_FLUSHPT) check_independence(c, inbuf, n, rw.body_end);
		if (n > 65536) st_big++;
		uint64_t fp = v_hash64(cout, coutlen < 4096 ? coutlen : 4096, idx) ^ v_hash64(c, sizeof *c, 7);
		if (n > 0) v_distinct(fp);
		if (v_nsamples < 3 && n > 500 && nev > 3) { char e[900]; evlog_text(e, sizeof e); v_sample("%s -> %zu bytes in %d calls, %ld blocks, decodes to the input by reference and zlib; %d flush points checked | %s", v_case, coutlen, nev, ri.nblocks, nfps, e); }
	}
out:
	if (icur && icur->released) gs_reacquire(icur);
	for (int i = 0; i < NCH; i++) { if (s_ic[i]->released) gs_reacquire(s_ic[i]); if (s_oc[i]->released) gs_reacquire(s_oc[i]); gs_reset(s_ic[i]); gs_reset(s_oc[i]); }
	{ long d = gs_check(s_ctx, 4096); if (d != GS_OK) { viol_ev("oob-write:zstream", "canary next to the isal_zstream damaged at %+ld", d); gs_repaint_all(s_ctx); } }
	{ long d = gs_check(s_lvl, 4096); if (d != GS_OK) { viol_ev("oob-write:level_buf", "canary next to level_buf damaged at %+ld (level_buf_size %zu)", d, lvlsz); gs_repaint_all(s_lvl); } }
	if (!c->chunked_mem) { if (s_in->cur && memcmp(s_in->cur, inbuf, n)) viol_ev("source-modified", "input buffer changed by isal_deflate"); long d = gs_check(s_in, 4096); if (d != GS_OK) { viol_ev("oob-write:next_in", "canary next to the input damaged at %+ld", d); gs_repaint_all(s_in); } gs_reset(s_in); }
	gs_reset(s_ctx); gs_reset(s_lvl); gs_reset(s_huff); gs_reset(s_dict); gs_reset(s_dictst);
}

/* ------------------------------------------------------------------ one-shot */
static void run_oneshot(long idx, const ccase *c, vrng *r, const char *lvl)
{
	size_t n = c->n; struct isal_zstream *s = (struct isal_zstream *) gs_place(s_ctx, sizeof *s, vrn(r, 2) ? G_START : G_NEAR_END, 0);
	size_t lvlsz = lvl_size(c->level, c->lvlkind, r); uint8_t *lvlbuf = gs_place(s_lvl, (lvlsz + 63) & ~63ul, vrn(r, 2) ? G_START : G_END, 0);
	struct isal_hufftables *ht = (struct isal_hufftables *) gs_place(s_huff, (sizeof *ht + 15) & ~15ul, G_END, 0);
	vr_fill(r, s, sizeof *s); vr_fill(r, lvlbuf, lvlsz < 4096 ? lvlsz : 4096);
	size_t bound = onebound(n, c->wrapper), aout = c->os_avail_out ? c->os_avail_out - 1 : bound + 64 + vrn(r, 300);
	uint8_t *in = gs_place(s_in, n, vrn(r, 2) ? G_END : G_START, 0); memcpy(in, inbuf, n);
	uint8_t *out = gs_place(s_out, aout, vrn(r, 4) ? G_END : G_START, 0);
	nev = 0; nfps = 0; coutlen = 0; int ret = 0, nolvl = c->level == 1 && c->lvlkind == 9;
	if (V_TRY(60)) {
		isal_deflate_stateless_init(s);
		if (setup_stream(s, c, r, ht, lvlbuf, lvlsz)) { V_END; goto out; }
		if (nolvl) { s->level_buf = NULL; s->level_buf_size = 0; }        /* documented: level 1 falls back to the internal buffer */
		s->flush = (uint16_t) c->os_flush; s->end_of_stream = (uint16_t) c->os_eos;
		s->next_in = in; s->avail_in = (uint32_t) n; s->next_out = out; s->avail_out = (uint32_t) aout;
		ret = isal_deflate_stateless(s); V_END;
	} else { fault_key("isal_deflate_stateless"); goto out; }
	st_calls++;
	ev[0].ain = (uint32_t) n; ev[0].aout = (uint32_t) aout; ev[0].cons = (uint32_t) n - s->avail_in; ev[0].prod = (uint32_t) aout - s->avail_out; ev[0].flush = (uint16_t) c->os_flush; ev[0].eos = (uint16_t) c->os_eos; ev[0].sb = 0; ev[0].sa = (uint8_t) s->internal_state.state; ev[0].ret = (int8_t) ret; nev = 1;
	{ long d = gs_check(s_out, 4096); if (d != GS_OK) { viol_ev("oob-write:next_out", "canary damaged at output%+ld (avail_out %zu)", d, aout); gs_repaint_all(s_out); goto out; } }
	if (memcmp(in, inbuf, n)) { viol_ev("source-modified", "input buffer changed by the call"); goto out; }
	if (ret == COMP_OK) {
		size_t prod = aout - s->avail_out;
		if (s->next_out != out + prod || s->total_out != prod || s->avail_in != 0 || s->next_in != in + n || s->total_in != n) { viol_ev("counters-inconsistent", "one-shot success: prod=%zu next_out delta=%ld total_out=%u avail_in=%u total_in=%u", prod, (long) (s->next_out - out), s->total_out, s->avail_in, s->total_in); goto out; }
		if ((monitors & M_BOUND) && prod > bound) { viol_ev("exceeds-stored-bound", "produced %zu > bound %zu", prod, bound); goto out; }
		memcpy(cout, out, prod); coutlen = prod;
		int terminated = c->os_flush == NO_FLUSH || c->os_eos;
		if (terminated) {
			static rinf_t ri; static rwrap_t rw;
			if (verify_stream(c, inbuf, n, NULL, 0, &ri, &rw, "one-shot")) goto out;
		} else {
			/* FULL_FLUSH without end_of_stream: byte aligned, unterminated, appendable: wrapper header (if any) + complete blocks */
			size_t h = hdr_len_of(c->wrapper); rinf_t ri; memset(&ri, 0, sizeof ri); ri.in = cout + h; ri.inlen = coutlen - h; ri.out = dec; ri.outcap = n + 1024; ri.prefix_mode = 1;
			int rc = rinflate(&ri);
			if (rc != 1 || ri.outlen != n || memcmp(dec, inbuf, n)) { viol_ev("oneshot-fullflush:not-appendable", "one-shot FULL_FLUSH output is not a byte-aligned unterminated prefix: rc=%d err=%s out=%zu/%zu", rc, ri_errname(ri.err), ri.outlen, n); goto out; }
		}
		st_streams++; if (n > 65536) st_big++;
		if (n > 0) v_distinct(v_hash64(cout, coutlen < 4096 ? coutlen : 4096, idx) ^ v_hash64(c, sizeof *c, 9));
		if (v_nsamples < 4 && n > 300) v_sample("%s -> COMP_OK, %zu bytes (bound %zu), decodes to the input by reference and zlib", v_case, coutlen, bound);
	} else if (ret == STATELESS_OVERFLOW) {
		if ((monitors & M_BOUND) && aout >= bound) { viol_ev("overflow-despite-bound", "STATELESS_OVERFLOW with avail_out=%zu >= bound %zu", aout, bound); goto out; }
		if (!(monitors & M_BOUND) && aout >= bound) { viol_ev("overflow-with-generous-output", "STATELESS_OVERFLOW with avail_out=%zu (bound %zu)", aout, bound); goto out; }
		v_count("oneshot", "overflow_reported", 1);
	} else { viol_ev("deflate-error-return", "isal_deflate_stateless returned %d with valid parameters", ret); goto out; }
out:
	{ long d = gs_check(s_ctx, 4096); if (d != GS_OK) { viol_ev("oob-write:zstream", "canary next to the isal_zstream damaged at %+ld", d); gs_repaint_all(s_ctx); } }
	{ long d = gs_check(s_lvl, 4096); if (d != GS_OK) { viol_ev("oob-write:level_buf", "canary next to level_buf damaged at %+ld", d); gs_repaint_all(s_lvl); } }
	{ long d = gs_check(s_in, 4096); if (d != GS_OK) { viol_ev("oob-write:next_in", "canary next to the input damaged at %+ld", d); gs_repaint_all(s_in); } }
	gs_reset(s_ctx); gs_reset(s_lvl); gs_reset(s_huff); gs_reset(s_in); gs_reset(s_out);
}
/* one-shot chains: 2..6 FULL_FLUSH calls then a final NO_FLUSH call, concatenated */
static void run_chain(long idx, ccase *c, vrng *r, const char *lvl)
{
	size_t n = c->n; int parts = vrn(r, 4) ? 2 + vrn(r, 5) : 1 + vrn(r, 2), last_full = vrn(r, 3) == 0; size_t cut[8]; cut[0] = 0; for (int i = 1; i < parts; i++) cut[i] = vrn(r, (uint32_t) n + 1); cut[parts] = n;
	for (int i = 1; i < parts; i++) for (int j = i + 1; j < parts; j++) if (cut[j] < cut[i]) { size_t t = cut[i]; cut[i] = cut[j]; cut[j] = t; }
	size_t total = 0; nev = 0;
	struct isal_zstream *s = (struct isal_zstream *) gs_place(s_ctx, sizeof *s, G_START, 0);
	size_t lvlsz = lvl_size(c->level, c->lvlkind, r); uint8_t *lvlbuf = gs_place(s_lvl, (lvlsz + 63) & ~63ul, G_START, 0);
	struct isal_hufftables *ht = (struct isal_hufftables *) gs_place(s_huff, (sizeof *ht + 15) & ~15ul, G_END, 0);
	c->wrapper = IGZIP_DEFLATE;
	for (int p = 0; p < parts; p++) {
		size_t len = cut[p + 1] - cut[p], aout = onebound(len, 0) + 64; int lastp = p == parts - 1, ret = 0;
		uint8_t *in = gs_place(s_in, len, G_END, 0); memcpy(in, inbuf + cut[p], len); uint8_t *out = gs_place(s_out, aout, G_END, 0);
		if (V_TRY(60)) {
			isal_deflate_stateless_init(s); if (setup_stream(s, c, r, ht, lvlbuf, lvlsz)) { V_END; goto out; }
			s->flush = lastp && !last_full ? NO_FLUSH : FULL_FLUSH; s->end_of_stream = lastp;   /* the last piece may ask for FULL_FLUSH as well: end_of_stream still terminates the stream */ s->next_in = in; s->avail_in = (uint32_t) len; s->next_out = out; s->avail_out = (uint32_t) aout;
			ret = isal_deflate_stateless(s); V_END;
		} else { fault_key("isal_deflate_stateless(chain)"); goto out; }
		st_calls++;
		if (nev < MAXEV) { ev[nev].ain = (uint32_t) len; ev[nev].aout = (uint32_t) aout; ev[nev].cons = (uint32_t) len - s->avail_in; ev[nev].prod = (uint32_t) aout - s->avail_out; ev[nev].flush = s->flush; ev[nev].eos = s->end_of_stream; ev[nev].sb = 0; ev[nev].sa = (uint8_t) s->internal_state.state; ev[nev].ret = (int8_t) ret; nev++; }
		if (ret != COMP_OK) { viol_ev("deflate-error-return", "chain part %d returned %d", p, ret); goto out; }
		size_t prod = aout - s->avail_out; memcpy(cout + total, out, prod); total += prod;
		gs_reset(s_in); gs_reset(s_out);
	}
	coutlen = total;
	{ static rinf_t ri; static rwrap_t rw; c->oneshot = 1; if (!verify_stream(c, inbuf, n, NULL, 0, &ri, &rw, "oneshot-chain")) { st_streams++; if (n) v_distinct(v_hash64(cout, coutlen < 4096 ? coutlen : 4096, idx)); n_flushpts += parts - 1; n_fullpts += parts - 1; } }
out:
	gs_reset(s_ctx); gs_reset(s_lvl); gs_reset(s_huff); gs_reset(s_in); gs_reset(s_out);
}
/* invalid parameters must be refused with an error code before any output is produced */
static void run_invalid(long idx, vrng *r)
{
	static uint8_t out_snap[8192];
	struct isal_zstream *s = (struct isal_zstream *) gs_place(s_ctx, sizeof *s, G_START, 0);
	size_t n = 100 + vrn(r, 3000); markov(r, inbuf, n); uint8_t *in = gs_place(s_in, n, G_END, 0); memcpy(in, inbuf, n); uint8_t *out = gs_place(s_out, 8192, G_END, 0); memset(out, 0xA7, 8192);
	int kind = vrn(r, 7), streaming = vrn(r, 2), level = 1 + vrn(r, 3), ret = 0, expect_ok = 0, midstream = streaming && vrn(r, 2); uint32_t pre_out = 0, pre_avail = 8192; uint8_t *pre_next = out; size_t mins[4] = { 0, ISAL_DEF_LVL1_MIN, ISAL_DEF_LVL2_MIN, ISAL_DEF_LVL3_MIN };
	uint8_t *lvlbuf = gs_place(s_lvl, ISAL_DEF_LVL3_DEFAULT, G_START, 0);
	nev = 0;
	if (V_TRY(30)) {
		if (streaming) isal_deflate_init(s); else isal_deflate_stateless_init(s);
		s->level = level; s->level_buf = lvlbuf; s->level_buf_size = (uint32_t) mins[level]; s->end_of_stream = 1; s->flush = NO_FLUSH;
		if (midstream) { /* a valid first call (the stream is under way, its level buffer in use), then the parameters go bad */
			s->end_of_stream = 0; s->flush = vrn(r, 2) ? NO_FLUSH : SYNC_FLUSH; s->next_in = in; s->avail_in = (uint32_t) (n / 2); s->next_out = out; s->avail_out = 4096;
			int r0 = isal_deflate(s); if (r0 != COMP_OK) { V_END; viol_ev("deflate-error-return", "valid first call returned %d", r0); goto out; }
			pre_out = s->total_out; pre_avail = s->avail_out; pre_next = s->next_out; memcpy(out_snap, out, 8192); s->end_of_stream = 1; s->flush = NO_FLUSH; }
		switch (kind) {
		case 0: s->level = 4 + vrn(r, 2); break;
		case 1: s->level = vrn(r, 2) ? 0xFFFFFFFFu : 4 + vrn(r, 1000000); break;
		case 2: s->flush = 3 + vrn(r, 5); if (!streaming && 0) { } break;
		case 3: s->flush = 0xFFFF; break;
		case 4: s->level_buf = NULL; s->level_buf_size = 0; if (!streaming && level == 1) expect_ok = 1; break;
		case 5: s->level_buf_size = (uint32_t) mins[level] - 1; break;
		default: s->level_buf_size = vrn(r, 2); break;
		}
		v_setcase(idx, "invalid-parameter kind=%d %s level=%u flush=%u level_buf=%s level_buf_size=%u", kind, midstream ? "streaming, second call" : streaming ? "streaming" : "one-shot", s->level, s->flush, s->level_buf ? "set" : "NULL", s->level_buf_size);
		if (midstream) { s->next_in = in + n / 2; s->avail_in = (uint32_t) (n - n / 2); } else { s->next_in = in; s->avail_in = (uint32_t) n; s->next_out = out; s->avail_out = 8192; }
		ret = streaming ? isal_deflate(s) : isal_deflate_stateless(s); V_END;
	} else { fault_key("invalid parameter"); goto out; }
	st_calls++;
	char k[40]; snprintf(k, sizeof k, "kind%d%s", kind, midstream ? "-midstream" : ""); v_count("invalid_params", k, 1);
	if (expect_ok) { if (ret != COMP_OK) viol_ev("level1-null-buffer-fallback-refused", "one-shot level 1 with NULL level_buf returned %d (documented to use the internal buffer)", ret); goto out; }
	if (ret >= 0) { viol_ev("invalid-parameter-accepted", "returned %d", ret); goto out; }
	if (ret != INVALID_FLUSH && ret != ISAL_INVALID_LEVEL && ret != ISAL_INVALID_LEVEL_BUF && ret != INVALID_PARAM) { viol_ev("undocumented-error-code", "returned %d", ret); goto out; }
	if (s->total_out != pre_out || s->avail_out != pre_avail || s->next_out != pre_next) { viol_ev("output-before-error", "error %d but total_out=%u avail_out=%u", ret, s->total_out, s->avail_out); goto out; }
	for (int i = (int) (pre_next - out); i < 8192; i++) if (out[i] != (midstream ? out_snap[i] : 0xA7)) { viol_ev("output-before-error", "error %d but output byte %d was written", ret, i); break; }   /* (a successful earlier call may have used the whole space it was given as scratch) */
out:
	gs_reset(s_ctx); gs_reset(s_lvl); gs_reset(s_in); gs_reset(s_out);
}
/* dictionary calls in a wrong state are refused and leave the stream untouched; set_dict == process+reset; long dict == its tail */
static void run_dict_extras(long idx, vrng *r)
{
	struct isal_zstream *s = (struct isal_zstream *) gs_place(s_ctx, sizeof *s, G_START, 0); static struct isal_zstream snap;
	int level = vrn(r, 4); size_t lvlsz = lvl_size(level, 2, r); uint8_t *lvlbuf = gs_place(s_lvl, (lvlsz + 63) & ~63ul, G_START, 0);
	size_t n = 2000 + vrn(r, 20000), dl = 1 + vrn(r, 5000); markov(r, inbuf, n); markov(r, dictbuf, dl);
	uint8_t *in = gs_place(s_in, n, G_END, 0); memcpy(in, inbuf, n); uint8_t *out = gs_place(s_out, 64, G_END, 0); uint8_t *dd = gs_place(s_dict, dl, G_END, 0); memcpy(dd, dictbuf, dl);
	struct isal_dict *ds = (struct isal_dict *) gs_place(s_dictst, (sizeof *ds + 15) & ~15ul, G_END, 0);
	int which = vrn(r, 5), rc = 0; nev = 0;
	v_setcase(idx, "dictionary call in a wrong state: level=%d which=%d n=%zu dict=%zu", level, which, n, dl);
	if (V_TRY(30)) {
		isal_deflate_init(s); s->level = level; s->level_buf = level ? lvlbuf : NULL; s->level_buf_size = (uint32_t) (level ? lvlsz : 0);
		memset(ds, 0, sizeof *ds);
		if (which == 2) { /* level changed between process and reset */
			rc = isal_deflate_process_dict(s, ds, dd, (uint32_t) dl); if (rc) { viol_ev("dict-refused", "process_dict returned %d on a fresh stream", rc); V_END; goto out; }
			int nl = (level + 1 + vrn(r, 3)) % 4; s->level = nl; size_t l2 = lvl_size(nl, 2, r); s->level_buf = nl ? lvlbuf : NULL; s->level_buf_size = (uint32_t) (nl ? l2 : 0);
			memcpy(&snap, s, sizeof snap); rc = isal_deflate_reset_dict(s, ds);
		} else if (which >= 3) { /* the stream has taken input that is so far only buffered: no block is open yet (ZSTATE_NEW_HDR), but the stream has begun */
			int pre = vrn(r, 3); if (pre == 1) { isal_deflate_set_dict(s, dd, (uint32_t) dl); } else if (pre == 2) { s->next_in = in; s->avail_in = (uint32_t) (1 + vrn(r, 1900)); s->next_out = out; s->avail_out = 64; s->end_of_stream = 0; s->flush = SYNC_FLUSH; uint8_t *o2 = gs_place(s_out, 60000, G_END, 0); s->next_out = o2; s->avail_out = 60000; isal_deflate(s); }
			s->next_in = n > 4000 ? in + 3000 : in; s->avail_in = (uint32_t) (1 + vrn(r, 300)); if (pre != 2) { s->next_out = out; s->avail_out = 64; } s->end_of_stream = 0; s->flush = NO_FLUSH;
			isal_deflate(s);
			if (which == 4) isal_deflate_process_dict(s, ds, dd, (uint32_t) dl), ds->level = level;
			memcpy(&snap, s, sizeof snap);
			rc = which == 3 ? isal_deflate_set_dict(s, dd, (uint32_t) dl) : isal_deflate_reset_dict(s, ds);
		} else {
			s->next_in = in; s->avail_in = (uint32_t) n; s->next_out = out; s->avail_out = 64; s->end_of_stream = 0; s->flush = NO_FLUSH;
			isal_deflate(s);                       /* stream is now mid-block with output pending */
			if (which == 1) isal_deflate_process_dict(s, ds, dd, (uint32_t) dl), ds->level = level;
			memcpy(&snap, s, sizeof snap);
			rc = which == 0 ? isal_deflate_set_dict(s, dd, (uint32_t) dl) : isal_deflate_reset_dict(s, ds);
		}
		V_END;
	} else { fault_key("dictionary call"); goto out; }
	st_calls++; v_count("dict_wrong_state", which == 0 ? "set_dict mid-stream" : which == 1 ? "reset_dict mid-stream" : which == 2 ? "reset_dict after level change" : which == 3 ? "set_dict with input buffered" : "reset_dict with input buffered", 1);
	if (rc == COMP_OK) viol_ev("dict-accepted-in-wrong-state", "call returned COMP_OK (which=%d state=%d)", which, snap.internal_state.state);
	else if (memcmp(&snap, s, sizeof snap)) viol_ev("dict-refusal-has-side-effects", "call returned %d but the stream struct changed", rc);
out:
	gs_reset(s_ctx); gs_reset(s_lvl); gs_reset(s_in); gs_reset(s_out); gs_reset(s_dict); gs_reset(s_dictst);
}

/* ------------------------------------------------------------------ case generators per property */
static void base_case(ccase *c, vrng *r)
{
	memset(c, 0, sizeof *c);
	c->level = vrn(r, 4); c->wrapper = vrn(r, 5); c->hist_bits = vrn(r, 3) ? 0 : 9 + vrn(r, 7); c->lvlkind = vrn(r, 5);
	c->table = c->level == 0 ? (int) vrn(r, 3) : 0; c->oneshot = vrn(r, 2);
	c->os_flush = vrn(r, 4) ? NO_FLUSH : FULL_FLUSH; c->os_eos = vrn(r, 2);
	c->discipline = vrn(r, 3); c->ikind = vrn(r, 2) ? NICH + 1 : (int) vrn(r, NICH + 2); c->okind = vrn(r, 2) ? NOCH + 1 : (int) vrn(r, NOCH + 2);
	c->fkind = vrn(r, 3) ? 0 : 1 + vrn(r, 5); c->eospol = vrn(r, 3); c->fresh_out = vrn(r, 2); c->chunked_mem = vrn(r, 2);
}
static void gen_case(long idx, vrng *r, ccase *c, const char *prop)
{
	base_case(c, r);
	size_t cap = vopt.thorough && vrn(r, 40) == 0 ? MAXIN : 262144;
	c->infam = vrn(r, 10); if (c->infam == 9 && vrn(r, 2) && strcmp(prop, "C10")) c->infam = 8;
	if (!strcmp(prop, "C07")) { c->oneshot = 0; c->fkind = vrn(r, 6); c->ikind = vrn(r, NICH + 2); c->okind = vrn(r, NOCH + 5); c->infam = vrn(r, 3) ? 1 + vrn(r, 8) : 8; if (vrn(r, 2)) cap = 20000; }
	if (!strcmp(prop, "C14")) { c->oneshot = 0; c->fkind = 1 + vrn(r, 5); c->infam = vrn(r, 4) ? 8 : 4; c->okind = vrn(r, 3) ? NOCH + 1 : (int) vrn(r, NOCH + 3); c->ikind = vrn(r, 2) ? 13 + vrn(r, 6) : NICH + 1; cap = 60000;
		if (vrn(r, 6) == 0) { /* flush points beyond 64 KiB (positions wrap in the 16-bit hash tables) with phrases recurring about one window earlier */
			c->infam = 5; c->hist_bits = 0; cap = 400000; c->ikind = 18 + (int) vrn(r, 5); c->fkind = vrn(r, 3) ? 2 : 5; c->okind = NOCH - 1; st_far_flush++; } }
	if (!strcmp(prop, "C17")) { c->hist_bits = vrn(r, 8) ? 9 + vrn(r, 7) : 0; c->infam = vrn(r, 3) ? 5 : 7; cap = 262144; if (vrn(r, 3) == 0) { c->oneshot = 0; } }
	if (!strcmp(prop, "C11")) { c->wrapper = 1 + vrn(r, 4); }
	int adler_sat = !strcmp(prop, "C11") && vrn(r, 8) == 0;
	if (!strcmp(prop, "C10")) { c->oneshot = vrn(r, 4) != 0; if (!c->oneshot) { c->okind = NOCH + 2 + vrn(r, 3); if (vrn(r, 3) == 0) c->okind = vrn(r, 3); c->ikind = NICH + 1; c->fkind = vrn(r, 3); c->eospol = vrn(r, 3); cap = 3000; } c->infam = vrn(r, 5) == 0 ? 0 : vrn(r, 3) == 0 ? 9 : vrn(r, 2) ? 3 : (int) vrn(r, 10); }
	c->n = gen_input(r, inbuf, c->infam, cap, c->hist_bits);
	if (!strcmp(prop, "C10") && c->oneshot) {
		size_t b = onebound(c->n, c->wrapper); int m = vrn(r, 10); if (c->n <= 2000 && vrn(r, 2)) m = 7;   /* small inputs: any output size below the bound */
		size_t a = m < 5 ? b + vrr(r, -9, 9) : m < 6 ? hdr_len_of(c->wrapper) + vrr(r, -1, 1) : m < 7 ? (size_t) (int[]){ 0, 1, 7, 8 }[vrn(r, 4)] : m < 9 ? vrn(r, (uint32_t) b + 17) : b + 16;
		if ((long) a < 0) a = 0;
		c->os_avail_out = a + 1; c->os_flush = vrn(r, 3) ? NO_FLUSH : FULL_FLUSH; c->os_eos = 1;
	}
	if (!strcmp(prop, "C11") && c->oneshot && !adler_sat && vrn(r, 3) == 0) {   /* output space around the stored-block bound of the wrapper: success must still mean a complete trailer */
		if (vrn(r, 3)) { c->infam = 9; c->n = gen_input(r, inbuf, c->infam, vrn(r, 2) ? 3000 : cap, c->hist_bits); }
		size_t b = onebound(c->n, c->wrapper); long a = (long) b + vrr(r, -9, 4); if (a < 0) a = 0;
		c->os_avail_out = (size_t) a + 1; c->os_flush = NO_FLUSH; c->os_eos = 1;
	}
	if ((!strcmp(prop, "C17") && vrn(r, 2)) || (!strcmp(prop, "C05") && !adler_sat && vrn(r, 5) == 0)) {   /* dictionary (C05: the dictionary bytes end at an inaccessible page) */
		c->dictmode = 1 + vrn(r, 2); c->dictlen = vrn(r, 3) == 0 ? 1 + vrn(r, 300) : 1 + vrn(r, 70000); c->oneshot = 0; c->wrapper = vrn(r, 3) ? IGZIP_DEFLATE : (int) vrn(r, 5);
		vr_fill(r, dictbuf, c->dictlen); if (vrn(r, 2)) markov(r, dictbuf, c->dictlen);
		/* data quotes the dictionary tail and the part beyond the window */
		size_t n = 200 + vrn(r, 30000); markov(r, inbuf, n);
		for (int k = 0; k < 12; k++) { size_t l = 4 + vrn(r, 300), from = vrn(r, 2) ? (c->dictlen > l ? c->dictlen - l - vrn(r, (uint32_t) (c->dictlen - l < 2000 ? c->dictlen - l + 1 : 2000)) : 0) : vrn(r, (uint32_t) c->dictlen), at = vrn(r, (uint32_t) n); if (from + l > c->dictlen) l = c->dictlen - from; if (at + l > n) l = n - at; memcpy(inbuf + at, dictbuf + from, l); }
		c->n = n;
	}
	if (adler_sat) {   /* zlib trailer under a saturated Adler-32: a first checksum update that leaves A just below 65521, then >= 5552 bytes of 0xFF in one update */
		adler_c1 = 241 + (int) vrn(r, 16) + 257 * (int) vrn(r, 8); c->n = (size_t) adler_c1 + 5552 + vrn(r, 20000); memset(inbuf, 0xff, c->n); if (vrn(r, 3) == 0) for (size_t i = 0; i < c->n; i += 1 + vrn(r, 900)) inbuf[i] = (uint8_t) (0xfc + vrn(r, 4));
		c->infam = 2; c->oneshot = 0; c->ikind = 99; c->fkind = 1; c->okind = NOCH - 1; c->wrapper = vrn(r, 2) ? IGZIP_ZLIB : IGZIP_ZLIB_NO_HDR; c->discipline = 0; c->eospol = 0; c->dictmode = 0; c->fresh_out = 0;
	}
	if ((!strcmp(prop, "C05") || !strcmp(prop, "C07") || !strcmp(prop, "C01")) && !adler_sat && !c->dictmode && vrn(r, !strcmp(prop, "C05") ? 8 : 30) == 0) {
		/* a small first chunk, then chunks of hundreds of KB which the codec processes in place: blocks that began in an earlier (released) chunk end here */
		c->oneshot = 0; c->ikind = 98; big_c1 = vrn(r, 3) ? 1 + (int) vrn(r, 700) : 1 + (int) vrn(r, 6000); c->infam = vrn(r, 3) ? 3 : 7; c->level = vrn(r, 4) ? 3 : 1 + (int) vrn(r, 2); c->lvlkind = 2 + (int) vrn(r, 3);
		c->n = 250000 + vrn(r, 500000); if (c->infam == 3) vr_fill(r, inbuf, c->n); else { markov(r, inbuf, c->n); for (int k = 0; k < 10; k++) { size_t at = vrn(r, (uint32_t) c->n), l = vrn(r, 60000); if (at + l > c->n) l = c->n - at; vr_fill(r, inbuf + at, l); } }
		c->okind = vrn(r, 4) ? NOCH - 1 : NOCH + 1; c->fkind = vrn(r, 3) ? 0 : 3; c->chunked_mem = 1; c->discipline = 0; c->eospol = vrn(r, 2); c->hist_bits = 0; st_bigchunk++;
	}
	if (c->oneshot) { c->chunked_mem = 0; if (c->level == 1 && vrn(r, 8) == 0) c->lvlkind = 9; }
	else if (!c->dictmode && c->ikind != 99) {
		/* bound the number of calls per history: tiny chunks only with small inputs */
		size_t lim = c->n;
		if (c->okind < NOCH ? OCH[c->okind] <= 17 : (c->okind == NOCH || c->okind == NOCH + 2)) lim = c->fkind ? 700 : 3000;
		else if (c->okind < NOCH && OCH[c->okind] <= 329) lim = 40000;
		if (c->ikind < NICH ? ICH[c->ikind] <= 3 : c->ikind == NICH) { if (lim > 4000) lim = 4000; }
		else if (c->ikind < NICH && ICH[c->ikind] <= 33 && lim > 30000) lim = 30000;
		if (c->n > lim) c->n = lim;
	}
	/* C11: inputs whose Adler-32 sits on a boundary of the modulus (A or B equal to 0 or 65520), see adleredge.h */
	if (!strcmp(prop, "C11") && !adler_sat && !c->dictmode && c->n >= 600 && vrn(r, 5) == 0) { int m = adler_edge(r, inbuf, c->n); for (int b = 0; b < 4; b++) if (m >> b & 1) st_adler_edge[b]++; }
}
int main(int argc, char **argv)
{
	v_init(argc, argv);
	if (refcrc_selftest() || refadler_selftest()) v_harness_fail("reference checksum self-test failed");
	if (V_NDISPATCHED > 0) cpusim_init();
	s_ctx = gs_new("isal_zstream", sizeof(struct isal_zstream) + 8192); s_lvl = gs_new("level_buf", ISAL_DEF_LVL3_EXTRA_LARGE + 16384); s_in = gs_new("next_in", MAXIN + 8192); s_out = gs_new("next_out", MAXOUT + 8192);
	s_huff = gs_new("hufftables", sizeof(struct isal_hufftables) + 4096); s_dict = gs_new("dict", 80000); s_dictst = gs_new("isal_dict", sizeof(struct isal_dict) + 4096);
	for (int i = 0; i < NCH; i++) { s_ic[i] = gs_new("in_chunk", ICHMAX); s_oc[i] = gs_new("out_chunk", CHMAX); }
	inbuf = malloc(MAXIN + 64); cout = malloc(MAXOUT + 64); dec = malloc(MAXIN + 4096); dec2 = malloc(MAXIN + 4096); dictbuf = malloc(80000);
	const char *prop = vopt.prop;
	monitors = M_ROUNDTRIP | M_CTX | M_PROGRESS;
	if (!strcmp(prop, "C14")) monitors |= M_FLUSHPT;
	if (!strcmp(prop, "C17")) monitors |= M_WINDOW;
	if (!strcmp(prop, "C10")) monitors |= M_BOUND;
	if (!strcmp(prop, "C05")) monitors |= M_BOUND;
	long per = (long) ((vopt.thorough ? 2500 : 42) * vopt.scale); if (per < 1) per = 1;
	int nlv = V_NDISPATCHED > 0 ? CPUSIM_NNAMED : 1;
	for (int l = 0; l < nlv; l++) {
		const char *lname = "native";
		if (V_NDISPATCHED > 0) { const cpucfg *cfg = &cpusim_named[l]; if (!cpusim_host_can(cfg)) { v_set("cpu_levels_skipped", cfg->name); continue; } cpusim_apply(cfg); lname = cfg->name; v_set("cpu_levels", lname); if (vopt.shard == 0) cpusim_report(lname); }
		for (long q = 0; q < per * 16; q++) {
			long idx = (long) l * 10000000 + q; if (!v_mine(idx)) continue;
			vrng r; vr_seed(&r, vopt.seed, 50, idx);
			ccase c;
			if (!strcmp(prop, "C10") && q % 10 == 9) { run_invalid(idx, &r); continue; }
			if ((!strcmp(prop, "C10") || !strcmp(prop, "C05")) && q % 40 == 3) {   /* systematic: one small input, EVERY avail_out from 0 to bound+8, output ending at a guard page */
				base_case(&c, &r); c.oneshot = 1; c.infam = (int[]){ 9, 9, 1, 2, 4 }[vrn(&r, 5)]; c.n = gen_input(&r, inbuf, c.infam, 700, 0); if (c.n > 700) c.n = 700;
				if (vrn(&r, 4) == 0) { c.n = 19 + vrn(&r, 680); memset(inbuf, vrn(&r, 2) ? 0 : 0xff, c.n); c.infam = 2; }   /* all 0x00 / 0xFF: the one-shot shortcut for constant input */ c.hist_bits = 0; c.os_flush = vrn(&r, 4) ? NO_FLUSH : FULL_FLUSH; c.os_eos = 1; c.chunked_mem = 0;
				size_t b = onebound(c.n, c.wrapper);
				for (size_t a = 0; a <= b + 8 && v_nviol <= v_viol_cap; a++) { c.os_avail_out = a + 1; describe(idx, &c, lname); vrng r2; vr_seed(&r2, vopt.seed, 51, idx * 4096 + a); run_oneshot(idx, &c, &r2, lname); }
				v_count("oneshot", "systematic_avail_out_sweeps", 1); continue;
			}
			if ((!strcmp(prop, "C10") || !strcmp(prop, "C11") || !strcmp(prop, "C14")) && q % 40 == 23) {   /* incompressible inputs whose length sits at a multiple of 65535 / 65536 (stored-block count changes), output space swept across the exact stored size */
				static const uint32_t sz[] = { 65535, 65536, 131070, 131071, 131072, 196605, 196606, 196607, 262140, 262141, 262142, 262143 };
				base_case(&c, &r); c.oneshot = 1; c.infam = 3; c.n = sz[vrn(&r, 12)]; vr_fill(&r, inbuf, c.n); c.hist_bits = 0; c.chunked_mem = 0; c.os_eos = 1; c.os_flush = vrn(&r, 3) ? NO_FLUSH : FULL_FLUSH; if (c.os_flush == FULL_FLUSH && vrn(&r, 2)) { c.os_eos = 0; c.wrapper = IGZIP_DEFLATE; }
				if (!strcmp(prop, "C11") && c.wrapper == IGZIP_DEFLATE) c.wrapper = 1 + vrn(&r, 4);
				size_t b = onebound(c.n, c.wrapper);
				for (size_t a = b - 12; a <= b + 3 && v_nviol <= v_viol_cap; a++) { c.os_avail_out = a + 1; describe(idx, &c, lname); vrng r2; vr_seed(&r2, vopt.seed, 52, idx * 64 + (a - (b - 12))); run_oneshot(idx, &c, &r2, lname); }
				v_count("oneshot", "stored_size_boundary_sweeps", 1); continue;
			}
			if ((!strcmp(prop, "C10") || !strcmp(prop, "C05")) && q % 40 == 33) {   /* a 4 KiB constant run first (one-shot shortcut, then a bit-unaligned block header), other data behind it: every avail_out */
				base_case(&c, &r); c.oneshot = 1; c.infam = 2; size_t run = 4096 + vrn(&r, 9), m = 20 + vrn(&r, 80); memset(inbuf, vrn(&r, 2) ? 0 : 0xff, run); for (size_t i = 0; i < m; i++) inbuf[run + i] = (uint8_t) (vrn(&r, 2) ? "lorem ipsum\n"[vrn(&r, 12)] : vr32(&r)); c.n = run + m;
				c.hist_bits = 0; c.chunked_mem = 0; c.os_eos = 1; c.os_flush = vrn(&r, 4) ? NO_FLUSH : FULL_FLUSH; c.level = vrn(&r, 3) ? 0 : (int) vrn(&r, 4);
				size_t b = onebound(c.n, c.wrapper);
				for (size_t a = 0; a <= 700 && a <= b + 8 && v_nviol <= v_viol_cap; a++) { c.os_avail_out = a + 1; describe(idx, &c, lname); vrng r2; vr_seed(&r2, vopt.seed, 53, idx * 4096 + a); run_oneshot(idx, &c, &r2, lname); }
				v_count("oneshot", "constant_run_first_avail_out_sweeps", 1); continue;
			}
			if (!strcmp(prop, "C17") && q % 12 == 11) { run_dict_extras(idx, &r); continue; }
			gen_case(idx, &r, &c, prop); describe(idx, &c, lname);
			if (!strcmp(prop, "C14") && q % 7 == 6) {   /* one-shot chains: also constant-byte and tiny inputs (dedicated stateless paths) */
				int f = vrn(&r, 4); if (f < 3) { c.infam = f == 0 ? 2 : f == 1 ? 1 : 3; c.n = gen_input(&r, inbuf, c.infam, c.infam == 3 ? 200000 : 60000, c.hist_bits); if (c.infam == 3 && vrn(&r, 2)) { c.n = 60000 + vrn(&r, 140000); vr_fill(&r, inbuf, c.n); } if (c.infam == 2 && vrn(&r, 2)) memset(inbuf, vrn(&r, 2) ? 0 : 0xff, c.n); describe(idx, &c, lname); }
				run_chain(idx, &c, &r, lname); continue; }
			if (c.oneshot) run_oneshot(idx, &c, &r, lname); else run_streaming(idx, &c, &r, lname);
			if (v_nviol > v_viol_cap) break;
		}
	}
	v_stat("evaluations", st_streams); v_stat("library_calls", st_calls); v_stat("stored_fallback_streams", st_stored_fallback); v_stat("multiblock_streams", st_multiblock); v_stat("inputs_over_64k", st_big);
	v_stat("inputs_with_adler_A_0", st_adler_edge[0]); v_stat("inputs_with_adler_A_65520", st_adler_edge[1]); v_stat("inputs_with_adler_B_0", st_adler_edge[2]); v_stat("inputs_with_adler_B_65520", st_adler_edge[3]);
	v_stat("flush_points_checked", n_flushpts); v_stat("flush_calls_without_input_after_a_completed_flush", st_forced_empty); v_stat("streams_with_hist_bits_set_after_the_dictionary_calls", st_late_hb); v_stat("histories_with_a_small_chunk_then_chunks_of_hundreds_of_KB", st_bigchunk); v_stat("histories_with_flush_points_beyond_64KiB_and_window_distance_repeats", st_far_flush); v_stat("full_flush_points", n_fullpts); v_stat("full_flush_suffixes_1k", n_fullpts_with_match_data);
	for (int a = 0; a < 24; a++) for (int b = 0; b < 24; b++) if (st_pairs[a][b]) { char e[32]; snprintf(e, sizeof e, "%d>%d", a, b); v_count("state_transitions", e, st_pairs[a][b]); }
	for (int a = 0; a < 32; a++) if (st_tmp_resume[a]) { char e[32]; snprintf(e, sizeof e, "resume_in_state_%d", a); v_count("tmp_state_resume_points", e, st_tmp_resume[a]); }
	return v_finish();
}
