/* eng_raid.c - C08: XOR / P+Q generation exact in every variant, checks sound and complete,
 * out-of-contract vects refused without touching memory, two-erasure recovery from the library's P and Q.
 * Also serves C05 with --prop C05. */
#include "v.h"
#include "visa.h"
#include "refgf.h"
#include "cpusim.h"

/* the calls exactly as an application writes them: through the public header (whatever prototype, macro or inline wrapper it provides) */
#include "raid.h"
static int hdr_xor_gen(int v, int l, void **a) { return xor_gen(v, l, a); }
static int hdr_pq_gen(int v, int l, void **a) { return pq_gen(v, l, a); }
static int hdr_xor_check(int v, int l, void **a) { return xor_check(v, l, a); }
static int hdr_pq_check(int v, int l, void **a) { return pq_check(v, l, a); }
typedef int (*fn_raid)(int, int, void **);
enum { R_XORGEN, R_PQGEN, R_XORCHECK, R_PQCHECK };
typedef struct { const char *name; fn_raid fn; int kind; const char *isa; int ok; long calls; uint64_t resmask; long corrupt_src, corrupt_p, corrupt_q, refused; } rsym;
#define X(s, n, isa) extern char ksym_##s[] __asm__(#s);
V_XORGEN_LIST(X) V_PQGEN_LIST(X) V_XORCHECK_LIST(X) V_PQCHECK_LIST(X)
#undef X
static rsym syms[] = {
#define X(s, n, isa) { #s, (fn_raid) ksym_##s, R_XORGEN, isa },
	V_XORGEN_LIST(X)
#undef X
#define X(s, n, isa) { #s, (fn_raid) ksym_##s, R_PQGEN, isa },
	V_PQGEN_LIST(X)
#undef X
#define X(s, n, isa) { #s, (fn_raid) ksym_##s, R_XORCHECK, isa },
	V_XORCHECK_LIST(X)
#undef X
#define X(s, n, isa) { #s, (fn_raid) ksym_##s, R_PQCHECK, isa },
	V_PQCHECK_LIST(X)
#undef X
	{ "xor_gen@raid.h", hdr_xor_gen, R_XORGEN, "disp" }, { "pq_gen@raid.h", hdr_pq_gen, R_PQGEN, "disp" }, { "xor_check@raid.h", hdr_xor_check, R_XORCHECK, "disp" }, { "pq_check@raid.h", hdr_pq_check, R_PQCHECK, "disp" },
};
#define NSYMS ((int) (sizeof syms / sizeof syms[0]))
#define MAXV 258
#define MAXLEN 16384
static gslot *s_vec[MAXV], *s_arr;
static uint8_t refP[MAXLEN], refQ[MAXLEN];

static int ptr_align(const rsym *s) { if (s->kind == R_XORCHECK || s->kind == R_PQCHECK) return 16; if (!strcmp(s->isa, "sse")) return 16; if (s->kind == R_PQGEN && !strcmp(s->isa, "avx")) return 16; return 32; }
static int len_mult(const rsym *s)
{
	if (s->kind == R_XORGEN || s->kind == R_XORCHECK) return 1;
	if (s->kind == R_PQCHECK) return 16;
	if (!strcmp(s->isa, "sse") || !strcmp(s->isa, "avx")) return 16;
	return 32;    /* pq_gen dispatcher, base, avx2, avx512: documented 32B multiple */
}
static int min_vects(const rsym *s) { return s->kind == R_XORGEN ? 3 : s->kind == R_XORCHECK ? 2 : 4; }
static void fault(const rsym *s, const char *what)
{
	v_describe_fault(); char key[200]; snprintf(key, sizeof key, "fault:%s:%s:%s", v_fault_sym(), v_fault_slot(), v_fault.sig == SIGALRM ? "hang" : v_fault.sig == SIGILL ? "sigill" : "access");
	v_viol(key, "%s: %s", what, v_fault_txt);
}
static uint8_t *place_vec(vrng *r, gslot *g, int len, int al)
{
	/* legal alignments only: START (page aligned) or near-END at a multiple of the required alignment */
	if (vrn(r, 3) == 0) return gs_place(g, len, G_START, 0);
	unsigned off = (vrn(r, 64 / al) * al) & 63;
	return gs_place(g, len, G_NEAR_END, off);
}
static void canaries(const rsym *s, int vects)
{
	for (int i = 0; i < vects; i++) { long d = gs_check(s_vec[i], 4096); if (d != GS_OK) { char key[200]; snprintf(key, sizeof key, "oob-write:%s:vec", s->name); v_viol(key, "vector %d: canary damaged at buffer%+ld (len %zu)", i, d, s_vec[i]->curlen); gs_repaint_all(s_vec[i]); } }
	long d = gs_check(s_arr, 4096); if (d != GS_OK) { char key[200]; snprintf(key, sizeof key, "oob-write:%s:array", s->name); v_viol(key, "pointer array canary damaged at %+ld", d); gs_repaint_all(s_arr); }
}
static void ref_pq(uint8_t **v, int nsrc, int len)
{
	memset(refP, 0, len); memset(refQ, 0, len);
	for (int i = nsrc - 1; i >= 0; i--) for (int x = 0; x < len; x++) { refP[x] ^= v[i][x]; refQ[x] = refgf_tab[2][refQ[x]] ^ v[i][x]; }
}
static int pick_vects(vrng *r, int mn)
{
	int c = vrn(r, 10);
	if (c < 6) return vrr(r, mn, 34);
	if (c < 8) { static const int big[] = { 64, 128, 255, 256, 257 }; return big[vrn(r, 5)]; }
	return vrr(r, mn, 12);
}
static int pick_len(vrng *r, int mult, int vects)
{
	int cap = MAXLEN - 128; while ((long) cap * vects > 400000 && cap > 512) cap /= 2;
	int c = vrn(r, 10), len;
	if (mult == 1) len = c < 5 ? vrn(r, 301) : c < 8 ? (int[]){ 1024, 4096, 512, 2048 }[vrn(r, 4)] + vrr(r, -70, 70) : vrn(r, cap);
	else len = c < 7 ? mult * vrn(r, 2048 / mult + 1) : mult * vrn(r, cap / mult);
	if (len > cap) len = cap / mult * mult;
	if (len < 0) len = 0;
	return len;
}

static void case_raid(long idx, rsym *s, vrng *r, const char *lvl)
{
	int mn = min_vects(s), vects = pick_vects(r, mn), mult = len_mult(s), len = pick_len(r, mult, vects), al = ptr_align(s);
	int npar = (s->kind == R_PQGEN || s->kind == R_PQCHECK) ? 2 : 1, nsrc = vects - npar;
	uint64_t tag = vr64(r);
	void **arr = (void **) gs_place(s_arr, 8 * (size_t) vects, G_END, 0);
	uint8_t *v[MAXV];
	for (int i = 0; i < vects; i++) { v[i] = place_vec(r, s_vec[i], len, al); arr[i] = v[i]; v_fill_tag(v[i], len, tag + i); }
	if (vrn(r, 6) == 0 && nsrc > 0) memset(v[vrn(r, nsrc)], vrn(r, 2) ? 0xff : 0, len);
	uint64_t srch[MAXV]; for (int i = 0; i < nsrc; i++) srch[i] = v_hash64(v[i], len, 9);
	v_setcase(idx, "sym=%s level=%s vects=%d len=%d align=%d tag=%llx", s->name, lvl, vects, len, al, (unsigned long long) tag);
	char key[200]; int rc = -99;
	if (s->kind == R_XORGEN || s->kind == R_PQGEN) {
		if (V_TRY(20)) { rc = (int) V_ABI(s->fn, vects, len, arr); V_END; } else { fault(s, "gen"); goto out; }
		s->calls++; s->resmask |= 1ull << ((len / mult) & 63);
		if (len > 0) {
			ref_pq(v, nsrc, len);
			if (rc != 0) { snprintf(key, sizeof key, "gen-refuses-valid:%s", s->name); v_viol(key, "returned %d for in-contract arguments", rc); }
			else {
				if (memcmp(v[nsrc], refP, len)) { int x = 0; while (v[nsrc][x] == refP[x]) x++; snprintf(key, sizeof key, "wrong-P:%s", s->name); v_viol(key, "P byte %d: got %02x want %02x", x, v[nsrc][x], refP[x]); }
				if (npar == 2 && memcmp(v[nsrc + 1], refQ, len)) { int x = 0; while (v[nsrc + 1][x] == refQ[x]) x++; snprintf(key, sizeof key, "wrong-Q:%s", s->name); v_viol(key, "Q byte %d: got %02x want %02x", x, v[nsrc + 1][x], refQ[x]); }
				/* two-erasure recovery from the library's own P and Q */
				if (npar == 2 && nsrc >= 2 && vrn(r, 4) == 0) {
					int a = vrn(r, nsrc), b = vrn(r, nsrc - 1); if (b >= a) b++; if (a > b) { int t = a; a = b; b = t; }
					uint8_t ga = refgf_pow(2, a), gb = refgf_pow(2, b), den = refgf_inv(ga ^ gb);
					for (int x = 0; x < len; x++) {
						uint8_t pxy = v[nsrc][x], qxy = v[nsrc + 1][x];
						for (int i = 0; i < nsrc; i++) if (i != a && i != b) { pxy ^= v[i][x]; qxy ^= refgf_mul(refgf_pow(2, i), v[i][x]); }
						uint8_t da = refgf_mul(den, refgf_mul(gb, pxy) ^ qxy), db = pxy ^ da;
						if (da != v[a][x] || db != v[b][x]) { snprintf(key, sizeof key, "recovery-fails:%s", s->name); v_viol(key, "blocks %d,%d not recoverable from P,Q at byte %d", a, b, x); break; }
					}
				}
			}
			for (int i = 0; i < nsrc; i++) if (v_hash64(v[i], len, 9) != srch[i]) { snprintf(key, sizeof key, "source-modified:%s", s->name); v_viol(key, "source %d changed", i); break; }
			v_distinct(v_hash64(s->name, strlen(s->name), tag ^ (uint64_t) len << 32 ^ vects));
			if (v_nsamples < 2 && len >= 64) v_sample("%s -> rc=0, P%s equal reference", v_case, npar == 2 ? " and Q" : "");
		}
		canaries(s, vects);
	} else {
		/* check functions: build a consistent array from the reference, expect 0; then corrupt single bytes, expect non-zero */
		if (len > 0) { ref_pq(v, nsrc, len); memcpy(v[nsrc], refP, len); if (npar == 2) memcpy(v[nsrc + 1], refQ, len); }
		if (V_TRY(20)) { rc = (int) V_ABI(s->fn, vects, len, arr); V_END; } else { fault(s, "check"); goto out; }
		s->calls++; s->resmask |= 1ull << ((len / mult) & 63);
		if (len > 0 && rc != 0) { snprintf(key, sizeof key, "check-rejects-consistent:%s", s->name); v_viol(key, "returned %d on parity-consistent arrays", rc); }
		if (len > 0) {
			int tries = len <= 300 && vrn(r, 8) == 0 ? len : 6;      /* sometimes every byte position */
			for (int t = 0; t < tries; t++) {
				int x = tries == len ? t : (vrn(r, 3) == 0 ? len - 1 - (int) vrn(r, len < 40 ? len : 40) : (int) vrn(r, len));
				int tc = vrn(r, 3), which = tc == 0 ? (int) vrn(r, nsrc) : tc == 1 ? nsrc : vects - 1;
				uint8_t delta = (uint8_t) ((int[]){ 1, 0x80, 0xff, 0 }[vrn(r, 4)]); if (!delta) delta = (uint8_t) (1 + vrn(r, 255));
				v[which][x] ^= delta;
				int rc2 = -99;
				if (V_TRY(20)) { rc2 = (int) V_ABI(s->fn, vects, len, arr); V_END; } else { fault(s, "check(corrupt)"); goto out; }
				s->calls++;
				if (which < nsrc) s->corrupt_src++; else if (which == nsrc) s->corrupt_p++; else s->corrupt_q++;
				if (rc2 == 0) { snprintf(key, sizeof key, "check-misses-corruption:%s", s->name); v_viol(key, "vector %d (%s) byte %d of %d xor %02x not detected", which, which < nsrc ? "source" : which == nsrc ? "P" : "Q", x, len, delta); }
				v[which][x] ^= delta;
			}
			v_distinct(v_hash64(s->name, strlen(s->name), tag ^ (uint64_t) len << 32 ^ vects));
		}
		canaries(s, vects);
	}
out:
	for (int i = 0; i < vects; i++) gs_reset(s_vec[i]);
	gs_reset(s_arr);
}
/* vects below the documented minimum: must return non-zero and touch nothing (buffers are made inaccessible) */
static void case_contract(long idx, rsym *s, vrng *r)
{
	int mn = min_vects(s), vects = vrn(r, 3) ? (int) vrn(r, mn) : vrn(r, 4) ? -(int) vrn(r, 5) : (int[]){ -256, -65536, -2147483647 - 1, -2147483647 }[vrn(r, 4)], len = len_mult(s) * vrr(r, 1, 8), nv = vects > 0 ? vects : 0;
	void **arr = (void **) gs_place(s_arr, 8 * (size_t) nv, G_END, 0);
	for (int i = 0; i < nv; i++) { arr[i] = gs_place(s_vec[i], len, G_START, 0); v_fill_tag(arr[i], len, 99 + i); }
	v_setcase(idx, "sym=%s out-of-contract vects=%d len=%d", s->name, vects, len);
	int rc = -99; char key[200];
	for (int i = 0; i < nv; i++) gs_release(s_vec[i]);      /* any access to a vector faults */
	if (V_TRY(20)) { rc = (int) V_ABI(s->fn, vects, len, arr); V_END; } else {
		for (int i = 0; i < nv; i++) gs_reacquire(s_vec[i]);
		if (vects < 0) { v_describe_fault(); snprintf(key, sizeof key, "negative-vects-dereferenced:%s", v_fault_sym()); v_viol(key, "vects=%d is not refused: %s", vects, v_fault_txt); }
		else fault(s, "out-of-contract vects");
		goto out;
	}
	for (int i = 0; i < nv; i++) gs_reacquire(s_vec[i]);
	s->calls++; s->refused++;
	if (rc == 0) { snprintf(key, sizeof key, "accepts-too-few-vects:%s", s->name); v_viol(key, "vects=%d (minimum %d) returned 0", vects, mn); }
	for (int i = 0; i < nv; i++) if (v_check_tag(arr[i], len, 99 + i) >= 0) { snprintf(key, sizeof key, "touches-memory-out-of-contract:%s", s->name); v_viol(key, "vects=%d modified vector %d", vects, i); }
	{ long d = gs_check(s_arr, 4096); if (d != GS_OK) { snprintf(key, sizeof key, "oob-write:%s:array", s->name); v_viol(key, "array canary damaged"); gs_repaint_all(s_arr); } }
out:
	for (int i = 0; i < nv; i++) gs_reset(s_vec[i]);
	gs_reset(s_arr);
}

int main(int argc, char **argv)
{
	v_init(argc, argv);
	if (refgf_init()) v_harness_fail("refgf self-test failed");
	if (V_NDISPATCHED > 0) cpusim_init();
	for (int i = 0; i < MAXV; i++) s_vec[i] = gs_new("vector", MAXLEN);
	s_arr = gs_new("ptrarray", 8 * MAXV + 128);
	for (int i = 0; i < NSYMS; i++) { int ok = v_isa_ok(syms[i].isa); if (ok < 0) v_harness_fail("unknown ISA suffix %s", syms[i].isa); syms[i].ok = ok; if (!ok) v_set("skipped_not_executable_on_host", syms[i].name); }
	long per = (long) ((vopt.thorough ? 60000 : 1500) * vopt.scale);
	for (long q = 0; q < per; q++) for (int i = 0; i < NSYMS; i++) {
		long idx = q * NSYMS + i; if (!v_mine(idx) || !syms[i].ok) continue;
		vrng r; vr_seed(&r, vopt.seed, 20, idx);
		if (q % 25 == 24) case_contract(idx, &syms[i], &r); else case_raid(idx, &syms[i], &r, "-");
	}
	if (V_NDISPATCHED > 0) for (int l = 0; l < CPUSIM_NNAMED; l++) {
		const cpucfg *c = &cpusim_named[l]; if (!cpusim_host_can(c)) { v_set("cpu_levels_skipped", c->name); continue; }
		cpusim_apply(c); if (vopt.shard == 0) cpusim_report(c->name); v_set("cpu_levels", c->name);
		long pl = (long) ((vopt.thorough ? 3000 : 120) * vopt.scale);
		for (int i = 0; i < NSYMS; i++) { if (strcmp(syms[i].isa, "disp")) continue;
			for (long q = 0; q < pl; q++) { long idx = 70000000l + ((long) l * NSYMS + i) * 10000 + q; if (!v_mine(idx)) continue; vrng r; vr_seed(&r, vopt.seed, 21, idx); if (q % 25 == 24) case_contract(idx, &syms[i], &r); else case_raid(idx, &syms[i], &r, c->name); } }
	}
	long long ev = 0;
	for (int i = 0; i < NSYMS; i++) if (syms[i].calls) {
		ev += syms[i].calls; v_count("calls", syms[i].name, syms[i].calls); v_count("judged", syms[i].name, syms[i].calls);
		if (syms[i].kind >= R_XORCHECK) { v_count("corruptions_in_source", syms[i].name, syms[i].corrupt_src); v_count("corruptions_in_P", syms[i].name, syms[i].corrupt_p); v_count("corruptions_in_Q", syms[i].name, syms[i].corrupt_q); }
		v_count("out_of_contract_calls", syms[i].name, syms[i].refused);
		printf("{\"t\":\"mask\",\"k\":\"len_residues_mod64:%s\",\"v\":%llu}\n", syms[i].name, (unsigned long long) syms[i].resmask);
	}
	v_stat("evaluations", ev);
	for (int i = 0; i < MAXV; i++) if (gs_check_all(s_vec[i]) != GS_OK) { v_viol("oob-write:late", "stray write found in vector slot %d at final sweep", i); break; }
	return v_finish();
}
