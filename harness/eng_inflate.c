/* eng_inflate.c - decompression driver over generated, foreign, mutated and arbitrary streams.
 * Serves C02 (valid streams reproduce exactly, end position, every decode kernel), C06 (arbitrary bytes: safe,
 * terminates, never falsely succeeds, error classes), C07 (decompression half: slicing independence),
 * C11 (verifier half: trailer verification catches corruption) and C05 (guard-page chunks, released when consumed). */
#include "v.h"
#include "refinflate.h"
#include "refhdr.h"
#include "defgen.h"
#include "cpusim.h"
#include <zlib.h>
#include "igzip_lib.h"

#define SMAX (1u << 20)          /* stream bytes */
#define EMAX (3u << 20)          /* expected output */
#define NCH 6
#define CHMAX (1u << 17)
static gslot *s_st, *s_in, *s_out, *s_dict, *s_ic[NCH], *s_oc[NCH];
static uint8_t *strm, *expb, *refout, *got, *tmpin, *dictb;
static rinf_t RI; static rwrap_t RW;

typedef struct { size_t slen, elen; int wrapper, src, fault; size_t hdr_len, body_end, total_len; size_t dictlen; int fdict; long deep; } vstream;
typedef struct { int ret, finished, stalled, need_dict; size_t outlen, consumed; uint32_t crc; long calls; int bstate; int capped; } dres;
typedef struct { uint32_t ain, aout, cons, prod; uint8_t sb, sa; int8_t ret; } ievent;
#define MAXEV 4000
static ievent ev[MAXEV]; static int nev;
static long st_tail, st_near_end, st_prefixed; static long st_streams, st_decodes, st_calls, st_deep, st_kind[3], st_false_ok_checked, st_stricter, st_benign_ok, st_resume[16], st_modes[8], st_retcodes[16], st_trailer_straddle, st_detect[4], st_needdict;
static long st_fault_fired[DGF_NFAULTS], st_fault_class_ok[DGF_NFAULTS], st_blockpairs[3][3];

static void evtext(char *b, size_t cap) { size_t o = 0; int from = nev > 30 ? nev - 30 : 0; o += snprintf(b + o, cap - o, "calls=%d last:", nev); for (int i = from; i < nev && o + 50 < cap; i++) o += snprintf(b + o, cap - o, " [in%u out%u ->c%u p%u s%u>%u r%d]", ev[i].ain, ev[i].aout, ev[i].cons, ev[i].prod, ev[i].sb, ev[i].sa, ev[i].ret); }
static const char *g_shape;   /* set while a decode runs under a history shape that is a recorded finding */
static void viol_ev(const char *key, const char *fmt, ...) { char m[600], e[1500]; if (g_shape && strncmp(key, "fault:", 6) && strncmp(key, "oob-write", 9) && strncmp(key, "ctxinv", 6)) key = g_shape; va_list ap; va_start(ap, fmt); vsnprintf(m, sizeof m, fmt, ap); va_end(ap); evtext(e, sizeof e); v_viol(key, "%s | %s", m, e); }
static void fault_key(const char *what) { v_describe_fault(); char key[200]; snprintf(key, sizeof key, "fault:%s:%s:%s", v_fault_sym(), v_fault_slot(), v_fault.sig == SIGALRM ? "hang" : v_fault.sig == SIGILL ? "sigill" : v_fault.sig == SIGABRT ? "abort" : "access"); viol_ev(key, "%s: %s", what, v_fault_txt); }
static const char *modename(int m) { static const char *n[] = { "raw", "gzip", "gzip-nohdr", "zlib", "zlib-nohdr", "zlib-nohdr-ver", "gzip-nohdr-ver" }; return n[m]; }
static int mode_wrapper(int m) { return m == ISAL_DEFLATE ? RW_RAW : (m == ISAL_GZIP || m == ISAL_GZIP_NO_HDR || m == ISAL_GZIP_NO_HDR_VER) ? RW_GZIP : RW_ZLIB; }
static int mode_hashdr(int m) { return m == ISAL_GZIP || m == ISAL_ZLIB; }
static int mode_verifies(int m) { return m == ISAL_GZIP || m == ISAL_ZLIB || m == ISAL_GZIP_NO_HDR_VER || m == ISAL_ZLIB_NO_HDR_VER; }

/* ------------------------------------------------------------------ stream sources */
static void text(vrng *r, uint8_t *b, size_t n)
{
	static const char *w[] = { "alpha ", "beta ", "gamma ", "delta ", "epsilon ", "zeta ", "0000", "\n", "the ", "of ", "xyzzy", "AB" };
	size_t o = 0; while (o < n) { const char *s = w[vrn(r, 12)]; size_t l = strlen(s); if (vrn(r, 7) == 0) { b[o++] = (uint8_t) vr32(r); continue; } for (size_t i = 0; i < l && o < n; i++) b[o++] = (uint8_t) s[i]; }
}
/* the dynamic-block header of the library's default table, used as *input data* only: an independent parser reads its code lengths, and
 * the grammar generator then writes blocks that carry this header verbatim followed by arbitrary tokens in that code (the decoder's
 * "header equals the pregenerated one" shortcut with data its own compressor would not produce) */
extern const struct isal_hufftables hufftables_default;
static uint8_t pre_l[320]; static int pre_nlen, pre_ndist, pre_ok = -1; static size_t pre_bits; static long st_foreign_hdr, st_maxhdr, st_maxhdr_bits;
static void pre_setup(void)
{
	static rinf_t pr; memset(&pr, 0, sizeof pr); pre_ok = 0;
	pre_bits = (size_t) hufftables_default.deflate_hdr_count * 8 + hufftables_default.deflate_hdr_extra_bits;
	if (pre_bits < 17 || pre_bits > sizeof hufftables_default.deflate_hdr * 8 || (hufftables_default.deflate_hdr[0] & 6) != 4) return;
	pr.in = hufftables_default.deflate_hdr; pr.inlen = (pre_bits + 7) / 8; pr.bitpos = 3;
	if (ri_dyn_header(&pr, pre_l, &pre_nlen, &pre_ndist) || pr.bitpos != pre_bits) return;
	rh_t h; if (rh_build(&h, pre_l, pre_nlen) < 0 || rh_build(&h, pre_l + pre_nlen, pre_ndist) < 0) return;
	pre_ok = 1;
}
static size_t gen_plain(vrng *r, uint8_t *b, size_t cap)
{
	size_t n; int f = vrn(r, 8);
	switch (f) { case 0: n = 0; break; case 1: n = 1 + vrn(r, 40); vr_fill(r, b, n); break; case 2: n = vrn(r, 5000); memset(b, vrn(r, 256), n); break; case 3: n = vrn(r, 30000); vr_fill(r, b, n); break;
	case 4: { n = 40000 + vrn(r, 60000); text(r, b, n); for (int k = 0; k < 6; k++) { size_t l = 10 + vrn(r, 250), d = 32768 - vrn(r, 3), at = vrn(r, (uint32_t) (n - d - l)); memcpy(b + at + d, b + at, l); } } break;
	default: n = vrn(r, 40000); text(r, b, n); }
	if (n > cap) n = cap;
	return n;
}
/* wrap a raw deflate body (already in strm at offset hdr) */
static size_t add_wrapper(vrng *r, vstream *v, uint8_t *body, size_t blen, const uint8_t *plain, size_t plen)
{
	/* body is at tmpin; result built in strm */
	size_t p = 0;
	if (v->wrapper == RW_GZIP) {
		refgz_t h; memset(&h, 0, sizeof h); static uint8_t extra[70000]; static char name[300], comment[300];
		h.text = vrn(r, 2); h.hcrc = vrn(r, 2); h.mtime = vrn(r, 2) ? vr32(r) : 0; h.xfl = (uint8_t) vr32(r); h.os = (uint8_t) vr32(r);
		if (vrn(r, 2)) { h.has_extra = 1; h.extra_len = vrn(r, 4) ? vrn(r, 40) : vrn(r, 3) ? vrn(r, 700) : 65535 - vrn(r, 3); vr_fill(r, extra, h.extra_len); h.extra = extra; }
		if (vrn(r, 2)) { size_t l = vrn(r, 3) ? vrn(r, 20) : vrn(r, 290); for (size_t i = 0; i < l; i++) name[i] = (char) (1 + vrn(r, 255)); name[l] = 0; h.name = name; }
		if (vrn(r, 2)) { size_t l = vrn(r, 3) ? vrn(r, 20) : vrn(r, 290); for (size_t i = 0; i < l; i++) comment[i] = (char) (1 + vrn(r, 255)); comment[l] = 0; h.comment = comment; }
		p = refhdr_gzip(strm, &h);
	} else if (v->wrapper == RW_ZLIB) {
		p = refhdr_zlib(strm, vrn(r, 8), vrn(r, 4), v->fdict, v->fdict ? refadler(1, dictb, v->dictlen) : 0);
	}
	v->hdr_len = p; memcpy(strm + p, body, blen); p += blen; v->body_end = p;
	if (v->wrapper == RW_GZIP) p += reftrl_gzip(strm + p, plain, plen); else if (v->wrapper == RW_ZLIB) p += reftrl_zlib(strm + p, plain, plen);
	v->total_len = p; return p;
}
/* produce one valid stream (strm/expb) */
static int gen_valid(vrng *r, vstream *v, int want_src, int fault)
{
	memset(v, 0, sizeof *v); v->src = want_src; v->wrapper = vrn(r, 3); v->fault = fault;
	if (want_src == 0) {           /* grammar generated */
		defgen_t g; memset(&g, 0, sizeof g); g.fault = fault; g.max_blocks = vrn(r, 6) == 0 ? 12 : 5; g.want_deep = vrn(r, 3) == 0; g.want_far = vrn(r, 4) == 0;
		size_t cap = fault ? 20000 : vrn(r, 6) == 0 ? 400000 : 60000;
		if (pre_ok < 0) pre_setup();
		if (pre_ok == 1 && !fault) { g.pre_hdr = hufftables_default.deflate_hdr; g.pre_hdr_bits = pre_bits; g.pre_l = pre_l; g.pre_nlen = pre_nlen; g.pre_ndist = pre_ndist; }
		size_t pre_bytes = 0, pre_out = 0;
		if (!fault && vrn(r, 8) == 0) {   /* 64 KiB and a bit of stored data first: what follows is decoded after the decoder has switched to writing directly into the caller's buffer; the rest is short and ends in a small last block */
			pre_out = 65536 + vrn(r, 3000); vr_fill(r, expb, pre_out); size_t done = 0; while (done < pre_out) { size_t l = pre_out - done > 65535 ? 65535 : pre_out - done; uint8_t *q = tmpin + pre_bytes; q[0] = 0; q[1] = (uint8_t) l; q[2] = (uint8_t) (l >> 8); q[3] = (uint8_t) ~l; q[4] = (uint8_t) (~l >> 8); memcpy(q + 5, expb + done, l); pre_bytes += 5 + l; done += l; }
			cap = 1 + vrn(r, 3000); g.max_blocks = 1 + vrn(r, 2); st_prefixed++; }
		size_t bl;
		if (!fault && !pre_bytes && vrn(r, 12) == 0) { bl = dg_maxhdr_stream(&g, r, tmpin, SMAX - 70000, expb, 60000); st_maxhdr++; if (g.fault_bit > st_maxhdr_bits) st_maxhdr_bits = (long) g.fault_bit; }   /* near-maximal dynamic header */
		else bl = defgen(&g, r, tmpin + pre_bytes, SMAX - 70000 - pre_bytes, expb + pre_out, cap);
		if (!bl) return -1;
		bl += pre_bytes; g.explen += pre_out;
		v->elen = g.explen; v->deep = g.deep;
		if (g.deep) st_deep++;
		st_foreign_hdr += g.npre;
		if (fault) { v->wrapper = RW_RAW; v->elen = g.valid_out_before_fault; }
		v->slen = add_wrapper(r, v, tmpin, bl, expb, g.explen);
		if (fault) { v->total_len = v->body_end = 0; }
		return 0;
	}
	if (want_src == 1) {           /* zlib made */
		size_t n = gen_plain(r, expb, 200000); v->elen = n;
		int usedict = v->wrapper != RW_GZIP && vrn(r, 5) == 0; if (usedict) { v->dictlen = 1 + vrn(r, 40000); text(r, dictb, v->dictlen); size_t q = v->dictlen < n ? v->dictlen : n; if (q > 4) memcpy(expb + vrn(r, (uint32_t) (n - q + 1)), dictb + v->dictlen - q, q); v->fdict = v->wrapper == RW_ZLIB; }
		z_stream z; memset(&z, 0, sizeof z); int level = vrn(r, 10), strat = (int[]){ Z_DEFAULT_STRATEGY, Z_FILTERED, Z_HUFFMAN_ONLY, Z_RLE, Z_FIXED }[vrn(r, 5)], wb = 9 + vrn(r, 7); if (wb == 8) wb = 9;
		if (deflateInit2(&z, level, Z_DEFLATED, -wb, 1 + vrn(r, 9), strat) != Z_OK) v_harness_fail("deflateInit2");
		if (usedict) deflateSetDictionary(&z, dictb, (uInt) v->dictlen);
		z.next_in = expb; z.next_out = tmpin; z.avail_out = SMAX - 70000; size_t off = 0;
		while (off < n) { size_t c = 1 + vrn(r, (uint32_t) (n - off)); z.avail_in = (uInt) c; int fl = vrn(r, 4) == 0 ? (int[]){ Z_SYNC_FLUSH, Z_FULL_FLUSH, Z_PARTIAL_FLUSH, Z_BLOCK }[vrn(r, 4)] : Z_NO_FLUSH; if (deflate(&z, fl) == Z_STREAM_ERROR) v_harness_fail("deflate"); off += c - z.avail_in; if (z.avail_out == 0) { deflateEnd(&z); return -1; } }
		z.avail_in = 0; if (deflate(&z, Z_FINISH) != Z_STREAM_END) { deflateEnd(&z); return -1; }
		size_t bl = z.total_out; deflateEnd(&z);
		v->slen = add_wrapper(r, v, tmpin, bl, expb, n); return 0;
	}
	/* ISA-L made (own encoder output must be decodable by own decoder in every kernel) */
	{
		size_t n = gen_plain(r, expb, 200000); v->elen = n; static struct isal_zstream zs; static uint8_t lvl[ISAL_DEF_LVL3_DEFAULT];
		isal_deflate_stateless_init(&zs); zs.level = vrn(r, 4); zs.level_buf = lvl; zs.level_buf_size = sizeof lvl; zs.flush = NO_FLUSH; zs.end_of_stream = 1; zs.hist_bits = vrn(r, 3) ? 0 : 9 + vrn(r, 7);
		zs.gzip_flag = v->wrapper == RW_RAW ? IGZIP_DEFLATE : v->wrapper == RW_GZIP ? IGZIP_GZIP : IGZIP_ZLIB;
		zs.next_in = expb; zs.avail_in = (uint32_t) n; zs.next_out = strm; zs.avail_out = SMAX;
		if (isal_deflate_stateless(&zs) != COMP_OK) return -1;
		v->slen = zs.total_out; v->hdr_len = v->wrapper == RW_GZIP ? 10 : v->wrapper == RW_ZLIB ? 2 : 0; v->total_len = v->slen; v->body_end = v->slen - (v->wrapper == RW_GZIP ? 8 : v->wrapper == RW_ZLIB ? 4 : 0);
		return 0;
	}
}

/* ------------------------------------------------------------------ ISA-L drivers */
static const int ICH[] = { 1, 2, 3, 7, 8, 9, 15, 16, 17, 31, 32, 33, 255, 256, 257, 4096, 1 << 30 };
static const int OCH[] = { 1, 2, 3, 7, 8, 9, 15, 16, 17, 64, 258, 259, 4096, 32768, 1 << 30 };
#define NICH ((int) (sizeof ICH / sizeof ICH[0]))
#define NOCH ((int) (sizeof OCH / sizeof OCH[0]))
static size_t csize(vrng *r, const int *t, int nt, int kind) { if (kind < nt) return t[kind]; return kind == nt ? 1 + vrn(r, 24) : vrn(r, 3) ? 1 + vrn(r, 700) : 1 + vrn(r, 70000); }
static int ctxinv(const struct inflate_state *s)
{
	if ((unsigned) s->block_state > ISAL_CHECKSUM_CHECK) { viol_ev("ctxinv:block_state", "block_state=%d", s->block_state); return 1; }
	if (s->tmp_in_size < 0 || s->tmp_in_size > (int) sizeof s->tmp_in_buffer) { viol_ev("ctxinv:tmp_in_size", "tmp_in_size=%d", s->tmp_in_size); return 1; }
	if (s->tmp_out_processed < 0 || s->tmp_out_processed > s->tmp_out_valid || s->tmp_out_valid > (int) sizeof s->tmp_out_buffer) { viol_ev("ctxinv:tmp_out", "tmp_out_processed=%d tmp_out_valid=%d", s->tmp_out_processed, s->tmp_out_valid); return 1; }
	return 0;
}
/* streaming decode of in[0..inlen) in `mode`; split_in/split_out >= 0 force one split point; returns 0, or 1 when a violation was reported */
/* g_pre_hdr: the application parses the gzip header itself with isal_read_gzip_header() on the same inflate_state (in pieces) and then
 * inflates the rest in a *_NO_HDR(_VER) mode - the igzip command line tool's pattern */
static const uint8_t *g_pre_hdr; static size_t g_pre_hdr_len; static long st_pre_hdr;
static int run_streaming(int mode, const uint8_t *in, size_t inlen, vrng *r, int ikind, int okind, int chunked, long split_in, long split_out, const uint8_t *dict, size_t dictlen, int hist_bits, size_t outlimit, dres *res)
{
	struct inflate_state *s = (struct inflate_state *) gs_place(s_st, sizeof *s, vrn(r, 2) ? G_START : G_NEAR_END, 0);
	vr_fill(r, s, 4096); memset(res, 0, sizeof *res); nev = 0; g_shape = NULL;
	if (vrn(r, 2)) s->hist_bits = 1 + vrn(r, 14);   /* a struct used before with a reduced window: isal_inflate_init() restores the default */
	if (V_TRY(20)) { isal_inflate_init(s); s->crc_flag = mode; if (hist_bits) s->hist_bits = hist_bits; V_END; } else { fault_key("isal_inflate_init"); return 1; }
	if (dict && !(mode == ISAL_ZLIB)) { uint8_t *dd = gs_place(s_dict, dictlen, G_END, 0); memcpy(dd, dict, dictlen); int rc = isal_inflate_set_dict(s, dd, (uint32_t) dictlen); if (rc) { viol_ev("set_dict-refused", "isal_inflate_set_dict on a fresh state returned %d", rc); return 1; } }
	if (g_pre_hdr && g_pre_hdr_len && !dict) {
		static struct isal_gzip_header gh; static uint8_t hb[70000]; if (g_pre_hdr_len > sizeof hb) return 0; memcpy(hb, g_pre_hdr, g_pre_hdr_len);
		size_t off = 0; int rc = ISAL_END_INPUT, guard = 0;
		if (V_TRY(20)) { isal_gzip_header_init(&gh); while (rc == ISAL_END_INPUT && off < g_pre_hdr_len && ++guard < 100000) { size_t c = vrn(r, 3) ? 1 + vrn(r, 12) : g_pre_hdr_len - off; if (c > g_pre_hdr_len - off) c = g_pre_hdr_len - off; s->next_in = hb + off; s->avail_in = (uint32_t) c; off += c; rc = isal_read_gzip_header(s, &gh); } V_END; } else { fault_key("isal_read_gzip_header"); return 1; }
		if (rc != ISAL_DECOMP_OK || s->avail_in) { viol_ev("pre-parsed-header-rejected", "isal_read_gzip_header returned %d (avail_in %u) on a valid header of %zu bytes", rc, s->avail_in, g_pre_hdr_len); return 1; }
		st_pre_hdr++;
	}
	if (!chunked) { uint8_t *p = gs_place(s_in, inlen, vrn(r, 2) ? G_END : G_START, 0); memcpy(p, in, inlen); }
	size_t given = 0, outlen = 0; gslot *icur = NULL, *ocur = NULL; int irot = 0, orot = 0; uint8_t *ochunk = NULL; size_t ocap = 0; int idle = 0;
	s->avail_in = 0; s->avail_out = 0; s->next_in = NULL; s->next_out = NULL;
	long bound = 10000 + 4 * (long) inlen + 2 * (long) EMAX, calls = 0;   /* hang guard only: one call per output byte is legitimate */ int first_in = 1, first_out = 1;
	for (;;) {
		if (++calls > bound) { viol_ev("no-termination", "decode not finished after %ld calls", calls); res->capped = 1; goto fail; }
		if (s->avail_in == 0 && given < inlen) {
			size_t want = split_in >= 0 ? (first_in ? (size_t) split_in : inlen - given) : csize(r, ICH, NICH, ikind); if (want > inlen - given) want = inlen - given; if (want > CHMAX - 64) want = CHMAX - 64;
			first_in = 0;
			if (chunked) { if (icur) { gs_reset(icur); gs_release(icur); } icur = s_ic[irot++ % NCH]; if (icur->released) gs_reacquire(icur); uint8_t *p = gs_place(icur, want, vrn(r, 3) ? G_END : G_START, 0); memcpy(p, in + given, want); s->next_in = p; }
			else s->next_in = s_in->cur + given;
			s->avail_in = (uint32_t) want; given += want;
		}
		if (s->avail_out == 0) {
			size_t want = split_out >= 0 ? (first_out ? (size_t) split_out : CHMAX - 64) : csize(r, OCH, NOCH, okind); first_out = 0; if (want > CHMAX - 64) want = CHMAX - 64;
			if (split_out == 0 && want == 0) { want = CHMAX - 64; }
			if (ocur) { gs_reset(ocur); if (chunked) gs_release(ocur); } ocur = s_oc[orot++ % NCH]; if (ocur->released) gs_reacquire(ocur);
			ochunk = gs_place(ocur, want, vrn(r, 3) ? G_END : G_START, 0); ocap = want; s->next_out = ochunk; s->avail_out = (uint32_t) want;
		}
		uint32_t ain = s->avail_in, aout = s->avail_out, tout = s->total_out; uint8_t *nin = s->next_in, *nout = s->next_out; int sb = s->block_state, ret;
		if (V_TRY(30)) { ret = isal_inflate(s); V_END; } else { fault_key("isal_inflate"); goto fail; }
		st_calls++; res->calls++;
		uint32_t cons = ain - s->avail_in, prod = aout - s->avail_out; int sa = s->block_state;
		if (nev < MAXEV) { ev[nev].ain = ain; ev[nev].aout = aout; ev[nev].cons = cons; ev[nev].prod = prod; ev[nev].sb = (uint8_t) sb; ev[nev].sa = (uint8_t) sa; ev[nev].ret = (int8_t) ret; nev++; }
		if (sb < 16) st_resume[sb]++;
		if (ret >= -6 && ret <= 6) st_retcodes[ret + 8]++;
		if (ret >= 0 && (s->avail_in > ain || s->avail_out > aout || s->next_in != nin + cons || s->next_out != nout + prod)) {   /* after an error return the position fields are not meaningful */ viol_ev("counters-inconsistent", "cons=%u prod=%u but pointers moved %ld / %ld", cons, prod, (long) (s->next_in - nin), (long) (s->next_out - nout)); goto fail; }
		if (ret != ISAL_DECOMP_OK && ret != ISAL_NEED_DICT && !(ret <= -1 && ret >= -6)) { viol_ev("undocumented-return", "isal_inflate returned %d", ret); goto fail; }
		if (ret >= 0 && s->total_out != tout + prod) { viol_ev("counters-inconsistent", "total_out advanced by %u but %u bytes were produced", s->total_out - tout, prod); goto fail; }
		if (ctxinv(s)) goto fail;
		{ long d = gs_check(ocur, 4096); if (d != GS_OK) { viol_ev("oob-write:next_out", "canary damaged at output chunk%+ld (avail_out was %u)", d, aout); gs_repaint_all(ocur); goto fail; } }
		if (outlen + prod > EMAX) { res->capped = 1; break; }
		memcpy(got + outlen, nout, prod); outlen += prod;
		if (chunked && icur && s->avail_in == 0 && !icur->released) { gs_reset(icur); gs_release(icur); }
		if (ret == ISAL_NEED_DICT) {
			res->need_dict = 1; st_needdict++;
			if (!dict) { res->ret = ret; break; }
			uint8_t *dd = gs_place(s_dict, dictlen, G_END, 0); memcpy(dd, dict, dictlen);
			if (s->dict_id != refadler(1, dict, dictlen)) { /* reported through C19's DICTID byte-order finding; here only the flow matters */ }
			int rc = isal_inflate_set_dict(s, dd, (uint32_t) dictlen); if (rc) { viol_ev("set_dict-refused", "isal_inflate_set_dict after ISAL_NEED_DICT returned %d", rc); goto fail; }
			continue;
		}
		if (ret < 0) { res->ret = ret; break; }
		if (sa == ISAL_BLOCK_FINISH) { res->finished = 1; break; }
		if (cons == 0 && prod == 0 && sa == sb) {
			if (given == inlen && s->avail_in == 0 && aout > 0) { res->stalled = 1; break; }          /* wants more input than exists */
			if (ain > 0 && aout > 0) { if (++idle >= 2) { viol_ev("livelock", "two consecutive calls with input and output space available made no progress"); goto fail; } }
		} else idle = 0;
		if (outlimit && outlen >= outlimit && given == inlen && s->avail_in == 0) { /* keep going: limit is only a cap */ }
	}
	res->outlen = outlen; res->bstate = s->block_state; res->crc = s->crc;
	res->consumed = given - s->avail_in - (size_t) (s->read_in_length > 0 ? s->read_in_length / 8 : 0);
	gs_reset(s_st); gs_reset(s_in); gs_reset(s_dict);
	for (int i = 0; i < NCH; i++) { if (s_ic[i]->released) gs_reacquire(s_ic[i]); if (s_oc[i]->released) gs_reacquire(s_oc[i]); gs_reset(s_ic[i]); gs_reset(s_oc[i]); }
	return 0;
fail:
	gs_reset(s_st); gs_reset(s_in); gs_reset(s_dict);
	for (int i = 0; i < NCH; i++) { if (s_ic[i]->released) gs_reacquire(s_ic[i]); if (s_oc[i]->released) gs_reacquire(s_oc[i]); gs_reset(s_ic[i]); gs_reset(s_oc[i]); }
	return 1;
}
/* g_sl_first: when non-zero, the same struct is first used for a one-shot call into g_sl_first-1 bytes of output (which overflows) and then,
 * without re-initialisation, for the judged call: isal_inflate_stateless() sets up everything it needs itself */
static size_t g_sl_first, g_sl_cut; static long st_sl_retry, st_sl_trunc;
static int run_stateless(int mode, const uint8_t *in, size_t inlen, vrng *r, size_t outcap, const uint8_t *dict, size_t dictlen, int hist_bits, dres *res)
{
	struct inflate_state *s = (struct inflate_state *) gs_place(s_st, sizeof *s, vrn(r, 2) ? G_START : G_NEAR_END, 0);
	vr_fill(r, s, 4096); memset(res, 0, sizeof *res); nev = 0; g_shape = NULL; if (vrn(r, 2)) s->hist_bits = 1 + vrn(r, 14);
	uint8_t *pin = gs_place(s_in, inlen, vrn(r, 4) ? G_END : G_START, 0); memcpy(pin, in, inlen);
	uint8_t *pout = gs_place(s_out, outcap, vrn(r, 4) ? G_END : G_START, 0); int ret;
	if (V_TRY(30)) {
		isal_inflate_init(s); s->crc_flag = mode; if (hist_bits) s->hist_bits = hist_bits;
		if (dict && mode != ISAL_ZLIB) { uint8_t *dd = gs_place(s_dict, dictlen, G_END, 0); memcpy(dd, dict, dictlen); isal_inflate_set_dict(s, dd, (uint32_t) dictlen); }
		if (g_sl_cut && !dict && g_sl_cut <= inlen) { /* first a one-shot call on the same struct whose input stops inside the trailer */ s->next_in = pin; s->avail_in = (uint32_t) g_sl_cut; s->next_out = pout; s->avail_out = (uint32_t) outcap; int r0 = isal_inflate_stateless(s); if (r0 == ISAL_END_INPUT) st_sl_trunc++; s->crc_flag = mode; }
		if (g_sl_first && !dict && g_sl_first - 1 <= outcap) { s->next_in = pin; s->avail_in = (uint32_t) inlen; s->next_out = pout; s->avail_out = (uint32_t) (g_sl_first - 1); int r0 = isal_inflate_stateless(s); if (r0 == ISAL_OUT_OVERFLOW) st_sl_retry++; s->crc_flag = mode; }
		s->next_in = pin; s->avail_in = (uint32_t) inlen; s->next_out = pout; s->avail_out = (uint32_t) outcap;
		ret = isal_inflate_stateless(s); V_END;
	} else { fault_key("isal_inflate_stateless"); goto fail; }
	st_calls++; res->calls = 1; res->ret = ret;
	ev[0].ain = (uint32_t) inlen; ev[0].aout = (uint32_t) outcap; ev[0].cons = (uint32_t) inlen - s->avail_in; ev[0].prod = (uint32_t) outcap - s->avail_out; ev[0].sb = 0; ev[0].sa = (uint8_t) s->block_state; ev[0].ret = (int8_t) ret; nev = 1;
	if (ret >= -6 && ret <= 6) st_retcodes[ret + 8]++;
	if (!((ret >= 0 && ret <= 2) || (ret <= -1 && ret >= -6) || ret == ISAL_NEED_DICT)) { viol_ev("undocumented-return", "isal_inflate_stateless returned %d", ret); goto fail; }
	if (s->avail_out > outcap || (ret == ISAL_DECOMP_OK && s->avail_in > inlen)) { viol_ev("counters-inconsistent", "avail_in/avail_out grew"); goto fail; }
	{ long d = gs_check(s_out, 4096); if (d != GS_OK) { viol_ev("oob-write:next_out", "canary damaged at output%+ld (avail_out %zu)", d, outcap); gs_repaint_all(s_out); goto fail; } }
	if (memcmp(pin, in, inlen)) { viol_ev("source-modified", "input changed"); goto fail; }
	res->outlen = outcap - s->avail_out; if (res->outlen <= EMAX) memcpy(got, pout, res->outlen);
	res->finished = ret == ISAL_DECOMP_OK; res->stalled = ret == ISAL_END_INPUT; res->bstate = s->block_state; res->crc = s->crc; res->need_dict = ret == ISAL_NEED_DICT;
	res->consumed = inlen - s->avail_in - (size_t) (s->read_in_length > 0 ? s->read_in_length / 8 : 0);
	if (ret == ISAL_DECOMP_OK && s->total_out != res->outlen) { viol_ev("counters-inconsistent", "total_out=%u but %zu bytes were written", s->total_out, res->outlen); goto fail; }
	gs_reset(s_st); gs_reset(s_in); gs_reset(s_out); gs_reset(s_dict); return 0;
fail:
	gs_reset(s_st); gs_reset(s_in); gs_reset(s_out); gs_reset(s_dict); return 1;
}

/* ------------------------------------------------------------------ reference verdict and judgement */
enum { RV_VALID, RV_TRUNC, RV_INVALID, RV_UNKNOWN };
typedef struct { int cls; int err_body, err_wrap; size_t outlen, end_consumed /* bytes the mode consumes when complete */; int trailer_present, trailer_ok; } rverdict;
static void ref_verdict(int mode, const uint8_t *in, size_t inlen, const uint8_t *dict, size_t dictlen, rverdict *rv)
{
	memset(rv, 0, sizeof *rv); int wr = mode_wrapper(mode), hh = mode_hashdr(mode);
	int e = rwrap_decode(&RW, &RI, wr, hh, in, inlen, refout, EMAX, dict, dictlen);
	rv->err_wrap = e; rv->err_body = RI.err; rv->outlen = RI.outlen;
	if (e == RWE_NEEDDICT) { rv->cls = RV_UNKNOWN; return; }
	if (e == RWE_BODY) { rv->cls = RI.err == RI_EOF ? RV_TRUNC : RI.err == RI_OUTFULL ? RV_UNKNOWN : RV_INVALID; return; }
	if (e == RWE_SHORT && RW.body_end == 0) { rv->cls = RV_TRUNC; return; }               /* header truncated */
	if (e && e != RWE_SHORT && e != RWE_CRC && e != RWE_ISIZE && e != RWE_ADLER) { rv->cls = RV_INVALID; return; }   /* header error */
	/* body decoded */
	size_t tl = wr == RW_GZIP ? 8 : wr == RW_ZLIB ? 4 : 0;
	rv->trailer_present = inlen >= RW.body_end + tl; rv->trailer_ok = e == 0;
	if (!mode_verifies(mode)) { rv->cls = RV_VALID; rv->end_consumed = RW.body_end; return; }
	if (e == RWE_SHORT) { rv->cls = RV_TRUNC; return; }
	rv->cls = e == 0 ? RV_VALID : RV_INVALID; rv->end_consumed = RW.body_end + tl;
}
static int zlib_accepts(int mode, const uint8_t *in, size_t inlen)
{
	static uint8_t *zo; if (!zo) zo = malloc(EMAX);
	z_stream z; memset(&z, 0, sizeof z); int wb = mode == ISAL_GZIP ? 31 : mode == ISAL_ZLIB ? 15 : -15;
	if (inflateInit2(&z, wb) != Z_OK) return 0; z.next_in = (Bytef *) in; z.avail_in = (uInt) inlen; z.next_out = zo; z.avail_out = EMAX; int zr = inflate(&z, Z_FINISH); inflateEnd(&z); return zr == Z_STREAM_END;
}
/* judge one ISA-L outcome against the reference. strict = the stream is valid by construction (C02/C07): any failure is a violation */
static void judge(int mode, const uint8_t *in, size_t inlen, const rverdict *rv, const dres *d, int strict, const char *how, size_t outcap_stateless)
{
	char key[160];
	st_decodes++; st_modes[mode]++;
	if (d->capped || rv->cls == RV_UNKNOWN) return;
	if (d->finished) {
		st_false_ok_checked++;
		if (rv->cls != RV_VALID) {
			if (rv->cls == RV_INVALID && mode_verifies(mode) && (rv->err_wrap == RWE_CRC || rv->err_wrap == RWE_ISIZE || rv->err_wrap == RWE_ADLER)) { snprintf(key, sizeof key, "verification-missed:%s:%s", modename(mode), how); viol_ev(key, "reported success but the stored trailer does not match the delivered bytes (reference error %d)", rv->err_wrap); }
			else if (rv->cls == RV_TRUNC) { snprintf(key, sizeof key, "false-success-truncated:%s:%s", modename(mode), how); viol_ev(key, "reported completion of a stream the reference finds truncated (%s / wrapper %d)", ri_errname(rv->err_body), rv->err_wrap); }
			else { snprintf(key, sizeof key, "false-success:%s:%s", modename(mode), how); viol_ev(key, "reported completion of a stream that is not decodable: reference says %s (wrapper error %d)", ri_errname(rv->err_body), rv->err_wrap); }
			return;
		}
		if (d->outlen != rv->outlen || memcmp(got, refout, rv->outlen)) { size_t x = 0; while (x < d->outlen && x < rv->outlen && got[x] == refout[x]) x++; snprintf(key, sizeof key, "wrong-bytes:%s:%s", modename(mode), how); viol_ev(key, "delivered %zu bytes, reference %zu, first difference at %zu", d->outlen, rv->outlen, x); return; }
		if (d->consumed != rv->end_consumed) { snprintf(key, sizeof key, "end-position:%s:%s", modename(mode), how); viol_ev(key, "reported input position %zu but the stream ends at %zu", d->consumed, rv->end_consumed); return; }
		if (mode != ISAL_DEFLATE) {
			uint32_t want = mode_wrapper(mode) == RW_GZIP ? (uint32_t) refcrc_full(&refcrc_cat[RC_GZIP], refout, rv->outlen) : refadler(1, refout, rv->outlen);
			if (d->crc != want) { snprintf(key, sizeof key, "state-crc:%s:%s", modename(mode), how); viol_ev(key, "state->crc=%08x after completion, reference checksum of the delivered bytes is %08x", d->crc, want); return; }
		}
		return;
	}
	if (d->ret < 0) {
		/* one-shot decode into too little space: ISA-L may report ISAL_INVALID_LOOKBACK instead of ISAL_OUT_OVERFLOW; no listed property speaks about that case */
		if (rv->cls == RV_VALID && !(!strcmp(how, "stateless") && outcap_stateless < rv->outlen)) {
			if (strict || zlib_accepts(mode, in, inlen)) { snprintf(key, sizeof key, "rejects-valid:%s:%s:%d", modename(mode), how, d->ret); viol_ev(key, "returned %d on a stream the reference%s accept", d->ret, strict ? " (valid by construction)" : " and zlib"); }
			else st_stricter++;
		}
		return;
	}
	if (d->ret == ISAL_OUT_OVERFLOW) { if (rv->cls == RV_VALID && outcap_stateless >= rv->outlen) { snprintf(key, sizeof key, "overflow-with-room:%s", modename(mode)); viol_ev(key, "ISAL_OUT_OVERFLOW with %zu bytes of output space for %zu bytes", outcap_stateless, rv->outlen); } return; }
	if (d->need_dict) return;
	/* stalled: wants more input */
	if (rv->cls == RV_VALID) { snprintf(key, sizeof key, "never-finishes:%s:%s", modename(mode), how); viol_ev(key, "all input supplied and output space available, but the decoder neither finished nor failed (block_state %d); the reference completes the stream", d->bstate); }
}
/* expected ISA-L error class of an injected grammar fault */
static int fault_class(int f)
{
	switch (f) { case DGF_BTYPE3: case DGF_LENNLEN: case DGF_HLIT: case DGF_CL_OVERSUB: case DGF_LL_OVERSUB: case DGF_DIST_OVERSUB: case DGF_REP_NOPREV: case DGF_REP_OVERRUN: case DGF_NO_EOB: return ISAL_INVALID_BLOCK;
	case DGF_BAD_LENSYM: case DGF_BAD_DISTSYM: case DGF_UNASSIGNED: case DGF_NODIST_MATCH: case DGF_UNASSIGNED_DIST: return ISAL_INVALID_SYMBOL; case DGF_FARDIST: return ISAL_INVALID_LOOKBACK; default: return 0; }
}

/* ------------------------------------------------------------------ workloads */
static int modes_for(const vstream *v, int *modes, size_t *offs)
{
	int n = 0;
	if (v->wrapper == RW_RAW) { modes[n] = ISAL_DEFLATE; offs[n++] = 0; }
	else if (v->wrapper == RW_GZIP) { modes[n] = ISAL_GZIP; offs[n++] = 0; modes[n] = ISAL_GZIP_NO_HDR; offs[n++] = v->hdr_len; modes[n] = ISAL_GZIP_NO_HDR_VER; offs[n++] = v->hdr_len; }
	else { modes[n] = ISAL_ZLIB; offs[n++] = 0; modes[n] = ISAL_ZLIB_NO_HDR; offs[n++] = v->hdr_len; modes[n] = ISAL_ZLIB_NO_HDR_VER; offs[n++] = v->hdr_len; }
	return n;
}
static void set_case(long idx, const vstream *v, const char *lvl, const char *what) { v_setcase(idx, "cpu=%s build=%s %s src=%d wrapper=%d slen=%zu elen=%zu hdr=%zu fault=%s dict=%zu deep=%ld", lvl, V_BUILD_TAG, what, v->src, v->wrapper, v->slen, v->elen, v->hdr_len, dgf_name[v->fault], v->dictlen, v->deep); }

static void valid_case(long idx, vrng *r, const char *lvl, int systematic)
{
	vstream v; int src = vrn(r, 10) < 6 ? 0 : vrn(r, 3) ? 1 : 2;
	if (strcmp(V_BUILD_TAG, "hist8k") == 0 || strcmp(V_BUILD_TAG, "longer") == 0) src = 2;   /* reduced-window builds: their own output */
	if (gen_valid(r, &v, src, 0)) return;
	st_streams++; st_kind[src]++;
	if (vopt.verbose) { fprintf(stderr, "STREAM "); for (size_t i = 0; i < v.slen && i < 4096; i++) fprintf(stderr, "%02x", strm[i]); fprintf(stderr, "\n"); }
	int modes[4]; size_t offs[4]; int nm = modes_for(&v, modes, offs);
	const uint8_t *dict = v.dictlen ? dictb : NULL;
	/* bytes that do not belong to the stream follow it (the next member, padding): the reported end position must not include them */
	size_t tail = vrn(r, 3) ? 1 + vrn(r, vrn(r, 2) ? 4 : 40) : 0; for (size_t i = 0; i < tail; i++) strm[v.slen + i] = vrn(r, 4) ? (uint8_t) vr32(r) : vrn(r, 2) ? 0 : 0x78; st_tail += tail != 0;
	for (int mi = 0; mi < nm; mi++) {
		int mode = modes[mi]; const uint8_t *in = strm + offs[mi]; size_t inlen = v.slen - offs[mi] + tail;
		if (v.dictlen && vrn(r, 2)) continue;
		rverdict rv; ref_verdict(mode, in, inlen, dict, v.dictlen, &rv);
		set_case(idx, &v, lvl, modename(mode));
		if (rv.cls != RV_VALID || rv.outlen != v.elen || memcmp(refout, expb, v.elen)) { if (rv.cls == RV_UNKNOWN) continue; v_harness_fail("oracle self-check: reference decoder disagrees with the generator on a stream that is valid by construction (cls=%d err=%s/%d out=%zu want %zu) case %s", rv.cls, ri_errname(rv.err_body), rv.err_wrap, rv.outlen, v.elen, v_case); }
		dres d;
		/* (a) stateless with ample and with exact output */
		size_t caps[3] = { v.elen + 1 + vrn(r, 300), v.elen, v.elen ? v.elen - 1 : 0 };
		for (int k = 0; k < 3 && !v.dictlen; k++) { if (k && vrn(r, 2)) continue; g_sl_first = (k < 2 && v.elen >= 2 && vrn(r, 2)) ? 1 + vrn(r, (uint32_t) v.elen) : 0; g_sl_cut = (k < 2 && mode_verifies(mode) && inlen - tail > 12 && vrn(r, 3) == 0) ? inlen - tail - 1 - vrn(r, 7) : 0; int bad = run_stateless(mode, in, inlen, r, caps[k], dict, v.dictlen, 0, &d); g_sl_first = 0; g_sl_cut = 0; if (bad) return; if (k == 2 && v.elen) { if (d.finished) viol_ev("stateless-success-without-room", "%zu bytes delivered into %zu", v.elen, caps[k]); continue; } judge(mode, in, inlen, &rv, &d, 1, "stateless", caps[k]); }
		/* (b) streaming in one call, (c) random schedule, fresh mapping per chunk */
		if (run_streaming(mode, in, inlen, r, NICH - 1, NOCH - 1, 0, -1, -1, dict, v.dictlen, 0, 0, &d)) return; judge(mode, in, inlen, &rv, &d, 1, "stream-1call", 0);
		int ik = vrn(r, NICH + 2), ok = vrn(r, NOCH + 2); if (v.elen > 20000 && ok < 9) ok = NOCH + 1; if (inlen > 20000 && ik < 9) ik = NICH + 1;
		g_pre_hdr = (mode == ISAL_GZIP_NO_HDR || mode == ISAL_GZIP_NO_HDR_VER) && vrn(r, 2) ? strm : NULL; g_pre_hdr_len = v.hdr_len;
		{ int bad = run_streaming(mode, in, inlen, r, ik, ok, vrn(r, 2), -1, -1, dict, v.dictlen, 0, 0, &d); g_pre_hdr = NULL; if (bad) return; } judge(mode, in, inlen, &rv, &d, 1, "stream-sched", 0);
		if (in == strm + offs[mi] && inlen > 12 && mode_verifies(mode)) { /* cut inside the trailer */ long sp = (long) (inlen - tail) - 1 - (long) vrn(r, 12); if (run_streaming(mode, in, inlen, r, 0, NOCH - 1, 1, sp, -1, dict, v.dictlen, 0, 0, &d)) return; judge(mode, in, inlen, &rv, &d, 1, "stream-trailer-split", 0); st_trailer_straddle++; }
		if (v.elen > 65536 && v.elen + 8 < CHMAX - 64 && !v.dictlen) {   /* beyond 64 KiB the decoder writes straight into the caller's buffer: the first output buffer ends 1..3 bytes before the end of the data */
			for (long k = 1; k <= 3; k++) { if (run_streaming(mode, in, inlen, r, NICH - 1, 0, 0, -1, (long) v.elen - k, dict, v.dictlen, 0, 0, &d)) return; judge(mode, in, inlen, &rv, &d, 1, "split-out-near-end", 0); } st_near_end++; }
		if (systematic && inlen <= 700 && v.elen <= 3000) {   /* every single split point of input and of output */
			for (long sp = 0; sp <= (long) inlen; sp++) { if (run_streaming(mode, in, inlen, r, 0, NOCH - 1, sp & 1, sp, -1, dict, v.dictlen, 0, 0, &d)) return; judge(mode, in, inlen, &rv, &d, 1, "split-in", 0); }
			for (long sp = 0; sp <= (long) v.elen && sp < 800; sp++) { if (run_streaming(mode, in, inlen, r, NICH - 1, 0, 0, -1, sp, dict, v.dictlen, 0, 0, &d)) return; judge(mode, in, inlen, &rv, &d, 1, "split-out", 0); }
			v_count("systematic_split_streams", modename(mode), 1);
		}
	}
	if (v.elen) v_distinct(v_hash64(strm, v.slen < 4096 ? v.slen : 4096, v.slen));
	if (v_nsamples < 3 && v.elen > 200) v_sample("%s -> ISA-L stateless/streaming output equals generator token list and reference in %d modes (blocks: %ld stored %ld fixed %ld dynamic, max distance %u)", v_case, nm, RI.nstored, RI.nfixed, RI.ndyn, RI.maxdist);
	for (long b = 1; b < RI.nblocks && b < RI_MAXBLOCKS; b++) st_blockpairs[RI.blk[b - 1].type][RI.blk[b].type]++;
}
/* corrupted / truncated / arbitrary input */
static void hostile_case(long idx, vrng *r, const char *lvl, int c11)
{
	vstream v; int kind = vrn(r, 10);
	if (kind == 0 && !c11) { /* pure random bytes */ memset(&v, 0, sizeof v); v.slen = 1 + vrn(r, 600); vr_fill(r, strm, v.slen); v.wrapper = vrn(r, 3); if (v.wrapper == RW_GZIP && vrn(r, 2)) { strm[0] = 0x1f; strm[1] = 0x8b; strm[2] = 8; strm[3] &= 0x1f; } if (v.wrapper == RW_ZLIB && vrn(r, 2)) { strm[0] = 0x78; strm[1] = 0x9c; } }
	else if (kind <= 3 && !c11) { /* grammar-level fault */ int f = 1 + vrn(r, DGF_NFAULTS - 1); if (gen_valid(r, &v, 0, f)) return; }
	else {
		int src = vrn(r, 3); if (gen_valid(r, &v, c11 ? (vrn(r, 2) ? 0 : 1 + vrn(r, 2)) : src, 0) || v.slen > 70000) return;
		if (c11 && v.wrapper == RW_RAW) return;
		if (v.dictlen) return;
		int m = vrn(r, 10);
		if (m < 4) { /* single bit flip: anywhere for small streams, else header / first+last 64 bytes / trailer */
			size_t pos = v.slen <= 1024 || vrn(r, 3) == 0 ? vrn(r, (uint32_t) v.slen) : vrn(r, 2) ? vrn(r, (uint32_t) (v.hdr_len + 64 < v.slen ? v.hdr_len + 64 : v.slen)) : v.slen - 1 - vrn(r, v.slen > 76 ? 76 : (uint32_t) v.slen);
			strm[pos] ^= (uint8_t) (1u << vrn(r, 8)); st_detect[pos < v.hdr_len ? 0 : pos < v.body_end ? 1 : 2]++;
		} else if (m < 6) { size_t pos = vrn(r, (uint32_t) v.slen); strm[pos] = (uint8_t) vr32(r); }
		else if (m < 9) { /* truncation at every kind of place */ size_t cut = vrn(r, 3) == 0 ? v.slen - 1 - vrn(r, v.slen > 13 ? 13 : (uint32_t) v.slen) : vrn(r, (uint32_t) v.slen); v.slen = cut; }
		else { /* trailer replaced */ size_t tl = v.wrapper == RW_GZIP ? 8 : v.wrapper == RW_ZLIB ? 4 : 0; if (tl) { size_t at = v.slen - 1 - vrn(r, (uint32_t) tl); strm[at] += (uint8_t) (1 + vrn(r, 255)); } }
	}
	st_streams++;
	int modes[4]; size_t offs[4]; int nm = modes_for(&v, modes, offs);
	for (int mi = 0; mi < nm; mi++) {
		if (offs[mi] > v.slen) continue;
		int mode = modes[mi]; const uint8_t *in = strm + offs[mi]; size_t inlen = v.slen - offs[mi];
		if (c11 && !mode_verifies(mode) && vrn(r, 3)) continue;
		rverdict rv; ref_verdict(mode, in, inlen, NULL, 0, &rv);
		set_case(idx, &v, lvl, modename(mode));
		if (rv.cls == RV_VALID) st_benign_ok++;
		dres d; size_t exact = rv.outlen;
		size_t caps[8] = { 0, 1, 7, 8, exact ? exact - 1 : 0, exact, exact + 1, exact + 4096 }; int k = vrn(r, 8);
		if (run_stateless(mode, in, inlen, r, caps[k], NULL, 0, 0, &d)) return;
		if (!(d.finished && caps[k] < exact)) judge(mode, in, inlen, &rv, &d, 0, "stateless", caps[k]); else viol_ev("stateless-success-without-room", "success with %zu bytes of room for %zu", caps[k], exact);
		if (v.fault && d.ret < 0 && k == 7) { st_fault_fired[v.fault]++; int want = fault_class(v.fault); if (want && d.ret == want) st_fault_class_ok[v.fault]++; else if (want) { char key[160]; snprintf(key, sizeof key, "wrong-error-class:%s:stateless", dgf_name[v.fault]); viol_ev(key, "injected %s: returned %d, documented class is %d", dgf_name[v.fault], d.ret, want); } }
		else if (v.fault && v.fault != DGF_HDIST && d.ret >= 0 && !d.finished && k == 7) { /* END_INPUT / OVERFLOW on a faulty stream with ample trailing input */ if (d.ret == ISAL_END_INPUT) { char key[160]; snprintf(key, sizeof key, "fault-not-detected:%s:stateless", dgf_name[v.fault]); viol_ev(key, "injected %s followed by 80 bytes of input: ISAL_END_INPUT instead of an error", dgf_name[v.fault]); } }
		int ik = vrn(r, 4) == 0 ? 0 : vrn(r, NICH + 2), ok = vrn(r, NOCH + 2); if (exact > 20000 && ok < 9) ok = NOCH + 1; if (inlen > 20000 && ik < 9) ik = NICH + 1;
		if (run_streaming(mode, in, inlen, r, ik, ok, vrn(r, 2), -1, -1, NULL, 0, 0, 0, &d)) return;
		judge(mode, in, inlen, &rv, &d, 0, "stream-sched", 0);
		if (v.fault && d.ret < 0) { int want = fault_class(v.fault); if (want && d.ret != want) { char key[160]; snprintf(key, sizeof key, "wrong-error-class:%s:streaming", dgf_name[v.fault]); viol_ev(key, "injected %s: returned %d, documented class is %d", dgf_name[v.fault], d.ret, want); } }
		if (c11 && mode_verifies(mode) && inlen > 12) { long sp = (long) inlen - 1 - (long) vrn(r, 12); if (run_streaming(mode, in, inlen, r, 0, NOCH - 1, 1, sp, -1, NULL, 0, 0, 0, &d)) return; judge(mode, in, inlen, &rv, &d, 0, "stream-trailer-split", 0); st_trailer_straddle++; }
	}
	v_distinct(v_hash64(strm, v.slen < 4096 ? v.slen : 4096, v.slen * 31 + v.fault));
	if (v_nsamples < 4 && v.fault) v_sample("%s -> injected fault at bit %d judged", v_case, 0);
}
/* every single-bit flip in the first 120 bytes of the deflate data of small ISA-L / zlib made streams (block header area, incl. the
 * pregenerated-header shortcut of level-0 default-table streams): completion only if the reference agrees */
static void header_flip_case(long idx, vrng *r, const char *lvl)
{
	vstream v; if (gen_valid(r, &v, 1 + vrn(r, 2), 0) || v.dictlen || v.slen > 6000 || v.slen < v.hdr_len + 130) return;
	st_streams++;
	int mode = v.wrapper == RW_RAW ? ISAL_DEFLATE : v.wrapper == RW_GZIP ? ISAL_GZIP : ISAL_ZLIB;
	for (size_t bit = 0; bit < 120 * 8; bit++) {
		size_t pos = v.hdr_len + bit / 8; strm[pos] ^= (uint8_t) (1u << (bit & 7));
		rverdict rv; ref_verdict(mode, strm, v.slen, NULL, 0, &rv);
		v_setcase(idx, "cpu=%s build=%s header bit flip: src=%d wrapper=%d slen=%zu elen=%zu deflate bit %zu flipped", lvl, V_BUILD_TAG, v.src, v.wrapper, v.slen, v.elen, bit);
		dres d; if (run_stateless(mode, strm, v.slen, r, v.elen + 600, NULL, 0, 0, &d)) { strm[pos] ^= (uint8_t) (1u << (bit & 7)); return; }
		judge(mode, strm, v.slen, &rv, &d, 0, "stateless", v.elen + 600);
		if (bit % 16 == 3) { if (run_streaming(mode, strm, v.slen, r, NICH - 1, NOCH - 1, 0, -1, -1, NULL, 0, 0, 0, &d)) { strm[pos] ^= (uint8_t) (1u << (bit & 7)); return; } judge(mode, strm, v.slen, &rv, &d, 0, "stream-1call", 0); }
		strm[pos] ^= (uint8_t) (1u << (bit & 7));
	}
	v_count("systematic_header_flip_streams", v.src == 2 ? "isal" : "zlib", 1);
	v_distinct(v_hash64(strm, v.slen, 77));
}
/* C17 (decompression side): isal_inflate_set_dict while a block is open must be refused and leave the state untouched */
static long st_dict_refused;
static void dict_state_case(long idx, vrng *r, const char *lvl)
{
	vstream v; if (gen_valid(r, &v, vrn(r, 2), 0) || v.slen < 40 || v.slen > 60000) return;
	if (v.wrapper != RW_RAW) { memmove(strm, strm + v.hdr_len, v.body_end - v.hdr_len); v.slen = v.body_end - v.hdr_len; v.wrapper = RW_RAW; }
	if (v.dictlen) return;
	struct inflate_state *s = (struct inflate_state *) gs_place(s_st, sizeof *s, G_START, 0); static struct inflate_state snap;
	uint8_t *pin = gs_place(s_in, v.slen, G_END, 0); memcpy(pin, strm, v.slen); uint8_t *dd = gs_place(s_dict, 3000, G_END, 0); vr_fill(r, dd, 3000);
	nev = 0; g_shape = NULL; size_t off = 0, outl = 0; int probes = 0;
	v_setcase(idx, "cpu=%s inflate dictionary call mid-stream: src=%d slen=%zu elen=%zu", lvl, v.src, v.slen, v.elen);
	if (V_TRY(60)) {
		isal_inflate_init(s);
		while (off < v.slen && s->block_state != ISAL_BLOCK_FINISH) {
			size_t c = 1 + vrn(r, vrn(r, 3) ? 40 : 2000); if (c > v.slen - off) c = v.slen - off;
			s->next_in = pin + off; s->avail_in = (uint32_t) c; off += c;
			do { s->next_out = got + outl; s->avail_out = 1 + vrn(r, 5000); uint32_t ao = s->avail_out; int rc = isal_inflate(s); outl += ao - s->avail_out; if (rc < 0) { V_END; viol_ev("rejects-valid:raw:dict-probe", "isal_inflate returned %d on a valid stream", rc); goto out; } } while (s->avail_out == 0 && s->block_state != ISAL_BLOCK_FINISH && outl < EMAX - 70000);
			if (s->block_state != ISAL_BLOCK_NEW_HDR && s->block_state != ISAL_BLOCK_FINISH && outl > 0) {
				memcpy(&snap, s, sizeof snap); int bs = s->block_state;
				int rc = isal_inflate_set_dict(s, dd, 1 + vrn(r, 3000)); probes++;
				if (rc == ISAL_DECOMP_OK) { V_END; char key[120]; snprintf(key, sizeof key, "inflate-dict-accepted-mid-block:state%d", bs); viol_ev(key, "isal_inflate_set_dict returned 0 in block_state %d after %zu bytes of output", bs, outl); goto out; }
				if (memcmp(&snap, s, sizeof snap)) { V_END; viol_ev("inflate-dict-refusal-has-side-effects", "refused (%d) but the inflate_state changed", rc); goto out; }
				st_dict_refused++; { char e[16]; snprintf(e, sizeof e, "state%d", bs); v_count("inflate_dict_probe_states", e, 1); }
			}
		}
		V_END;
	} else { fault_key("inflate dictionary probe"); goto out; }
	st_streams++; st_decodes++;
	if (s->block_state == ISAL_BLOCK_FINISH && (outl != v.elen || memcmp(got, expb, v.elen))) viol_ev("wrong-bytes:raw:dict-probe", "after refused dictionary calls the stream decodes to %zu bytes (expected %zu)", outl, v.elen);
	else if (probes) v_distinct(v_hash64(strm, v.slen < 4096 ? v.slen : 4096, 5));
out:
	gs_reset(s_st); gs_reset(s_in); gs_reset(s_dict);
}
int main(int argc, char **argv)
{
	v_init(argc, argv);
	if (refcrc_selftest() || refadler_selftest()) v_harness_fail("reference checksum self-test failed");
	if (V_NDISPATCHED > 0) cpusim_init();
	s_st = gs_new("inflate_state", sizeof(struct inflate_state) + 8192); s_in = gs_new("next_in", SMAX + 8192); s_out = gs_new("next_out", EMAX + 8192); s_dict = gs_new("dict", 80000);
	for (int i = 0; i < NCH; i++) { s_ic[i] = gs_new("in_chunk", CHMAX); s_oc[i] = gs_new("out_chunk", CHMAX); }
	strm = malloc(SMAX + 70000); expb = malloc(EMAX + 64); refout = malloc(EMAX + 64); got = malloc(EMAX + CHMAX); tmpin = malloc(SMAX + 64); dictb = malloc(80000);
	const char *prop = vopt.prop; int hostile = !strcmp(prop, "C06") || !strcmp(prop, "C11"), c11 = !strcmp(prop, "C11"), c07 = !strcmp(prop, "C07"), both = !strcmp(prop, "C05");
	long per = (long) ((vopt.thorough ? (hostile ? 6000 : 2500) : (hostile ? 120 : 40)) * vopt.scale); if (per < 1) per = 1;
	int nlv = V_NDISPATCHED > 0 ? CPUSIM_NNAMED : 1;
	for (int l = 0; l < nlv; l++) {
		const char *lname = "native";
		if (V_NDISPATCHED > 0) { const cpucfg *cfg = &cpusim_named[l]; if (!cpusim_host_can(cfg)) { v_set("cpu_levels_skipped", cfg->name); continue; }
			/* the decode kernel only depends on base / sse / avx2: skip levels that select the same inflate kernels */
			if (strcmp(cfg->name, "base") && strcmp(cfg->name, "sse") && strcmp(cfg->name, "avx2") && strcmp(cfg->name, "avx512+g2") && strcmp(cfg->name, "sse-noclmul") && strcmp(cfg->name, "avx")) continue;
			cpusim_apply(cfg); lname = cfg->name; v_set("cpu_levels", lname); if (vopt.shard == 0) cpusim_report(lname); }
		for (long q = 0; q < per * 16; q++) {
			long idx = (long) l * 10000000 + q; if (!v_mine(idx)) continue;
			vrng r; vr_seed(&r, vopt.seed, 60, idx);
			if (!strcmp(prop, "C17")) dict_state_case(idx, &r, lname);
			else if (!strcmp(prop, "C06") && q % 40 == 7) header_flip_case(idx, &r, lname);
			else if (hostile || (both && (q & 1))) hostile_case(idx, &r, lname, c11); else valid_case(idx, &r, lname, c07 && q % 4 == 0);
			if (v_nviol > v_viol_cap) break;
		}
	}
	v_stat("evaluations", st_decodes); v_stat("streams", st_streams); v_stat("library_calls", st_calls); v_stat("streams_with_codes_13plus", st_deep); v_stat("finished_results_checked_against_reference", st_false_ok_checked);
	v_stat("rejected_but_reference_lenient", st_stricter); v_stat("mutants_still_valid_and_accepted", st_benign_ok); v_stat("trailer_straddling_histories", st_trailer_straddle); v_stat("need_dict_flows", st_needdict); v_stat("valid_streams_followed_by_foreign_bytes", st_tail); v_stat("generated_streams_that_start_with_64KiB_of_stored_data", st_prefixed); v_stat("streams_over_64KiB_with_the_first_output_buffer_ending_1_to_3_bytes_early", st_near_end); v_stat("stateless_retries_on_the_same_struct_after_overflow", st_sl_retry); v_stat("streams_whose_gzip_header_the_caller_parsed_with_the_reader_first", st_pre_hdr); v_stat("stateless_calls_on_a_struct_whose_previous_call_ended_inside_the_trailer", st_sl_trunc);
	v_stat("inflate_dict_calls_refused", st_dict_refused); v_stat("generated_blocks_carrying_the_library_default_header_with_foreign_tokens", st_foreign_hdr); v_stat("streams_with_a_near_maximal_dynamic_header", st_maxhdr); if (st_maxhdr_bits) { char hb[40]; snprintf(hb, sizeof hb, "%ld", st_maxhdr_bits); v_set("near_maximal_dynamic_header_bits", hb); }
	v_count("stream_source", "grammar", st_kind[0]); v_count("stream_source", "zlib", st_kind[1]); v_count("stream_source", "isal", st_kind[2]);
	v_count("flip_region", "header", st_detect[0]); v_count("flip_region", "body", st_detect[1]); v_count("flip_region", "trailer", st_detect[2]);
	for (int m = 0; m < 7; m++) if (st_modes[m]) v_count("decodes_per_mode", modename(m), st_modes[m]);
	for (int c = 0; c < 16; c++) if (st_retcodes[c]) { char e[16]; snprintf(e, sizeof e, "%d", c - 8); v_count("return_codes", e, st_retcodes[c]); }
	for (int b = 0; b < 16; b++) if (st_resume[b]) { char e[16]; snprintf(e, sizeof e, "%d", b); v_count("resume_block_states", e, st_resume[b]); }
	for (int f = 1; f < DGF_NFAULTS; f++) if (st_fault_fired[f]) { v_count("faults_detected", dgf_name[f], st_fault_fired[f]); v_count("faults_with_documented_class", dgf_name[f], st_fault_class_ok[f]); }
	for (int a = 0; a < 3; a++) for (int b = 0; b < 3; b++) if (st_blockpairs[a][b]) { char e[16]; snprintf(e, sizeof e, "%d>%d", a, b); v_count("block_type_pairs", e, st_blockpairs[a][b]); }
	return v_finish();
}
